"""C20 - generators: families of Python classes (as source text) over the schema-supported
grammar x Config combinations, plus build parameters.  Everything a case needs is in its
dict (source text, root type expressions, parameters) so that a replay is self-contained.

Special features that hit a *known* genuine defect are generated with a small probability,
at most one such feature per case, and recorded in case["kf"] by a precise predicate of the
generator (never guessed from the exception text alone):
  recursive-class            the class graph reachable from a root is cyclic (no Self involved)
  self-type                  a reachable dataclass has a field whose type mentions typing.Self
  slots-descriptor-default   a reachable dataclass declares __slots__ by hand and has a field without default
  field-strategy-unannotated a reachable field carries a field-level serialization_strategy whose
                             serialize() has no return annotation
  field-override-container   a reachable field carries a field-level serialize callable / serialization_strategy
                             whose return annotation is not a plain class: a parametrised generic (List[str],
                             Dict[str, bool], Optional[str]) or a string (module with `from __future__ import annotations`)
  nt-mutable-default         a reachable NamedTuple has a list default
  default-over-string-annotated-namedtuple  a defaulted dataclass field whose type contains a NamedTuple with string annotations (same
                             or another module): the default is rendered by compiling a serializer inside mashumaro.jsonschema.schema,
                             which cannot resolve them
  defs-bare-name-clash       two different specialisations of one generic dataclass are reachable
"""
from __future__ import annotations

import random

# a second module: a third-party type (serializable only through a strategy) and NamedTuple / TypedDict / dataclass
# definitions with string annotations whose names exist only in that module
LIB_SRC = '''\
import enum
from dataclasses import dataclass
from typing import *
class Pt:
    def __init__(self, x=0):
        self.x = x
def pt_ser(v: Pt) -> int:
    return v.x
def pt_ser_s(v: Pt) -> str:
    return str(v.x)
PT_STRATEGY = {"serialize": pt_ser, "deserialize": Pt}
class LE(enum.Enum):
    A = "a"
    B = 2
LAlias = Dict[str, int]
@dataclass
class LD:
    v: "LAlias"
    e: "Optional[LE]" = None
class LNT(NamedTuple):
    e: "LE"
    m: "LAlias"
    d: "Optional[LD]"
class LNTd(NamedTuple):
    e: "LE"
    m: "LAlias" = None
class LTD(TypedDict):
    e: "LE"
    m: "List[LD]"
'''

PRELUDE = '''\
import __C20_LIB__ as lib
from __C20_LIB__ import LNT, LNTd, LTD, LD, Pt
import collections, datetime, decimal, enum, fractions, ipaddress, pathlib, uuid, zoneinfo
import typing
from dataclasses import dataclass, field, InitVar
from typing import *
from typing_extensions import Self, Annotated, TypedDict, Required, NotRequired, ReadOnly
from mashumaro import DataClassDictMixin, pass_through, field_options
from mashumaro.mixins.json import DataClassJSONMixin
from mashumaro.mixins.orjson import DataClassORJSONMixin
from mashumaro.config import BaseConfig, ADD_DIALECT_SUPPORT, TO_DICT_ADD_OMIT_NONE_FLAG, TO_DICT_ADD_BY_ALIAS_FLAG, ADD_SERIALIZATION_CONTEXT
from mashumaro.dialect import Dialect
from mashumaro.types import SerializationStrategy, Discriminator
from mashumaro.jsonschema.annotations import *
from mashumaro.jsonschema.models import JSONSchema as _JS

class E1(enum.Enum):
    A = "a"
    B = 2
    C = None
class E2(enum.IntEnum):
    X = 1
    Y = 2
class E3(str, enum.Enum):
    P = "p"
    Q = "it's"
class E4(enum.Flag):
    R = 1
    W = 2
class E5(enum.IntFlag):
    R = 1
    W = 2
class E6(enum.StrEnum):
    S = "s"
class E0(enum.Enum):
    pass
class NT1(NamedTuple):
    a: int
    b: str = "x"
class NT2(NamedTuple):
    p: datetime.date
    q: Optional[float] = None
class NTs(NamedTuple):
    a: "Dict[str, int]" = None
    b: "Optional[E1]" = E1.A
    c: "int" = 3
class NT3(NamedTuple):
    a: int = 0
    r: List[int] = []
class TD1(TypedDict):
    a: int
    b: NotRequired[str]
class TD2(TypedDict, total=False):
    x: Required[datetime.date]
    y: List[int]
class TD0(TypedDict):
    pass
class NT0(NamedTuple):
    pass
CN0 = collections.namedtuple("CN0", [])
CN2 = collections.namedtuple("CN2", ["u", "v"], defaults=[1])
NTy = NewType("NTy", int)
TV = TypeVar("TV")
TVB = TypeVar("TVB", bound=int)
TVC = TypeVar("TVC", int, str)

def ser_str(v) -> str:
    return str(v)
def ser_int(v) -> int:
    return 0
def ser_map(v) -> Dict[str, bool]:
    return {"k": bool(v)}
def ser_lst(v) -> List[str]:
    return [str(v)]
def ser_opt(v) -> Optional[str]:
    return None
def ser_plain(v):
    return str(v)
class StratA(SerializationStrategy):
    def serialize(self, v) -> str:
        return str(v)
    def deserialize(self, v):
        return v
class StratU(SerializationStrategy):
    def serialize(self, v):
        return str(v)
    def deserialize(self, v):
        return v
'''


class T:
    """A type of the grammar: python source, a generator of python value expressions,
    whether such values are hashable/immutable, the dataclasses it mentions."""

    def __init__(self, src, val, immut=True, classes=(), feat="", leafty=None, selfref=False, generic=()):
        self.src = src
        self.val = val              # callable(rng) -> str (python expression)
        self.immut = immut          # value may be used as a direct dataclass default / set member / dict key
        self.classes = tuple(classes)
        self.feat = feat or src
        self.leafty = leafty        # the python type object name when usable as a strategy key
        self.selfref = selfref
        self.generic = tuple(generic)   # (generic class, args source) pairs mentioned


def _choice(vals):
    return lambda r: r.choice(vals)


STRS = ['""', '"a"', '"$ref"', '"it\'s"', '"\\n"', '"\\u00e9\\U0001f600"', '"\\""', '"#/$defs/X"', '"0"']
INTS = ["0", "1", "-1", "2**70", "-(2**63)", "7"]
FLOATS = ["0.0", "1.5", "-0.0", "1e300", "float('inf')", "-2.25"]

LEAVES = [
    T("int", _choice(INTS), leafty="int"),
    T("float", _choice(FLOATS), leafty="float"),
    T("bool", _choice(["True", "False"]), leafty="bool"),
    T("str", _choice(STRS), leafty="str"),
    T("Any", _choice(["None", "1", '"x"', "(1, 2)", "frozenset()", "0", "False", '""'])),
    T("bytes", _choice(['b""', 'b"abc"', 'b"\\x00\\xff"']), leafty="bytes"),
    T("bytearray", _choice(['bytearray(b"ab")']), immut=False),
    T("datetime.datetime", _choice(["datetime.datetime(2020, 1, 2, 3, 4, 5)",
                                    "datetime.datetime(1, 1, 1, tzinfo=datetime.timezone.utc)"]), leafty="datetime.datetime"),
    T("datetime.date", _choice(["datetime.date(2020, 2, 29)", "datetime.date.min"]), leafty="datetime.date"),
    T("datetime.time", _choice(["datetime.time(1, 2, 3, 4)", "datetime.time(0)"]), leafty="datetime.time"),
    T("datetime.timedelta", _choice(["datetime.timedelta(seconds=1.5)", "datetime.timedelta(0)", "datetime.timedelta(days=-1)"]),
      leafty="datetime.timedelta"),
    T("datetime.timezone", _choice(["datetime.timezone.utc", "datetime.timezone(datetime.timedelta(minutes=-30))"])),
    T("zoneinfo.ZoneInfo", _choice(['zoneinfo.ZoneInfo("UTC")'])),
    T("uuid.UUID", _choice(['uuid.UUID(int=0)', 'uuid.UUID("12345678-1234-5678-1234-567812345678")']), leafty="uuid.UUID"),
    T("decimal.Decimal", _choice(['decimal.Decimal("1.10")', 'decimal.Decimal("-0")', 'decimal.Decimal("1E+3")']), leafty="decimal.Decimal"),
    T("fractions.Fraction", _choice(["fractions.Fraction(1, 3)", "fractions.Fraction(0)"])),
    T("ipaddress.IPv4Address", _choice(['ipaddress.IPv4Address("127.0.0.1")'])),
    T("ipaddress.IPv6Address", _choice(['ipaddress.IPv6Address("::1")'])),
    T("ipaddress.IPv4Network", _choice(['ipaddress.IPv4Network("10.0.0.0/8")'])),
    T("ipaddress.IPv6Network", _choice(['ipaddress.IPv6Network("::/0")'])),
    T("ipaddress.IPv4Interface", _choice(['ipaddress.IPv4Interface("10.0.0.1/8")'])),
    T("ipaddress.IPv6Interface", _choice(['ipaddress.IPv6Interface("::1/64")'])),
    T("pathlib.PurePosixPath", _choice(['pathlib.PurePosixPath("/a/b")', 'pathlib.PurePosixPath("")'])),
    T("pathlib.Path", _choice(['pathlib.Path("x")'])),
    T("pathlib.PurePath", _choice(['pathlib.PurePath("x/y")'])),
    T("E1", _choice(["E1.A", "E1.B", "E1.C"]), feat="Enum"),
    T("E2", _choice(["E2.X", "E2.Y"]), feat="IntEnum"),
    T("E3", _choice(["E3.P", "E3.Q"]), feat="StrMixinEnum"),
    T("E4", _choice(["E4.R", "E4.R | E4.W", "E4(0)"]), feat="Flag"),
    T("E5", _choice(["E5.R", "E5.R | E5.W", "E5(0)"]), feat="IntFlag"),
    T("E6", _choice(["E6.S"]), feat="StrEnum"),
    T("E0", None, feat="EmptyEnum"),
    T("NT1", _choice(["NT1(1)", 'NT1(2, "y")']), feat="NamedTuple"),
    T("NT2", _choice(["NT2(datetime.date(2020, 1, 1))", "NT2(datetime.date(2020, 1, 1), 1.5)"]), feat="NamedTuple"),
    T("TD1", _choice(['{"a": 1}', '{"a": 1, "b": "z"}']), immut=False, feat="TypedDict"),
    T("TD2", _choice(['{"x": datetime.date(2020, 1, 1)}']), immut=False, feat="TypedDict"),
    T("TD0", _choice(["{}"]), immut=False, feat="TypedDict"),
    T("NT0", _choice(["NT0()"]), feat="NamedTuple-empty"),
    T("CN0", _choice(["CN0()"]), feat="namedtuple-empty"),
    T("CN2", _choice(["CN2(1)", "CN2('a', None)"]), feat="namedtuple-untyped"),
    T("NTy", _choice(["NTy(3)"]), feat="NewType"),
    T('Literal[1, "a", True, None, b"x", E1.A]', _choice(["1", '"a"', "True", "None", 'b"x"', "E1.A"]), feat="Literal"),
    T("Literal[0]", _choice(["0"]), feat="Literal1"),
    T('Literal["", False]', _choice(['""', "False"]), feat="Literal"),
    T("Literal[None]", _choice(["None"]), feat="Literal1"),
    T("TVB", _choice(["1"]), feat="TypeVar"),
    T("TVC", _choice(["1", '"s"']), feat="TypeVar"),
    T("tuple", _choice(["()", "(1, 'a')"]), feat="bare-tuple"),
    T("Tuple[()]", _choice(["()"]), feat="empty-tuple"),
]
LEAF_BY_SRC = {t.src: t for t in LEAVES}
# the unconstrained TypeVar is used only as a field type of Generic[TV] classes (in a non-generic class it would be bound by
# whichever generic dataclass happens to contain it: see known finding generic-typevar-leak)
LEAF_BY_SRC["TV"] = T("TV", _choice(["1", "None"]), feat="TypeVar")
KEY_LEAVES = ["str", "int", "E3", "E2", "datetime.date", "uuid.UUID", "bool", "float", "E6"]

ANNOTS = {
    "int": ["Minimum(0)", "Maximum(10)", "ExclusiveMinimum(-1)", "ExclusiveMaximum(100)", "MultipleOf(2)", "Minimum(0.5)"],
    "float": ["Minimum(0.0)", "Maximum(1.5)", "MultipleOf(0.5)", "ExclusiveMaximum(2)"],
    "str": ["MinLength(0)", "MaxLength(5)", 'Pattern("^a*$")', 'Pattern("")'],
    "array": ["MinItems(0)", "MaxItems(3)", "UniqueItems(True)", "UniqueItems(False)", "Contains(_JS())",
              "MinContains(0)", "MaxContains(2)"],
    "object": ["MinProperties(0)", "MaxProperties(4)", 'DependentRequired({"a": {"b"}})'],
    "path": ["MinLength(1)", "MaxLength(100)"],
}


class Fam:
    """One family of classes (one generated module)."""

    def __init__(self, rng: random.Random, quick=True, model_only=False):
        self.r = rng
        self.lines: list[str] = []
        self.classes: dict[str, dict] = {}     # name -> info
        self.order: list[str] = []
        self.kf: str | None = None
        self.kf_wanted: str | None = None
        self.hist: dict[str, int] = {}
        self.n_dialects = 0
        self.future_annotations = False
        self.allow_container_strategy = True

    def h(self, k):
        self.hist[k] = self.hist.get(k, 0) + 1

    # ---------------- types
    def gen_type(self, depth: int, avail: list[str], need_val=False, top=False) -> T:
        for _ in range(50):
            t = self.gen_type1(depth, avail, need_val, top)
            if not need_val or t.val is not None:
                return t
        return LEAF_BY_SRC["int"]

    def gen_type1(self, depth: int, avail: list[str], need_val=False, top=False) -> T:
        r = self.r
        x = r.random()
        if depth <= 0 or x < 0.34:
            if avail and r.random() < 0.35:
                return self.class_type(r.choice(avail))
            if self.kf_wanted == "nt-mutable-default" and r.random() < 0.3 and not self.future_annotations:
                self.kf = "nt-mutable-default"
                return T("NT3", _choice(["NT3()", "NT3(1, [2])"]), immut=False, feat="NamedTuple-mutable-default")
            while True:
                t = r.choice(LEAVES)
                if need_val and t.val is None:
                    continue
                if self.future_annotations and t.src[:2] in ("NT", "TD") and t.src != "NTy":
                    continue   # NamedTuple/TypedDict classes of a PEP 563 module keep string annotations (excluded)
                return t
        k = r.choice(["List", "list", "Sequence", "Deque", "Set", "FrozenSet", "TupleVar", "TupleFix", "Dict", "Mapping",
                      "OrderedDict", "DefaultDict", "Counter", "ChainMap", "Optional", "Union", "Annotated", "Final",
                      "MutableMapping", "AbstractSet", "Collection", "TupleUnpack", "Optional", "Union", "List", "Dict",
                      "Annotated", "Generic", "Final", "Final"])
        self.h("ctor:" + k)
        if k in ("List", "list", "Sequence", "Deque", "Collection"):
            a = self.gen_type(depth - 1, avail)
            name = {"List": "List", "list": "list", "Sequence": "Sequence", "Deque": "Deque", "Collection": "List"}[k]
            mk = {"Deque": "collections.deque([%s])"}.get(k, "[%s]")
            return T(f"{name}[{a.src}]", (lambda rr, a=a, mk=mk: mk % ", ".join(a.val(rr) for _ in range(rr.randrange(0, 3)))) if a.val else (lambda rr, mk=mk: mk % ""),
                     immut=False, classes=a.classes, selfref=a.selfref, generic=a.generic)
        if k in ("Set", "FrozenSet", "AbstractSet"):
            a = self.gen_hashable(depth - 1, avail)
            name = {"Set": "Set", "FrozenSet": "FrozenSet", "AbstractSet": "AbstractSet"}[k]
            mk = "frozenset([%s])" if k == "FrozenSet" else "set([%s])"
            return T(f"{name}[{a.src}]", lambda rr, a=a, mk=mk: mk % ", ".join(a.val(rr) for _ in range(rr.randrange(0, 3))),
                     immut=(k == "FrozenSet"), classes=a.classes, generic=a.generic)
        if k == "TupleVar":
            a = self.gen_type(depth - 1, avail)
            return T(f"Tuple[{a.src}, ...]", (lambda rr, a=a: "(" + "".join(a.val(rr) + ", " for _ in range(rr.randrange(0, 3))) + ")") if a.val else (lambda rr: "()"),
                     immut=a.immut, classes=a.classes, selfref=a.selfref, generic=a.generic)
        if k == "TupleFix":
            n = r.randrange(1, 4)
            parts = [self.gen_type(depth - 1, avail, need_val=True) for _ in range(n)]
            return T("Tuple[" + ", ".join(p.src for p in parts) + "]",
                     lambda rr, parts=parts: "(" + "".join(p.val(rr) + ", " for p in parts) + ")",
                     immut=all(p.immut for p in parts), classes=sum((p.classes for p in parts), ()),
                     selfref=any(p.selfref for p in parts), generic=sum((p.generic for p in parts), ()))
        if k == "TupleUnpack":
            a = self.gen_type(depth - 1, avail, need_val=True)
            form = r.choice(["Tuple[int, Unpack[Tuple[%s, ...]]]", "Tuple[Unpack[Tuple[%s, str]], int]", "Tuple[int, Unpack[Tuple[str, %s]]]"])
            vals = {"Tuple[int, Unpack[Tuple[%s, ...]]]": lambda rr, a=a: "(1, " + a.val(rr) + ")",
                    "Tuple[Unpack[Tuple[%s, str]], int]": lambda rr, a=a: "(" + a.val(rr) + ", 's', 1)",
                    "Tuple[int, Unpack[Tuple[str, %s]]]": lambda rr, a=a: "(1, 's', " + a.val(rr) + ")"}[form]
            return T(form % a.src, vals, immut=a.immut, classes=a.classes, selfref=a.selfref, generic=a.generic)
        if k in ("Dict", "Mapping", "OrderedDict", "DefaultDict", "MutableMapping", "ChainMap"):
            kt = LEAF_BY_SRC[r.choice(KEY_LEAVES)] if r.random() < 0.5 else LEAF_BY_SRC["str"]
            a = self.gen_type(depth - 1, avail)
            name = k
            if k == "DefaultDict":
                mk = "collections.defaultdict(None, {%s})"
            elif k == "OrderedDict":
                mk = "collections.OrderedDict({%s})"
            elif k == "ChainMap":
                mk = "collections.ChainMap({%s})"
            else:
                mk = "{%s}"
            def val(rr, kt=kt, a=a, mk=mk):
                if a.val is None or rr.random() < 0.4:
                    return mk % ""
                return mk % (kt.val(rr) + ": " + a.val(rr))
            return T(f"{name}[{kt.src}, {a.src}]", val, immut=False, classes=a.classes, selfref=a.selfref, generic=a.generic)
        if k == "Counter":
            kt = LEAF_BY_SRC[r.choice(KEY_LEAVES)]
            return T(f"Counter[{kt.src}]", lambda rr, kt=kt: "collections.Counter([%s])" % kt.val(rr), immut=False)
        if k == "Optional":
            a = self.gen_type(depth - 1, avail)
            return T(f"Optional[{a.src}]", (lambda rr, a=a: "None" if rr.random() < 0.5 else a.val(rr)) if a.val else (lambda rr: "None"),
                     immut=a.immut, classes=a.classes, selfref=a.selfref, generic=a.generic)
        if k == "Union":
            n = r.randrange(2, 4)
            parts = [self.gen_type(depth - 1, avail) for _ in range(n)]
            # a NewType member makes to_dict itself reject the value (C11 territory): not used inside unions
            # (same for an Any member: to_dict raises InvalidFieldValue for e.g. Union[date, Any] holding False)
            parts = [p if p.src not in ("NTy", "Any", "TV", "TVB", "TVC") else LEAF_BY_SRC["int"] for p in parts]
            if r.random() < 0.3:
                parts.insert(r.randrange(0, n + 1), T("None", _choice(["None"])))
            vs = [p for p in parts if p.val]
            return T("Union[" + ", ".join(p.src for p in parts) + "]",
                     (lambda rr, vs=vs: rr.choice(vs).val(rr)) if vs else None,
                     immut=all(p.immut for p in parts), classes=sum((p.classes for p in parts), ()),
                     selfref=any(p.selfref for p in parts), generic=sum((p.generic for p in parts), ()))
        if k == "Annotated":
            base = r.choice(["int", "float", "str", "array", "object", "path"])
            ann = r.sample(ANNOTS[base], r.randrange(1, min(4, len(ANNOTS[base])) + 1))
            if not top:   # DependentRequired is unhashable: typing rejects it inside Optional/Union arguments
                ann = [a for a in ann if not a.startswith("DependentRequired")] or ["MinProperties(0)"]
            if base in ("int", "float", "str"):
                a = LEAF_BY_SRC[base]
            elif base == "path":
                a = LEAF_BY_SRC["pathlib.PurePosixPath"]
            elif base == "array":
                inner = self.gen_type(depth - 1, avail)
                a = T(f"List[{inner.src}]", lambda rr: "[]", immut=False, classes=inner.classes, selfref=inner.selfref, generic=inner.generic)
            else:
                inner = self.gen_type(depth - 1, avail)
                a = T(f"Dict[str, {inner.src}]", lambda rr: "{}", immut=False, classes=inner.classes, selfref=inner.selfref, generic=inner.generic)
            return T(f"Annotated[{a.src}, {', '.join(ann)}]", a.val, immut=a.immut, classes=a.classes, selfref=a.selfref, generic=a.generic)
        if k == "Final":
            a = self.gen_type(depth - 1, avail)
            # Final[T] is legal only as the outermost annotation of a field; kept out of the families that carry the
            # Self known finding (same exception text there), so that an unexpected TypeError is never attributed to it
            if not top or self.kf_wanted == "self-type":
                return a
            return T(f"Final[{a.src}]", a.val, immut=a.immut, classes=a.classes, selfref=a.selfref, generic=a.generic, feat="Final")
        if k == "Generic":
            gens = [c for c in avail if self.classes[c].get("generic")]
            if not gens:
                return self.gen_type(depth - 1, avail, need_val=need_val)
            return self.class_type(r.choice(gens))
        raise AssertionError(k)

    def gen_hashable(self, depth, avail) -> T:
        for _ in range(20):
            t = self.gen_type(min(depth, 1), [c for c in avail if self.classes[c].get("frozen")], need_val=True)
            if t.immut and t.val is not None and t.src not in ("Any", "TV") and "Literal" not in t.src:
                return t
        return LEAF_BY_SRC["int"]

    def class_type(self, c: str) -> T:
        info = self.classes[c]
        src = c
        generic = ()
        if info.get("generic"):
            if self.r.random() < 0.8:
                arg = self.r.choice(["int", "str", "datetime.date", "List[int]"])
                # two different specialisations in one family only when that known finding is wanted
                prev = info.setdefault("spec", arg)
                if prev != arg and self.kf_wanted != "defs-bare-name-clash":
                    arg = prev
                src = f"{c}[{arg}]"
                generic = ((c, arg),)
            else:
                generic = ((c, ""),)
        ctor = info["ctor"]
        return T(src, (lambda rr, ctor=ctor: ctor) if ctor else None, immut=bool(info.get("frozen")), classes=(c,), feat="dataclass", generic=generic)

    # ---------------- classes
    def gen_class(self, name: str, avail: list[str], later: list[str]):
        r = self.r
        info: dict = {"fields": [], "refs": set(), "selfref": False}
        # effective keys of one class must be pairwise distinct (aliases never equal a field name; inherited aliases count)
        info["aliases"] = set()
        kind = r.choice(["plain", "plain", "dict", "json", "orjson"])
        bases = {"plain": "", "dict": "DataClassDictMixin", "json": "DataClassJSONMixin", "orjson": "DataClassORJSONMixin"}[kind]
        parent = None
        if avail and r.random() < 0.15:
            cands = [c for c in avail if not self.classes[c].get("generic") and not self.classes[c].get("slots")
                     and not self.classes[c].get("frozen") and not self.classes[c].get("kw_only")]
            if cands:
                parent = r.choice(cands)
                info["aliases"] = set(self.classes[parent]["aliases"])
        generic = parent is None and r.random() < 0.12
        frozen = parent is None and not generic and r.random() < 0.3
        slots_true = parent is None and r.random() < 0.1
        kw_only = r.random() < 0.1
        manual_slots = False
        slots_kf = False
        if self.kf_wanted == "slots-descriptor-default" and self.kf is None and parent is None and not generic:
            slots_kf = True
            manual_slots = r.random() < 0.4
            slots_true = not manual_slots
        decor = []
        if frozen:
            decor.append("frozen=True")
        if slots_true:
            decor.append("slots=True")
        if kw_only:
            decor.append("kw_only=True")
        if r.random() < 0.05:
            decor.append("eq=False")
        head_bases = [b for b in [parent, bases if not parent else "", "Generic[TV]" if generic else ""] if b]
        body: list[str] = []
        nf = r.randrange(0, 6)
        fields = []
        parent_has_default = bool(parent and any(f["has_default"] for f in self.classes[parent]["all_fields"]))
        seen_default = parent_has_default
        used_names = set(f["name"] for f in (self.classes[parent]["all_fields"] if parent else []))
        cfg_strategy_keys: list[str] = []
        slot_names = []
        for i in range(nf):
            fname = r.choice(["a", "b", "c", "x", "y", "value", "type", "ref", "items", "default", "schema"]) + (str(i) if r.random() < 0.5 else "")
            if fname in used_names:
                fname = f"f{i}_{len(used_names)}"
            used_names.add(fname)
            special = r.random()
            if special < 0.04:
                body.append(f"    {fname}: ClassVar[int] = 3")
                continue
            if special < 0.08 and not manual_slots:
                body.append(f"    {fname}: InitVar[int]" + (" = 1" if seen_default and not kw_only else ""))
                info["initvar_required"] = info.get("initvar_required") or not (seen_default and not kw_only)
                continue
            t = None
            # known-finding features (at most one per family)
            if self.kf_wanted == "self-type" and self.kf is None and not frozen:
                t = T(r.choice(["Optional[Self]", "List[Self]", "Self"]), _choice(["None"]) if True else None, immut=True, selfref=True)
                if t.src == "List[Self]":
                    t.val = None
                if t.src == "Self":
                    t.val = None
                self.kf = "self-type"
                info["selfref"] = True
            elif self.kf_wanted == "recursive-class" and self.kf is None:
                target = r.choice([name] + later[:1])
                form = r.choice(['Optional["%s"]', 'List["%s"]', 'Dict[str, "%s"]', '"%s"'])
                t = T(form % target, _choice(["None"]) if form.startswith("Optional") else None, immut=True, classes=(target,))
                info["cyc_target"] = target
                self.kf = "recursive-class"
            if t is None:
                use_fwd = later and r.random() < 0.08 and self.kf_wanted != "recursive-class"
                t = self.gen_type(r.choice([0, 1, 1, 2, 2, 3]), avail, top=True)
                if generic and r.random() < 0.5:
                    t = r.choice([LEAF_BY_SRC["TV"], T("List[TV]", lambda rr: "[]", immut=False), T("Optional[TV]", lambda rr: "None")])
            opts = []
            meta_src = None
            # field-level options
            fo = r.random()
            alias = None
            if fo < 0.2:
                alias = r.choice(["al_" + fname, "$ref", "$defs", "it's", "Type", "a b", "\\u00e9", fname.upper()])
                if alias in info.setdefault("aliases", set()):
                    alias = "al_" + fname
                info["aliases"].add(alias)
                opts.append(f'alias="{alias}"' if "'" in alias else f"alias='{alias}'")
            so = r.random()
            if self.future_annotations:
                so = 0.5   # string return annotations: see field-override-container
            if self.kf_wanted == "field-override-container" and self.future_annotations and self.kf is None:
                opts.append(r.choice(["serialize=ser_int", "serialization_strategy=StratA()", "serialize=ser_lst"]))
                self.kf = "field-override-container"
            elif so < 0.05:
                opts.append("serialize=" + r.choice(["ser_str", "ser_int", "str", "bool", "ser_plain", "pass_through"] + (["int", "float"] if t.src in ("int", "float", "bool") else [])))
            elif so < 0.10:
                opts.append("serialization_strategy=" + r.choice(["pass_through", "StratA()", '{"serialize": ser_str}', '{"deserialize": ser_plain}']))
            elif self.kf_wanted == "field-override-container" and self.kf is None:
                # ser_map branches (exponential run until the per-case alarm): kept rare
                opts.append(r.choice(["serialize=ser_lst", "serialize=ser_opt", 'serialization_strategy={"serialize": ser_lst}',
                                      "serialize=ser_lst", "serialize=ser_opt", 'serialization_strategy={"serialize": ser_lst}',
                                      "serialize=ser_map", 'serialization_strategy={"serialize": ser_map}'] if r.random() < 0.5 else
                                     ["serialize=ser_lst", "serialize=ser_opt", 'serialization_strategy={"serialize": ser_lst}']))
                self.kf = "field-override-container"
            elif self.kf_wanted == "field-strategy-unannotated" and self.kf is None and not t.classes and t.src not in ("Any",):
                opts.append("serialization_strategy=" + r.choice(["StratU()", '{"serialize": ser_plain}', '{"serialize": lambda v: v}']))
                self.kf = "field-strategy-unannotated"
            if manual_slots:
                opts = []
                alias = None
            if t.src.startswith(("NT", "CN")) and r.random() < 0.4 and not manual_slots and not any(o.startswith("serialize=") for o in opts):
                opts.append("serialize=" + r.choice(['"as_dict"', '"as_list"']))
            extra_meta = ""
            if r.random() < 0.08 and not manual_slots:
                extra_meta = r.choice(['"description": "d\\u00e9sc \'q\'"', '"description": ""', '"description": "x"'])
            # default
            dk = r.random()
            default_src = None
            has_default = False
            must_default = seen_default and not kw_only
            if manual_slots:
                dk = 1.0  # class attributes conflict with __slots__
                if must_default:
                    continue
            if (dk < 0.6 or must_default):
                if t.val is not None and r.random() < 0.85:
                    v = t.val(r)
                    if t.immut and r.random() < 0.7:
                        default_src = f"default={v}"
                    else:
                        default_src = f"default_factory=lambda: {v}"
                elif r.random() < 0.7 or t.val is None:
                    default_src = "default=None"
                else:
                    default_src = f"default_factory=lambda: {t.val(r)}"
                has_default = True
            if has_default:
                seen_default = True
            init_false = has_default and r.random() < 0.05
            parts = []
            if default_src:
                parts.append(default_src)
            if init_false:
                parts.append("init=False")
            if opts or extra_meta:
                if extra_meta and (not opts or r.random() < 0.5):
                    md = "{" + ", ".join([extra_meta] + [f'"{o.split("=", 1)[0]}": {o.split("=", 1)[1]}' for o in opts]) + "}"
                    parts.append("metadata=" + md)
                else:
                    parts.append("metadata=field_options(" + ", ".join(opts) + ")")
            if manual_slots:
                slot_names.append(fname)
            simple_default = default_src and default_src.startswith("default=") and len(parts) == 1
            if simple_default and r.random() < 0.6:
                body.append(f"    {fname}: {t.src} = {default_src[len('default='):]}")
            elif parts:
                body.append(f"    {fname}: {t.src} = field({', '.join(parts)})")
            else:
                body.append(f"    {fname}: {t.src}")
            f = {"name": fname, "type": t, "has_default": has_default, "alias": alias, "init": not init_false,
                 "explicit_default": bool(default_src and default_src.startswith("default=")),
                 "default_expr": (default_src or "").split("=", 1)[-1].replace("lambda: ", "")}
            fields.append(f)
            for c in t.classes:
                info["refs"].add(c)
            if t.leafty:
                cfg_strategy_keys.append(t.leafty)
            for g in t.generic:
                info.setdefault("generic_uses", set()).add(g)
        if manual_slots:
            body.insert(0, "    __slots__ = (" + "".join(f'"{s}", ' for s in slot_names) + ")")
        # slots + an init field whose dataclass default is MISSING hits a known defect: only when wanted
        slots_hit = (slots_true or manual_slots) and any(f["init"] and not f["explicit_default"] for f in fields)
        if slots_hit and not slots_kf:
            slots_true = False
            decor = [d for d in decor if d != "slots=True"]
            slots_hit = False
        if slots_hit:
            self.kf = "slots-descriptor-default"
        lines = ["@dataclass" + (f"({', '.join(decor)})" if decor else ""),
                 f"class {name}" + (f"({', '.join(head_bases)})" if head_bases else "") + ":"]
        # Config
        info["field_override"] = any(("serialize=" in ln or "serialization_strategy=" in ln or '"serialize":' in ln) for ln in body) \
            or bool(parent and self.classes[parent].get("field_override"))
        self.allow_container_strategy = not info["field_override"]
        cfg = []
        if r.random() < 0.7:
            for opt, p in [("omit_none", 0.3), ("omit_default", 0.3), ("serialize_by_alias", 0.3), ("namedtuple_as_dict", 0.2),
                           ("forbid_extra_keys", 0.1), ("allow_deserialization_not_by_alias", 0.1), ("lazy_compilation", 0.1),
                           ("sort_keys", 0.05)]:
                if r.random() < p:
                    if opt == "lazy_compilation" and kind == "plain":
                        pass
                    cfg.append(f"        {opt} = {r.choice(['True', 'True', 'False'])}")
            own = [f for f in fields if not f["alias"]]
            if own and r.random() < 0.3:
                al = {}
                for f in r.sample(own, r.randrange(1, len(own) + 1)):
                    a = r.choice(["cf_" + f["name"], "$ref", "$schema", f["name"] + "'q"])
                    if a in info.setdefault("aliases", set()) or a in al.values():
                        a = "cf_" + f["name"]
                    al[f["name"]] = a
                    info["aliases"].add(a)
                cfg.append("        aliases = " + repr(al))
            if r.random() < 0.2:
                cgo = r.sample(["ADD_DIALECT_SUPPORT", "TO_DICT_ADD_OMIT_NONE_FLAG", "TO_DICT_ADD_BY_ALIAS_FLAG", "ADD_SERIALIZATION_CONTEXT"], r.randrange(1, 4))
                cfg.append("        code_generation_options = [" + ", ".join(cgo) + "]")
            if self.kf_wanted == "table-override-recursion" and self.kf is None and cfg_strategy_keys and not self.future_annotations:
                # a Config / dialect level strategy whose return annotation leads back to the overridden type: the replacement type
                # is looked up again (was known finding table-override-recursion; fixed by /repo PENDING: positive cases).  The function returns a hashable value built from
                # its argument, so to_dict and the rendering of defaults are not affected.
                k = r.choice(cfg_strategy_keys)
                ret, body_ = r.choice([(f"Optional[{k}]", "v"), (f"Tuple[{k}, ...]", "(v,)"), (f"Optional[{k}]", "v")])
                fn = f"ser_back_{name}"
                self.lines.append(f"def {fn}(v) -> {ret}:\n    return {body_}")
                if r.random() < 0.5:
                    cfg.append("        serialization_strategy = {" + k + ': {"serialize": ' + fn + "}}")
                else:
                    self.n_dialects += 1
                    dn = f"Dl{self.n_dialects}"
                    self.lines.extend([f"class {dn}(Dialect):", "    serialization_strategy = {" + k + ': {"serialize": ' + fn + "}}"])
                    cfg.append(f"        dialect = {dn}")
                self.kf = "table-override-recursion"
                info["table_override_recursion"] = True
            elif r.random() < 0.2 and cfg_strategy_keys:
                k = r.choice(cfg_strategy_keys)
                strat = self.strategy_for(k)
                cfg.append("        serialization_strategy = {" + k + ": " + strat + "}")
            if r.random() < 0.2 and not info.get("table_override_recursion"):
                self.n_dialects += 1
                dn = f"Dl{self.n_dialects}"
                dl = [f"class {dn}(Dialect):"]
                for opt in ("omit_none", "omit_default", "serialize_by_alias", "namedtuple_as_dict", "no_copy_collections"):
                    if r.random() < 0.3:
                        if opt == "no_copy_collections":
                            dl.append(f"    {opt} = (list, dict)")
                        else:
                            dl.append(f"    {opt} = {r.choice(['True', 'False'])}")
                if r.random() < 0.5:
                    k = r.choice(cfg_strategy_keys or ["int"])
                    dl.append("    serialization_strategy = {" + k + ": " + self.strategy_for(k) + "}")
                if len(dl) == 1:
                    dl.append("    pass")
                self.lines.extend(dl)
                cfg.append(f"        dialect = {dn}")
                info["dialect_omit_default"] = any("omit_default = True" in ln for ln in dl)
            if r.random() < 0.2:
                js = {}
                if r.random() < 0.7:
                    js["additionalProperties"] = r.choice([True, False, True])
                if fields and r.random() < 0.6:
                    f = r.choice(fields)
                    js["properties"] = {f["name"]: r.choice([{"type": "string"}, {}, {"type": "integer", "minimum": 0, "default": None},
                                                            {"const": 0}, {"enum": [None, ""]}, {"anyOf": [{"type": "null"}, {"items": {}}]}])}
                cfg.append("        json_schema = " + repr(js))
            if r.random() < 0.05 and not generic:
                cfg.append('        discriminator = Discriminator(field="kind", include_subtypes=True)')
        info["omit_default"] = any("omit_default = True" in ln for ln in cfg) or bool(info.get("dialect_omit_default"))
        if parent and self.classes[parent].get("table_override_recursion"):
            info["table_override_recursion"] = True      # the Config (or its dialect) may be inherited
        if cfg:
            body.append("    class Config(BaseConfig):")
            body.extend(cfg)
        if r.random() < 0.1 and kind != "plain":
            body.append("    def __post_serialize__(self, d, context=None):")
            body.append("        return d")
        if not body:
            body.append("    pass")
        self.lines.extend(lines + body)
        info.update({"frozen": frozen, "generic": generic, "slots": slots_true or manual_slots, "kw_only": kw_only,
                     "manual_slots": manual_slots, "slots_hit": slots_hit, "parent": parent, "kind": kind,
                     "all_fields": (list(self.classes[parent]["all_fields"]) if parent else []) + fields})
        if parent:
            info["refs"] |= self.classes[parent]["refs"]
            info["selfref"] = info["selfref"] or self.classes[parent]["selfref"]
        # constructor expression (None when some required field has no value)
        ctor = None
        req = [f for f in info["all_fields"] if not f["has_default"] and f["init"]]
        if all(f["type"].val is not None for f in req) and not info.get("initvar_required") and not info["selfref"] \
                and not (parent and self.classes[parent]["ctor"] is None):
            try:
                ctor = f"{name}(" + ", ".join(f"{f['name']}={f['type'].val(r)}" for f in req) + ")"
            except Exception:
                ctor = None
        if generic:
            ctor = None
        info["ctor"] = ctor
        self.classes[name] = info
        self.order.append(name)

    def strategy_for(self, key: str) -> str:
        """Config/dialect level strategy for leaf type `key`; the return annotation never mentions
        `key` itself (documented exclusion: such a strategy is re-applied to its own result type)."""
        r = self.r
        opts = ["pass_through", '{"serialize": ser_plain}', '{"serialize": lambda v: v}', "StratU()", '{"deserialize": ser_plain}']
        if key != "str":
            opts += ['{"serialize": ser_str}', "StratA()", '{"serialize": ser_str}']
            if self.allow_container_strategy:
                opts += ['{"serialize": ser_opt}']
        if key != "int":
            opts += ['{"serialize": ser_int}']
        # container-returning strategies (ser_map/ser_lst) are generated only for classes without field-level
        # overrides: a field-level override is re-applied to the element types of the container (known finding
        # field-override-container), which then never terminates
        # ... and never for a type that the generator also uses as a mapping key (a dict/list is not hashable: to_dict itself fails)
        if self.allow_container_strategy and key not in ("int", "float", "bool", "str", "datetime.date", "uuid.UUID"):
            if key not in ("str", "bool"):
                opts += ['{"serialize": ser_map}']
            if key != "str":
                opts += ['{"serialize": ser_lst}']
        return r.choice(opts)

    # ---------------- whole family
    def build(self, n_classes=None):
        r = self.r
        x = r.random()
        self.kf_wanted = None
        if x < 0.05:
            self.kf_wanted = "recursive-class"
        elif x < 0.08:
            self.kf_wanted = "self-type"
        elif x < 0.11:
            self.kf_wanted = "slots-descriptor-default"
        elif x < 0.14:
            self.kf_wanted = "field-strategy-unannotated"
        elif x < 0.17:
            self.kf_wanted = "defs-bare-name-clash"
        elif x < 0.23:
            self.kf_wanted = "nt-mutable-default"
        elif x < 0.26:
            self.kf_wanted = "field-override-container"
        elif x < 0.28:
            self.kf_wanted = "default-over-string-annotated-namedtuple"
        elif x < 0.32:
            self.kf_wanted = "table-override-recursion"
        self.future_annotations = r.random() < float(__import__("os").environ.get("C20_FUT", "0.12"))
        n = n_classes or r.randrange(1, 6)
        names = [f"K{i}" for i in range(n)]
        for i, nm in enumerate(names):
            self.gen_class(nm, names[:i], names[i + 1:])
        if r.random() < 0.14 or self.kf_wanted == "default-over-string-annotated-namedtuple":
            self.gen_xmod_holder(f"K{len(self.order)}")
        if r.random() < 0.2:
            self.gen_thirdparty_holder(f"K{len(self.order)}")
        return self

    def _holder(self, name: str, lines: list[str], fields: list[dict], **flags):
        self.lines.extend(lines)
        info = {"fields": fields, "all_fields": fields, "refs": set(), "selfref": False, "ctor": None, "generic": False, "frozen": False,
                "aliases": set(), "holder": True}
        info.update(flags)
        self.classes[name] = info
        self.order.append(name)

    def gen_xmod_holder(self, name: str):
        """a plain dataclass of THIS module whose fields use NamedTuple / TypedDict / dataclass types of the library module;
        their string annotations name things that exist only there.  No rendered defaults over these types (the serializer
        itself cannot compile such a NamedTuple from another module: default-over-string-annotated-namedtuple)."""
        r = self.r
        forms = ["LNT", "List[LNT]", "Optional[LNT]", "Tuple[LNT, ...]", "Dict[str, LNT]", "Tuple[LNT, int]", "LTD", "List[LTD]", "LD",
                 "Optional[LD]", "Dict[str, LD]", "Union[LNT, int]", "Final[LNT]", "LNTd", "List[LNTd]", "Optional[LNTd]", "NTs", "List[NTs]", "Dict[str, NTs]", "NTs"]
        body, fields = [], []
        n = r.randrange(1, 5)
        kf = self.kf_wanted == "default-over-string-annotated-namedtuple" and self.kf is None
        for i in range(n):
            ty = r.choice(forms)
            if "Final" in ty and i != 0:
                ty = "LNT"
            body.append(f"    x{i}: {ty}")
            fields.append({"name": f"x{i}", "type": T(ty, None), "has_default": False, "alias": None, "init": True,
                           "explicit_default": False, "default_expr": ""})
        for i, ty in enumerate(r.sample(["List[LNT]", "Dict[str, LTD]", "List[LD]"], r.randrange(0, 3))):
            fac = "dict" if ty.startswith("Dict") else "list"
            body.append(f"    y{i}: {ty} = field(default_factory={fac})")
            fields.append({"name": f"y{i}", "type": T(ty, None), "has_default": True, "alias": None, "init": True,
                           "explicit_default": False, "default_expr": ""})
        if kf:
            body.append("    z: " + r.choice(["Tuple[LNT, ...] = ()", "Optional[LNT] = None", "LNTd = lib.LNTd(lib.LE.B, {})", "NTs = NTs()", "Optional[NTs] = None"]))
            self.kf = "default-over-string-annotated-namedtuple"
        cfg = [f"        {o} = True" for o in ("omit_none", "namedtuple_as_dict", "serialize_by_alias", "omit_default") if r.random() < 0.3]
        if cfg:
            body.append("    class Config(BaseConfig):")
            body.extend(cfg)
        self._holder(name, ["@dataclass", f"class {name}:"] + body, fields, nt_fwd_default=kf)

    def gen_thirdparty_holder(self, name: str):
        """a dataclass with fields of the third-party type lib.Pt, serializable only through a strategy that comes from
        Config.serialization_strategy, from Config.dialect, from both, or from the field; defaults of every form."""
        r = self.r
        mode = r.choice(["config", "dialect", "dialect", "both", "field", "field"])
        mixin = r.choice(["", "", "DataClassDictMixin", "DataClassORJSONMixin"])
        body, fields = [], []
        if mode == "field":
            opt = r.choice(["serialization_strategy=lib.PT_STRATEGY", "serialize=lib.pt_ser, deserialize=Pt", "serialization_strategy={'serialize': lib.pt_ser_s, 'deserialize': Pt}"])
            body.append(f"    p0: Pt = field(metadata=field_options({opt}))")
            if r.random() < 0.5:
                body.append(f"    p1: Pt = field(default_factory=Pt, metadata=field_options({opt}))")
            if r.random() < 0.7:
                body.append(f"    p2: Pt = field(default=Pt(1), metadata=field_options({opt}))")
        else:
            forms = [("Pt", "Pt(1)"), ("Optional[Pt]", "None"), ("Optional[Pt]", "Pt(2)"), ("Tuple[Pt, ...]", "(Pt(1), Pt())"), ("Tuple[Pt, int]", "(Pt(3), 1)"),
                     ("List[Pt]", None), ("Dict[str, Pt]", None), ("Pt", None), ("Union[Pt, None, int]", "Pt(4)"), ("Final[Pt]", "Pt(5)")]
            n = r.randrange(1, 5)
            seen_default = False
            for i, (ty, dv) in enumerate(r.sample(forms, n)):
                if dv is None and ty in ("Pt",) and seen_default:
                    dv = "Pt(9)"
                if dv is not None:
                    body.append(f"    p{i}: {ty} = {dv}")
                    seen_default = True
                elif ty == "Pt":
                    body.append(f"    p{i}: {ty}")
                else:
                    body.append(f"    p{i}: {ty} = field(default_factory={'dict' if ty.startswith('Dict') else 'list'})")
                    seen_default = True
        for i in range(len(body)):
            fields.append({"name": f"p{i}", "type": T("Pt", None), "has_default": "=" in body[i].split(":", 1)[1], "alias": None, "init": True,
                           "explicit_default": False, "default_expr": ""})
        pre = []
        cfg = [f"        {o} = True" for o in ("omit_none", "omit_default", "serialize_by_alias") if r.random() < 0.35]
        if mode in ("config", "both"):
            cfg.append("        serialization_strategy = {Pt: lib.PT_STRATEGY}")
        if mode in ("dialect", "both"):
            self.n_dialects += 1
            dn = f"Dl{self.n_dialects}"
            pre = [f"class {dn}(Dialect):"] + [f"    {o} = {r.choice(['True', 'False'])}" for o in ("omit_none", "omit_default", "serialize_by_alias") if r.random() < 0.3]
            strat = "{Pt: lib.PT_STRATEGY}" if mode == "dialect" else "{int: {'serialize': ser_str}}"
            pre.append(f"    serialization_strategy = {strat}")
            cfg.append(f"        dialect = {dn}")
        if r.random() < 0.3:
            cfg.append("        aliases = {'p0': '$ref'}")
        if cfg:
            body.append("    class Config(BaseConfig):")
            body.extend(cfg)
        self._holder(name, pre + ["@dataclass", f"class {name}" + (f"({mixin})" if mixin else "") + ":"] + body, fields)

    def source(self) -> str:
        return ("from __future__ import annotations\n" if self.future_annotations else "") + PRELUDE + "\n".join(self.lines) + "\n"

    # reachability facts used for classification
    def reach(self, t: T) -> set[str]:
        seen: set[str] = set()
        todo = list(t.classes)
        while todo:
            c = todo.pop()
            if c in seen or c not in self.classes:
                continue
            seen.add(c)
            todo.extend(self.classes[c]["refs"])
        return seen

    def cyclic(self, t: T) -> bool:
        reach = self.reach(t)
        color: dict[str, int] = {}

        def dfs(c):
            color[c] = 1
            for d in self.classes[c]["refs"]:
                if d not in self.classes:
                    continue
                if color.get(d) == 1:
                    return True
                if color.get(d, 0) == 0 and dfs(d):
                    return True
            color[c] = 2
            return False
        return any(color.get(c, 0) == 0 and dfs(c) for c in sorted(reach))

    def features(self, t: T) -> dict:
        reach = self.reach(t)
        gens: dict[str, set] = {}
        for c in reach:
            for (g, a) in self.classes[c].get("generic_uses", ()):
                gens.setdefault(g, set()).add(a)
        for (g, a) in t.generic:
            gens.setdefault(g, set()).add(a)
        # a generic class mentioned without arguments (e.g. through a forward reference "K1") is one more specialisation
        for c in reach:
            for f in self.classes[c]["all_fields"]:
                for d in f["type"].classes:
                    if self.classes.get(d, {}).get("generic") and not any(g == d for g, _ in f["type"].generic):
                        gens.setdefault(d, set()).add("")
        return {
            "cyclic": self.cyclic(t),
            "selftype": any(self.classes[c]["selfref"] for c in reach) or t.selfref,
            "slots_hit": any(self.classes[c].get("slots_hit") for c in reach),
            "nt_fwd_default": any(self.classes[c].get("nt_fwd_default") for c in reach),
            "nt_mutable": ("NT3" in t.src) or any("NT3" in f["type"].src for c in reach for f in self.classes[c]["all_fields"]),
            "field_strategy_unannotated": self.kf == "field-strategy-unannotated" and bool(reach),
            "field_override_container": self.kf == "field-override-container" and bool(reach),
            "table_override_recursion": any(self.classes[c].get("table_override_recursion") for c in reach),
            "bare_name_clash": any(len(v) > 1 for v in gens.values()),
            "generic_uses": sorted([g, a] for g, v in gens.items() for a in v),
        }

    def roots(self, k: int) -> list[T]:
        r = self.r
        out = []
        for _ in range(k):
            x = r.random()
            if x < 0.04 and not self.future_annotations:
                src = r.choice(["NTs", "List[NTs]", "Optional[NTs]", "LNTd", "Tuple[LNT, NTs]"])
                out.append(T(src, None, feat="NamedTuple-string-annotations"))
            elif x < 0.65 or not self.order:
                c = r.choice(self.order)
                out.append(self.class_type(c))
            else:
                out.append(self.gen_type(r.choice([1, 2, 2, 3]), self.order))
        return out


PREFIXES = [None, None, None, "#/$defs", "#/defs/", "#/x//", "", "/", "#/components/schemas/", "http://e.x/s#/d", "#", "#/a/b/c///", "x y"]


CTX_PREFIXES = [None, None, "#/q", "#/q/", "#/components/responses", "", "x//", "#/$defs"]


def gen_context(r: random.Random):
    """a Context the caller passes to build_json_schema: each field set or left unset"""
    if r.random() < 0.55:
        return None
    return {"dialect": r.choice([None, "DRAFT_2020_12", "OPEN_API_3_1"]), "all_refs": r.choice([None, True, False, True]),
            "ref_prefix": r.choice(CTX_PREFIXES)}


def gen_params(r: random.Random) -> dict:
    return {
        "dialect": r.choice([None, None, "DRAFT_2020_12", "OPEN_API_3_1"]),
        "all_refs": r.choice([None, None, True, False]),
        "ref_prefix": r.choice(PREFIXES),
        "with_definitions": r.choice([True, True, False]),
        "with_dialect_uri": r.choice([False, False, True]),
        "context": gen_context(r),
    }


def gen_case(r: random.Random) -> dict:
    fam = Fam(r).build()
    mode = r.choice(["single", "single", "builder", "shared"])
    roots = fam.roots(1 if mode == "single" else r.randrange(2, 5))
    feats = [fam.features(t) for t in roots]
    params = gen_params(r)
    if mode == "builder":
        params["context"] = None
    if mode == "shared":
        # per-call keyword arguments; the prefix argument is absent or one fixed spelling, the dialect argument varies freely
        fixed_prefix = r.choice([None, None, params["ref_prefix"]])
        steps = []
        for _ in roots:
            sp = gen_params(r)
            sp.pop("context")
            sp["ref_prefix"] = fixed_prefix if r.random() < 0.8 else None
            steps.append(sp)
        params = {"context": gen_context(r) or {"dialect": None, "all_refs": r.choice([None, True]), "ref_prefix": r.choice(CTX_PREFIXES)},
                  "steps": steps, "dialect": None, "all_refs": None, "ref_prefix": None, "with_definitions": True, "with_dialect_uri": False}
    return {"source": fam.source(), "roots": [t.src for t in roots], "mode": mode, "params": params,
            "lib": LIB_SRC,
            "feats": feats, "kf_feature": fam.kf, "future_annotations": fam.future_annotations, "hist": fam.hist, "nclasses": len(fam.order),
            "root_feats": [t.feat for t in roots]}
