"""C20 - schema generation is total, well formed and closed.

1. theorems  : coq/props/C20_schema.vo (model SchemaGen.v / SchemaGenProofs.v, kernel K9)
2. tie       : (T) K9 = context handling of build_json_schema / JSONSchemaBuilder.__init__ translated from
               /repo on every run and validated against the Python original by sampling;
               (M) model schema_of / norm vs build_json_schema(...).to_dict() / JSONSchema.from_dict(d).to_dict()
               on generated class tables (vm_compute inside Coq)
3. oracle    : c20_oracle.run_case on generated families over the whole grammar (always runs)
"""
from __future__ import annotations

import json
import os
import time

from harness import vlib
from harness.props import c20_gen, c20_oracle

KF_KINDS = ("recursive-class", "self-type", "nt-mutable-default", "defs-bare-name-clash", "generic-typevar-leak")


def _replay_of(case: dict, res: dict) -> dict:
    return {"entry": "c20_oracle.run_case", "source": case["source"], "lib": case.get("lib"), "roots": case["roots"], "mode": case["mode"],
            "params": case["params"], "feats": case["feats"],
            "observed": {k: v for k, v in res.items() if k != "ok"},
            "expected": "no exception; metaschema-valid; refs closed over context.definitions; from_dict/to_dict round trip"}


def oracle_part(ctx: vlib.Ctx, n: int, label="oracle"):
    r = ctx.rng
    t0 = time.time()
    stats = {"ok": 0, "genfail": 0, "fail": 0, "refs": 0, "defs": 0, "docs": 0}
    deadline = t0 + (50 if ctx.quick() else 480)
    done = 0
    for i in range(n):
        if time.time() > deadline:
            ctx.notes.append(f"{label}: stopped after {i} of {n} cases (time budget)")
            break
        case = c20_gen.gen_case(r)
        res = c20_oracle.run_case(case)
        done += 1
        key = (tuple(case["roots"]), case["mode"], json.dumps(case["params"], sort_keys=True), hash(case["source"]))
        if res["ok"] is None:
            stats["genfail"] += 1
            ctx.hist("outcome", "excluded:class-creation-or-root-fails")
            continue
        ctx.count(key)
        ctx.hist("mode", case["mode"])
        ctx.hist("dialect", str(case["params"]["dialect"]))
        ctx.hist("all_refs", str(case["params"]["all_refs"]))
        ctx.hist("ref_prefix", repr(case["params"]["ref_prefix"]))
        cx = case["params"].get("context")
        ctx.hist("passed_context", "none" if not cx else "+".join(k for k in ("dialect", "all_refs", "ref_prefix") if cx.get(k) is not None) or "all-unset")
        if case["mode"] == "shared":
            ctx.hist("shared_dialect_kw", str(sorted({str(sp["dialect"]) for sp in case["params"]["steps"]})))
        ctx.hist("kf_feature", str(case["kf_feature"]))
        ctx.hist("pep563", str(case["future_annotations"]))
        for rf in case["root_feats"]:
            ctx.hist("root", rf if rf in ("dataclass",) else "non-dataclass")
        for k, v in case["hist"].items():
            ctx.hist("type_ctor", k, v)
        if res["ok"]:
            stats["ok"] += 1
            for k in ("refs", "defs", "docs"):
                stats[k] += res.get(k, 0)
            ctx.hist("outcome", "ok")
            if stats["ok"] <= 2:
                ctx.sample({"roots": case["roots"], "mode": case["mode"], "params": case["params"],
                            "classes": case["source"].split("        return v\n")[-1][:700]})
        else:
            stats["fail"] += 1
            sig = c20_oracle.classify(case, res)
            ctx.hist("outcome", "fail:" + sig["kind"])
            what = f"{res['what']} [{sig['kind']}] roots={case['roots']} mode={case['mode']}"
            ctx.fail(what, _replay_of(case, res), sig)
    ctx.notes.append(f"{label}: {done} cases in {time.time() - t0:.1f}s: {stats}")
    return stats


# fixed corner cases of the const/default sentinels (falsy values must survive) and of the round trip
DIRECTED_SRC = (
    "from dataclasses import dataclass, field\nfrom typing import *\n"
    "@dataclass\nclass Fz:\n    a: int = 0\n    b: str = ''\n    c: bool = False\n    d: Optional[int] = None\n"
    "    e: Literal[0] = 0\n    f: Literal[''] = ''\n    g: Literal[False] = False\n    h: Literal[None] = None\n"
    "    i: Any = 0\n    j: float = 0.0\n    k: Tuple[()] = ()\n"
    # (/repo fcaa28c) strategies registered under the origin class apply to every List[..] / Dict[..] position, and only to those
    "    l: List[int] = field(default_factory=list)\n    m: Dict[str, int] = field(default_factory=dict)\n"
    "    n: Optional[List[str]] = None\n    o: Tuple[int, ...] = ()\n"
    "    class Config:\n        serialization_strategy = {list: {'serialize': _c20_ser_str}, dict: {'serialize': _c20_ser_any}}\n"
).replace("@dataclass\nclass Fz", "def _c20_ser_str(v) -> str:\n    return str(v)\ndef _c20_ser_any(v) -> Any:\n    return v\n@dataclass\nclass Fz")
DIRECTED_EXPECT = {
    "a": {"type": "integer", "default": 0}, "b": {"type": "string", "default": ""}, "c": {"type": "boolean", "default": False},
    "d": {"anyOf": [{"type": "integer"}, {"type": "null"}], "default": None},
    "e": {"const": 0, "default": 0}, "f": {"const": "", "default": ""}, "g": {"const": False, "default": False},
    "h": {"const": None, "default": None}, "i": {"default": 0}, "j": {"type": "number", "default": 0.0},
    "k": {"type": "array", "default": [], "maxItems": 0},
    "l": {"type": "string"}, "m": {}, "n": {"anyOf": [{"type": "string"}, {"type": "null"}], "default": None},
    "o": {"type": "array", "default": [], "items": {"type": "integer"}}}
DIRECTED_DOCS = [{"const": 0}, {"const": ""}, {"const": False}, {"const": None}, {"const": None, "default": 0},
                 {"default": ""}, {"default": False}, {"default": None}, {"enum": [0, "", False, None], "default": []},
                 {"type": "object", "properties": {"$ref": {"const": 0}}, "additionalProperties": False},
                 {"$ref": "#/$defs/A", "$defs": {"A": {"default": {}}}}]


# degenerate shapes of every schema creator (no fields / no members / no items), under every wrapper, through the full oracle
DEGENERATE_SRC = (
    "import collections, enum\nfrom dataclasses import dataclass, field, InitVar\nfrom typing import *\n"
    "from typing_extensions import TypedDict\nfrom mashumaro.config import BaseConfig\nfrom mashumaro import field_options\n"
    "class NT0(NamedTuple):\n    pass\n"
    "class NTS(NamedTuple):\n    a: 'Dict[str, int]' = None\n    b: 'Optional[E0]' = None\n    c: 'Tuple[()]' = ()\n    d: 'NT0' = NT0()\n"
    "CN0 = collections.namedtuple('CN0', [])\n"
    "class TD0(TypedDict):\n    pass\n"
    "class TD0n(TypedDict, total=False):\n    pass\n"
    "class E0(enum.Enum):\n    pass\n"
    "class F0(enum.Flag):\n    pass\n"
    "@dataclass\nclass DC0:\n    pass\n"
    "@dataclass\nclass DCV:\n    c: ClassVar[int] = 1\n    i: InitVar[int] = 0\n    h: int = field(default=0, init=False)\n"
    "TV0 = TypeVar('TV0')\n"
    "@dataclass\nclass G0(Generic[TV0]):\n    pass\n"
    "@dataclass\nclass HL:\n    a: NT0\n    b: CN0 = CN0()\n    c: List[NT0] = field(default_factory=list)\n"
    "    d: NT0 = field(default=NT0(), metadata=field_options(serialize='as_dict'))\n    e: TD0 = field(default_factory=dict)\n    f: DC0 = None\n"
    "@dataclass\nclass HD:\n    a: NT0\n    b: CN0 = CN0()\n    c: Optional[Tuple[NT0, CN0]] = None\n"
    "    d: NT0 = field(default=NT0(), metadata=field_options(serialize='as_list'))\n"
    "    class Config(BaseConfig):\n        namedtuple_as_dict = True\n"
    "WN = NewType('WN', NT0)\n"
    "@dataclass\nclass HF:\n    a: Final[NT0]\n    b: Final[int] = 1\n    c: Final[List[DC0]] = field(default_factory=list)\n"
    "    d: Final[Optional[WN]] = None\n    e: Final[Any] = None\n")
DEGENERATE_BASES = ["NTS", "NT0", "CN0", "TD0", "TD0n", "E0", "F0", "DC0", "DCV", "G0", "G0[int]", "HL", "HD", "HF", "WN", "Tuple[()]", "tuple", "list", "dict",
                    "List", "Dict", "Sequence[Any]", "Literal[None]", "Any", "Tuple[Any, ...]", "collections.Counter", "frozenset", "Set"]
DEGENERATE_WRAPS = ["{}", "List[{}]", "Optional[{}]", "Tuple[{}, int]", "Tuple[{}, ...]", "Dict[str, {}]", "Union[{}, int]"]


def degenerate_part(ctx: vlib.Ctx):
    for base in DEGENERATE_BASES:
        for w in DEGENERATE_WRAPS:
            if w != "{}" and base in ("Any",):
                continue
            expr = w.format(base)
            for params in ({"dialect": None, "all_refs": None, "ref_prefix": None, "with_definitions": True, "with_dialect_uri": False, "context": None},
                           {"dialect": "OPEN_API_3_1", "all_refs": None, "ref_prefix": "#/x/", "with_definitions": True, "with_dialect_uri": True, "context": None}):
                case = {"source": DEGENERATE_SRC, "roots": [expr], "mode": "single", "params": params, "feats": [{}]}
                res = c20_oracle.run_case(case)
                if res["ok"] is None:
                    ctx.hist("degenerate", "excluded:" + res["what"][:60])
                    continue
                ctx.count(("degenerate", expr, params["dialect"]))
                ctx.hist("degenerate", "ok" if res["ok"] else "fail")
                if not res["ok"]:
                    sig = {"clause": res.get("clause"), "exc": res.get("exc"), "kind": "other", "degenerate": expr}
                    ctx.fail(f"{res['what']} [degenerate shape] root={expr}", _replay_of(case, res), sig)


# every kind of default value x every key-dropping / renaming configuration of the owner (the default is rendered through a
# throw-away class that inherits the owner's Config), on plain dataclasses, each through the full oracle
DEFAULTS_HEAD = (
    "import collections, datetime, decimal, enum, uuid, ipaddress, pathlib\nfrom dataclasses import dataclass, field\nfrom typing import *\n"
    "from mashumaro.config import BaseConfig, ADD_DIALECT_SUPPORT, TO_DICT_ADD_OMIT_NONE_FLAG, TO_DICT_ADD_BY_ALIAS_FLAG\n"
    "from mashumaro.dialect import Dialect\nfrom mashumaro import field_options, pass_through\n"
    "class E(enum.Enum):\n    A = 'a'\n    B = 2\nclass IF(enum.IntFlag):\n    R = 1\n    W = 2\n"
    "class NT(NamedTuple):\n    a: int\n    b: str = 'x'\n"
    "@dataclass(frozen=True)\nclass Fz:\n    a: int = 0\n    e: E = E.A\n"
    "class DlAll(Dialect):\n    omit_none = True\n    omit_default = True\n    serialize_by_alias = True\n")
DEFAULT_KINDS = [
    ("Tuple[E, ...]", "(E.A,)"), ("Tuple[E, int]", "(E.B, 1)"), ("Tuple[Tuple[E], str]", "((E.A,), 's')"),
    ("Tuple[datetime.date, ...]", "(datetime.date(2020, 1, 2),)"), ("Tuple[Fz, ...]", "(Fz(), Fz(1))"),
    ("Tuple[float, ...]", "(float('nan'), float('inf'), -0.0)"), ("Tuple[()]", "()"), ("Tuple[int, str]", "(1, \"it's\")"),
    ("Tuple[bytes, ...]", "(b'x',)"), ("Tuple[Optional[decimal.Decimal], ...]", "(None, decimal.Decimal('1.5'))"),
    ("Tuple[IF, ...]", "(IF.R | IF.W,)"), ("Tuple[NT, ...]", "(NT(1),)"), ("Tuple[uuid.UUID, pathlib.PurePosixPath]", "(uuid.UUID(int=0), pathlib.PurePosixPath('/a'))"),
    ("NT", "NT(1)"), ("E", "E.A"), ("IF", "IF.R | IF.W"), ("float", "float('nan')"), ("float", "float('-inf')"),
    ("FrozenSet[E]", "frozenset([E.A])"), ("Fz", "Fz()"), ("int", "0"), ("Optional[int]", "None"), ("str", "\"it's\""), ("bytes", "b''"),
    ("datetime.date", "datetime.date(2020, 1, 2)"), ("uuid.UUID", "uuid.UUID(int=0)"), ("decimal.Decimal", "decimal.Decimal('-0')"),
    ("Final[Tuple[E, ...]]", "(E.A,)"), ("Final[int]", "1"), ("Final[Optional[NT]]", "None"), ("Any", "(E.A, 1)"),
]
DEFAULT_CONFIGS = [
    [], ["omit_default = True"], ["omit_none = True"], ["serialize_by_alias = True", "aliases = {'x': 'x x'}"],
    ["dialect = DlAll", "aliases = {'x': '$ref'}"],
    ["omit_default = True", "code_generation_options = [ADD_DIALECT_SUPPORT, TO_DICT_ADD_OMIT_NONE_FLAG, TO_DICT_ADD_BY_ALIAS_FLAG]"],
    ["omit_default = True", "omit_none = True", "serialize_by_alias = True", "lazy_compilation = True"],
]


def defaults_part(ctx: vlib.Ctx):
    params = {"dialect": None, "all_refs": None, "ref_prefix": None, "with_definitions": True, "with_dialect_uri": False, "context": None}
    for ci, cfg in enumerate(DEFAULT_CONFIGS):
        lines = [DEFAULTS_HEAD]
        for ki, (ty, dv) in enumerate(DEFAULT_KINDS):
            lines.append(f"@dataclass\nclass D{ki}:\n    x: {ty} = {dv}\n    y: int = 0")
            if cfg:
                lines.append("    class Config(BaseConfig):\n" + "\n".join("        " + ln for ln in cfg))
        src = "\n".join(lines) + "\n"
        for ki, (ty, dv) in enumerate(DEFAULT_KINDS):
            case = {"source": src, "roots": [f"D{ki}"], "mode": "single", "feats": [{}],
                    "params": dict(params, all_refs=(ki + ci) % 2 == 1)}
            res = c20_oracle.run_case(case)
            if res["ok"] is None:
                ctx.hist("defaults_grid", "excluded:" + res["what"][:60])
                continue
            ctx.count(("defaults", ci, ki))
            ctx.hist("defaults_grid", "ok" if res["ok"] else "fail")
            if not res["ok"]:
                sig = {"clause": res.get("clause"), "exc": res.get("exc"), "kind": "other", "default": dv, "config": "; ".join(cfg)}
                ctx.fail(f"{res['what']} [default {dv} of type {ty} under Config({'; '.join(cfg)})]", _replay_of(case, res), sig)


# types that live in ANOTHER module: string annotations resolvable only there (NamedTuple / TypedDict / dataclass), and a third-party
# type that is serializable only through a strategy (from Config, from Config.dialect, from both), with defaults of every form
LIB_HEAD = ("import __C20_LIB__ as lib\nfrom __C20_LIB__ import LNT, LNTd, LTD, LD, Pt\nfrom dataclasses import dataclass, field\nfrom typing import *\n"
            "from mashumaro.config import BaseConfig, ADD_DIALECT_SUPPORT\nfrom mashumaro.dialect import Dialect\nfrom mashumaro import DataClassDictMixin, field_options\n"
            "def ser_str(v) -> str:\n    return str(v)\n"
            "class DP(Dialect):\n    serialization_strategy = {Pt: lib.PT_STRATEGY}\n"
            "class DPo(Dialect):\n    omit_none = True\n    omit_default = True\n    serialize_by_alias = True\n    serialization_strategy = {Pt: lib.PT_STRATEGY}\n"
            "class DI(Dialect):\n    serialization_strategy = {int: {'serialize': ser_str}}\n")
XMOD_FORMS = ["LNTd", "List[LNTd]", "Optional[LNTd]", "LNT", "List[LNT]", "Optional[LNT]", "Tuple[LNT, ...]", "Dict[str, LNT]", "Tuple[LNT, int]", "Union[LNT, int]", "Final[LNT]",
              "LTD", "List[LTD]", "LD", "Optional[LD]", "Dict[str, List[LD]]"]
TP_FORMS = [("Pt", "Pt(1)"), ("Optional[Pt]", "None"), ("Optional[Pt]", "Pt(2)"), ("Tuple[Pt, ...]", "(Pt(1), Pt())"), ("Tuple[Pt, int]", "(Pt(3), 1)"),
            ("List[Pt]", "field(default_factory=list)"), ("Dict[str, Pt]", "field(default_factory=dict)"), ("Union[Pt, None, int]", "Pt(4)"),
            ("Final[Pt]", "Pt(5)"), ("Pt", None)]
# field-level options on the third-party type (and on a supported one), with explicit defaults: the default is rendered through them
TP_FIELD_FORMS = [
    ("Pt", "field(default=Pt(1), metadata=field_options(serialization_strategy=lib.PT_STRATEGY))"),
    ("Pt", "field(default=Pt(2), metadata=field_options(serialize=lib.pt_ser, deserialize=Pt))"),
    ("Pt", "field(default=Pt(3), metadata={'serialization_strategy': {'serialize': lib.pt_ser_s, 'deserialize': Pt}})"),
    ("int", "field(default=5, metadata={'serialize': ser_str})"),
    ("int", "field(default=0, metadata={'serialize': str})"),
    ("Optional[int]", "field(default=None, metadata={'serialization_strategy': {'serialize': ser_str}})"),
    ("Pt", "field(metadata=field_options(serialization_strategy=lib.PT_STRATEGY))"),
]
TP_CONFIGS = [["serialization_strategy = {Pt: lib.PT_STRATEGY}"], ["dialect = DP"], ["dialect = DPo", "aliases = {'x': 'x x'}"],
              ["dialect = DI", "serialization_strategy = {Pt: lib.PT_STRATEGY}"], ["dialect = DP", "omit_default = True", "omit_none = True"],
              ["dialect = DP", "code_generation_options = [ADD_DIALECT_SUPPORT]", "lazy_compilation = True"]]


def library_part(ctx: vlib.Ctx):
    from harness.props.c20_gen import LIB_SRC
    base = {"dialect": None, "all_refs": None, "ref_prefix": None, "with_definitions": True, "with_dialect_uri": False, "context": None}
    cases = []
    for i, form in enumerate(XMOD_FORMS):
        for j, cfg in enumerate(([], ["namedtuple_as_dict = True", "omit_none = True"])):
            src = LIB_HEAD + f"@dataclass\nclass X:\n    x: {form}\n    y: int = 0\n" + ("    class Config(BaseConfig):\n" + "".join(f"        {c}\n" for c in cfg) if cfg else "")
            cases.append((f"xmod {form} Config({'; '.join(cfg)})", src, (i + j) % 2 == 1))
    for i, (ty, dv) in enumerate(TP_FORMS):
        for j, cfg in enumerate(TP_CONFIGS):
            base_cls = "(DataClassDictMixin)" if (i + j) % 3 == 0 else ""
            src = LIB_HEAD + f"@dataclass\nclass X{base_cls}:\n    x: {ty}" + (f" = {dv}" if dv else "") + "\n    class Config(BaseConfig):\n" + "".join(f"        {c}\n" for c in cfg)
            cases.append((f"third-party {ty} = {dv} Config({'; '.join(cfg)})", src, (i + j) % 2 == 0))
    for i, (ty, dv) in enumerate(TP_FIELD_FORMS):
        for j, cfg in enumerate(([], ["omit_default = True", "omit_none = True"], ["serialize_by_alias = True", "aliases = {'x': 'y'}"])):
            src = LIB_HEAD + f"@dataclass\nclass X:\n    x: {ty} = {dv}\n" + ("    class Config(BaseConfig):\n" + "".join(f"        {c}\n" for c in cfg) if cfg else "")
            cases.append((f"field-level option {ty} = {dv} Config({'; '.join(cfg)})", src, (i + j) % 2 == 0))
    for label, src, ar in cases:
        case = {"source": src, "lib": LIB_SRC, "roots": ["X"], "mode": "single", "feats": [{}], "params": dict(base, all_refs=ar)}
        res = c20_oracle.run_case(case)
        if res["ok"] is None:
            ctx.hist("library_grid", "excluded:" + res["what"][:70])
            continue
        ctx.count(("library", label))
        ctx.hist("library_grid", "ok" if res["ok"] else "fail")
        if not res["ok"]:
            ctx.fail(f"{res['what']} [{label}]", _replay_of(case, res), {"clause": res.get("clause"), "exc": res.get("exc"), "kind": "other", "grid": label})


def directed_part(ctx: vlib.Ctx):
    from mashumaro.jsonschema import build_json_schema
    from mashumaro.jsonschema.models import JSONSchema
    case = {"source": DIRECTED_SRC, "roots": ["Fz"], "mode": "single", "feats": [{}],
            "params": {"dialect": None, "all_refs": None, "ref_prefix": None, "with_definitions": True, "with_dialect_uri": False}}
    mod = c20_oracle.load_module(DIRECTED_SRC)
    try:
        try:
            props = build_json_schema(mod.Fz).to_dict().get("properties", {})
        except Exception as e:
            props = {"<exception>": f"{type(e).__name__}: {e}"}
        for k, exp in DIRECTED_EXPECT.items():
            ctx.count(("directed", k))
            if not c20_oracle.deep_eq(props.get(k), exp) or (props.get(k) is not None and list(props[k]) != list(exp)):
                res = {"ok": False, "clause": "sentinel", "what": f"falsy const/default lost or changed for field {k}", "step": 0, "exc": None,
                       "detail": {"got": repr(props.get(k)), "expected": repr(exp)}}
                ctx.fail(f"field {k} of the sentinel class: schema {props.get(k)!r}, expected {exp!r}",
                         {**_replay_of(case, res), "entry": "c20.directed", "field": k, "expected_schema": exp}, {"clause": "sentinel", "kind": "other", "exc": None})
        for doc in DIRECTED_DOCS:
            ctx.count(("directed-doc", json.dumps(doc, sort_keys=True)))
            try:
                back = JSONSchema.from_dict(doc).to_dict()
            except Exception as e:
                back = f"{type(e).__name__}: {e}"
            if not c20_oracle.deep_eq(back, doc):
                ctx.fail(f"JSONSchema.from_dict(d).to_dict() != d for d={doc!r}: {back!r}",
                         {"entry": "c20.directed-doc", "doc": doc, "observed": repr(back), "expected": repr(doc)},
                         {"clause": "roundtrip", "kind": "other", "exc": None})
    finally:
        c20_oracle.unload(mod)


def run(ctx: vlib.Ctx):
    ctx.coverage["rule"] = (
        "oracle: random families of 1-5 dataclasses (fields over the schema-supported grammar: scalars, stdlib leaves, enums, "
        "NamedTuple/TypedDict, containers, unions, literals, Annotated constraints, generics, inheritance, InitVar/ClassVar, "
        "aliases, defaults of every kind incl. None/enum/dataclass instances/factories) x Config (omit_none, omit_default, "
        "serialize_by_alias, aliases, dialect, serialization_strategy, json_schema, code_generation_options, lazy) x "
        "(dialect, all_refs, ref_prefix incl. trailing slashes, with_definitions, with_dialect_uri) x (single build | 2-4 builds "
        "on one JSONSchemaBuilder); distinct = distinct (family source, roots, parameters); a case is non-trivial when its "
        "module loads; correspondence: generated acyclic/cyclic class tables of the model grammar x all_refs x prefix x build sequences")
    from harness.props import c20_coq
    c20_coq.coq_part(ctx)
    n = ctx.budget(1500, 12000)
    if ctx.unshown:
        n = ctx.budget(2500, 16000)
    directed_part(ctx)
    degenerate_part(ctx)
    defaults_part(ctx)
    library_part(ctx)
    oracle_part(ctx, n)
    ctx.trusted.append("jsonschema package (Draft202012Validator.check_schema incl. format checks) as the metaschema validator of the oracle")
    ctx.trusted.append("harness/props/c20_gen.py: the feature predicates (cyclic, Self, NamedTuple mutable default, string-annotated NamedTuple "
                       "under a default, generic specialisations) that attribute a failure to a known finding")
    ctx.assumptions.append("excluded from the quantification (stated, narrow): families whose class creation itself fails; Annotated "
                           "constraint values that are themselves invalid (negative MinItems, malformed Pattern); defaults that are not "
                           "values of the field type; NamedTuple/TypedDict classes defined in a PEP 563 module; user json_schema overrides containing $ref")


def replay(rep: dict) -> int:
    if rep.get("entry") == "c20_oracle.run_case":
        case = {"source": rep["source"], "lib": rep.get("lib"), "roots": rep["roots"], "mode": rep["mode"], "params": rep["params"],
                "feats": rep.get("feats", [{}])}
        res = c20_oracle.run_case(case)
        print("roots", rep["roots"], "mode", rep["mode"], "params", rep["params"])
        print("observed now:", {k: v for k, v in res.items()})
        if res["ok"] is False:
            print("REPRODUCED")
            return 1
        print("not reproduced")
        return 0
    if rep.get("entry") == "c20.directed":
        from mashumaro.jsonschema import build_json_schema
        mod = c20_oracle.load_module(rep["source"])
        got = build_json_schema(mod.Fz).to_dict().get("properties", {}).get(rep["field"])
        print("field", rep["field"], "schema now", got, "expected", rep["expected_schema"])
        if not c20_oracle.deep_eq(got, rep["expected_schema"]):
            print("REPRODUCED")
            return 1
        print("not reproduced")
        return 0
    if rep.get("entry") == "c20.directed-doc":
        from mashumaro.jsonschema.models import JSONSchema
        try:
            back = JSONSchema.from_dict(rep["doc"]).to_dict()
        except Exception as e:
            back = f"{type(e).__name__}: {e}"
        print("doc", rep["doc"], "->", back)
        if not c20_oracle.deep_eq(back, rep["doc"]):
            print("REPRODUCED")
            return 1
        print("not reproduced")
        return 0
    if rep.get("kind") == "no-failing-input-found":
        print("no failing input was recorded; broken obligations:", json.dumps(rep.get("not_shown"), indent=1)[:2000])
        return 0
    print("unknown replay kind")
    return 2
