"""C13 helper: the same default_dialect means the same logical document in every codec."""
from __future__ import annotations

import base64
import datetime
import itertools
import json
import sys
import types

from harness import vlib
from harness.props.c13_fam import canon

CODEC_SRC = r'''
from dataclasses import dataclass, field
from typing import Optional, List, Dict, NamedTuple
import datetime
from mashumaro import DataClassDictMixin
from mashumaro.config import BaseConfig, TO_DICT_ADD_OMIT_NONE_FLAG, TO_DICT_ADD_BY_ALIAS_FLAG
from mashumaro.dialect import Dialect


NOCOPY = {"empty": (), "list": (list,), "listdict": (list, dict)}


def make_dialect(opts):
    ns = {}
    for o in ("omit_none", "omit_default", "serialize_by_alias", "namedtuple_as_dict"):
        if opts.get(o) is not None:
            ns[o] = opts[o]
    if opts.get("no_copy_collections") is not None:
        ns["no_copy_collections"] = NOCOPY[opts["no_copy_collections"]]
    if opts.get("strategy"):
        ns["serialization_strategy"] = {
            datetime.datetime: {"serialize": (lambda d: d.strftime("%Y%m%d%H%M%S")),
                                "deserialize": (lambda s: datetime.datetime.strptime(s, "%Y%m%d%H%M%S"))},
            str: {"serialize": str.swapcase, "deserialize": str.swapcase},
        }
    return type("D", (Dialect,), ns)


# CFG_MODE "dialect": the twin whose classes have Config.dialect = make_dialect(CFG_OPTS)
# CFG_MODE "options": the twin whose classes set the same options directly on Config
CFG_DIALECT = make_dialect(CFG_OPTS) if (CFG_OPTS is not None and CFG_MODE == "dialect") else None


class Cfg(BaseConfig):
    dialect = CFG_DIALECT


if CFG_OPTS is not None and CFG_MODE == "options":
    for _o in ("omit_none", "omit_default", "serialize_by_alias", "namedtuple_as_dict"):
        if CFG_OPTS.get(_o) is not None:
            setattr(Cfg, _o, CFG_OPTS[_o])
    if CFG_OPTS.get("strategy"):
        Cfg.serialization_strategy = dict(make_dialect(CFG_OPTS).serialization_strategy)


class FlagCfg(Cfg):
    code_generation_options = [TO_DICT_ADD_OMIT_NONE_FLAG, TO_DICT_ADD_BY_ALIAS_FLAG]


class NT(NamedTuple):
    x: int
    y: int = 2


@dataclass
class Plain:
    a: Optional[int] = None
    b: int = field(default=1, metadata={"alias": "bb"})
    nt: NT = NT(1, 2)
    l: List[int] = field(default_factory=list)
    dt: datetime.datetime = datetime.datetime(2020, 1, 2, 3, 4, 5)
    by: bytes = b"xy"
    s: str = "q"
    m: Dict[str, int] = field(default_factory=dict)
    Config = Cfg


@dataclass
class Sub:
    n: Optional[str] = None
    k: int = field(default=3, metadata={"alias": "kk"})
    d: datetime.date = datetime.date(2021, 5, 6)
    Config = Cfg


@dataclass
class Nested:
    sub: Sub = field(default_factory=Sub)
    subs: List[Sub] = field(default_factory=list)
    p: NT = NT(5, 6)
    o: Optional[int] = None
    Config = Cfg


@dataclass
class Flagged:
    """keyword flags: the keywords' defaults must be the resolved options"""
    a: Optional[int] = None
    b: int = field(default=1, metadata={"alias": "bb"})
    n: Optional[str] = None
    sub: Sub = field(default_factory=Sub)
    Config = FlagCfg


@dataclass
class FlaggedMixin(DataClassDictMixin):
    a: Optional[int] = None
    b: int = field(default=1, metadata={"alias": "bb"})
    Config = FlagCfg


@dataclass
class Mixin(DataClassDictMixin):
    a: Optional[int] = None
    b: int = field(default=1, metadata={"alias": "bb"})
    nt: NT = NT(1, 2)
    t: datetime.time = datetime.time(7, 8, 9)

    class Config(BaseConfig):
        serialize_by_alias = True
        dialect = CFG_DIALECT


'''

FORMATS = ["basic", "json", "orjson", "yaml", "msgpack", "toml"]
FMT_NOCOPY = {"basic": (), "json": (), "yaml": (), "orjson": ("list", "dict"), "msgpack": ("list", "dict"), "toml": ("list", "dict")}


def codecs():
    import msgpack
    import orjson
    import tomllib
    import yaml
    from mashumaro.codecs import BasicDecoder, BasicEncoder
    from mashumaro.codecs.json import JSONDecoder, JSONEncoder
    from mashumaro.codecs.msgpack import MessagePackDecoder, MessagePackEncoder
    from mashumaro.codecs.orjson import ORJSONDecoder, ORJSONEncoder
    from mashumaro.codecs.toml import TOMLDecoder, TOMLEncoder
    from mashumaro.codecs.yaml import YAMLDecoder, YAMLEncoder
    return {
        "basic": (BasicEncoder, BasicDecoder, lambda x: x),
        "json": (JSONEncoder, JSONDecoder, json.loads),
        "orjson": (ORJSONEncoder, ORJSONDecoder, orjson.loads),
        "yaml": (YAMLEncoder, YAMLDecoder, yaml.safe_load),
        "msgpack": (MessagePackEncoder, MessagePackDecoder, lambda b: msgpack.unpackb(b, raw=False)),
        "toml": (TOMLEncoder, TOMLDecoder, tomllib.loads),
    }


_n = itertools.count()


def new_module(cfg_opts=None, mode="dialect"):
    """cfg_opts None: the classes as written.  Otherwise a twin: every class has Config.dialect = make_dialect(cfg_opts)
    (mode "dialect") or sets the same options directly on its Config (mode "options")."""
    mod = types.ModuleType(f"c13_codec_{next(_n)}")
    sys.modules[mod.__name__] = mod
    mod.__dict__["CFG_OPTS"] = cfg_opts
    mod.__dict__["CFG_MODE"] = mode
    exec(CODEC_SRC, mod.__dict__)
    return mod


def norm(doc, drop_none=False):
    """Logical document: format-native scalars rendered the way the basic form renders them."""
    if isinstance(doc, dict):
        return {k: norm(v, drop_none) for k, v in doc.items() if not (drop_none and v is None)}
    if isinstance(doc, (list, tuple)):
        return [norm(v, drop_none) for v in doc]
    if isinstance(doc, (bytes, bytearray)):
        return base64.encodebytes(bytes(doc)).decode()
    if isinstance(doc, (datetime.datetime, datetime.date, datetime.time)):
        return doc.isoformat()
    return doc


def leaf_types(doc, path=()):
    out = {}
    if isinstance(doc, dict):
        for k, v in doc.items():
            out.update(leaf_types(v, path + (k,)))
    elif isinstance(doc, (list, tuple)):
        for i, v in enumerate(doc):
            out.update(leaf_types(v, path + (i,)))
    else:
        out[path] = type(doc).__name__
    return out


def has_none(doc):
    if isinstance(doc, dict):
        return any(v is None or has_none(v) for v in doc.values())
    if isinstance(doc, (list, tuple)):
        return any(v is None or has_none(v) for v in doc)
    return False


def gen_value_expr(r, shape: str) -> str:
    def sub():
        parts = []
        if r.random() < 0.6:
            parts.append(f"n={r.choice(['None', repr('Ab'), repr('zz')])}")
        if r.random() < 0.6:
            parts.append(f"k={r.choice([3, 4])}")
        if r.random() < 0.4:
            parts.append("d=datetime.date(2019, 12, 31)")
        return "Sub(" + ", ".join(parts) + ")"

    parts = []
    if shape == "Plain":
        if r.random() < 0.6:
            parts.append(f"a={r.choice(['None', '3', '0'])}")
        if r.random() < 0.6:
            parts.append(f"b={r.choice([1, 2])}")
        if r.random() < 0.6:
            parts.append(f"nt=NT({r.choice([1, 7])}, {r.choice([2, 9])})")
        if r.random() < 0.7:
            parts.append(f"l={r.choice(['[]', '[1, 2]', '[4]'])}")
        if r.random() < 0.5:
            parts.append("dt=datetime.datetime(2021, 2, 3, 4, 5, 6)")
        if r.random() < 0.5:
            parts.append(f"by={r.choice([repr(b'xy'), repr(bytes([0, 255, 16])), repr(b'')])}")
        if r.random() < 0.6:
            parts.append(f"s={r.choice([repr('q'), repr('Hello'), repr('')])}")
        if r.random() < 0.6:
            parts.append(f"m={r.choice(['{}', repr({'k': 1}), repr({'Ab': 2, 'c': 3})])}")
    elif shape == "Nested":
        if r.random() < 0.7:
            parts.append("sub=" + sub())
        if r.random() < 0.7:
            parts.append("subs=[" + ", ".join(sub() for _ in range(r.randint(0, 2))) + "]")
        if r.random() < 0.5:
            parts.append(f"p=NT({r.choice([5, 1])}, {r.choice([6, 2])})")
        if r.random() < 0.6:
            parts.append(f"o={r.choice(['None', '1'])}")
    elif shape in ("Flagged", "FlaggedMixin"):
        if r.random() < 0.8:
            parts.append(f"a={r.choice(['None', '3'])}")
        if r.random() < 0.6:
            parts.append(f"b={r.choice([1, 2])}")
        if shape == "Flagged":
            if r.random() < 0.5:
                parts.append(f"n={r.choice(['None', repr('Ab')])}")
            if r.random() < 0.5:
                parts.append("sub=" + sub())
    elif shape == "Mixin":
        if r.random() < 0.6:
            parts.append(f"a={r.choice(['None', '3'])}")
        if r.random() < 0.6:
            parts.append(f"b={r.choice([1, 2])}")
        if r.random() < 0.5:
            parts.append(f"nt=NT({r.choice([1, 7])}, 2)")
        if r.random() < 0.4:
            parts.append("t=datetime.time(1, 2, 3)")
    return f"{shape}(" + ", ".join(parts) + ")"


def check_one(mod, fmt: str, opts: dict, shape: str, expr: str):
    """-> None if fine, 'excluded:<why>' or a dict describing the failure."""
    C = codecs()
    ns = mod.__dict__
    D = ns["make_dialect"](opts)
    T = ns[shape]
    v = eval(expr, ns)
    BE, BD, _ = C["basic"]
    try:
        basic_doc = BE(T, default_dialect=D).encode(v)
        basic_back = canon(BD(T, default_dialect=D).decode(norm_copy(basic_doc)), True)
    except Exception as e:  # noqa: BLE001
        return {"stage": "basic", "observed": f"{type(e).__name__}: {e}", "expected": "a basic document"}
    if fmt == "basic" and shape != "Mixin":      # Mixin's own Config sets an option: Config beats default_dialect but not Config.dialect
        # independent reading of "default_dialect=D": the twin classes whose Config.dialect is D, no codec dialect
        for mode in ("dialect", "options"):
            tw = new_module(opts, mode)
            try:
                tns = tw.__dict__
                try:
                    twin_doc = BE(tns[shape]).encode(eval(expr, tns))
                except Exception as e:  # noqa: BLE001
                    twin_doc = f"{type(e).__name__}: {e}"
            finally:
                sys.modules.pop(tw.__name__, None)
            if norm(basic_doc) != (norm(twin_doc) if not isinstance(twin_doc, str) else twin_doc):
                return {"stage": "basic-vs-config-" + mode, "observed": norm(basic_doc),
                        "expected": norm(twin_doc) if not isinstance(twin_doc, str) else twin_doc}
    if fmt == "toml" and opts.get("omit_none") is False and has_none(basic_doc):
        return "excluded:toml-cannot-represent-None"
    E, Dc, parse = C[fmt]
    expected = norm(basic_doc, drop_none=(fmt == "toml" and opts.get("omit_none") is None))
    try:
        wire = E(T, default_dialect=D).encode(eval(expr, ns))
        got = norm(parse(wire))
    except Exception as e:  # noqa: BLE001
        return {"stage": "encode", "observed": f"{type(e).__name__}: {e}", "expected": expected}
    if got != expected:
        return {"stage": "encode", "observed": got, "expected": expected}
    if fmt in ("msgpack", "toml") and not opts.get("strategy"):
        # "on top of the format's own requirements": where the format carries a type natively without a dialect
        # (bytes in MessagePack, datetime/date/time in TOML) it still does with one that does not mention that type
        try:
            plain = leaf_types(parse(E(T).encode(eval(expr, ns))))
        except Exception as e:  # noqa: BLE001
            return {"stage": "format-without-dialect", "observed": f"{type(e).__name__}: {e}",
                    "expected": "the format's own document (no default_dialect given)"}
        withd = leaf_types(parse(wire))
        diff = {k: (withd[k], plain[k]) for k in withd if k in plain and withd[k] != plain[k]}
        if diff:
            return {"stage": "format-native-types", "observed": {str(k): v[0] for k, v in diff.items()},
                    "expected": {str(k): v[1] for k, v in diff.items()}}
    try:
        back = canon(Dc(T, default_dialect=D).decode(wire), True)
    except Exception as e:  # noqa: BLE001
        return {"stage": "decode", "observed": f"{type(e).__name__}: {e}", "expected": basic_back}
    if back != basic_back:
        return {"stage": "decode", "observed": back, "expected": basic_back}
    # no_copy_collections: observable as object identity where the pre-encoding document can be seen
    if fmt in ("basic", "msgpack") and shape == "Plain":
        eff = opts.get("no_copy_collections")
        eff = FMT_NOCOPY[fmt] if eff is None else {"empty": (), "list": ("list",), "listdict": ("list", "dict")}[eff]
        v2 = eval(expr, ns)
        if fmt == "basic":
            raw = BE(T, default_dialect=D).encode(v2)
        else:
            raw = E(T, default_dialect=D, post_encoder_func=lambda x: x).encode(v2)
        if not opts.get("strategy"):
            for key, attr, tname in (("l", "l", "list"), ("m", "m", "dict")):
                if key in raw:
                    shared = raw[key] is getattr(v2, attr)
                    if shared != (tname in eff):
                        return {"stage": "no_copy_collections", "observed": f"{key} shared with the instance: {shared}",
                                "expected": f"shared: {tname in eff} (effective no_copy_collections {eff})"}
    return None


def norm_copy(doc):
    import copy
    return copy.deepcopy(doc)


def option_vectors(ctx, extra=None) -> list[dict]:
    vecs = []
    for bits in itertools.product([False, True], repeat=6):
        o = {}
        for name, b in zip(("omit_none", "omit_default", "serialize_by_alias", "namedtuple_as_dict"), bits[:4]):
            o[name] = True if b else None
        o["no_copy_collections"] = "list" if bits[4] else None
        o["strategy"] = bits[5]
        vecs.append(o)
    r = ctx.rng
    extra = extra or ctx.budget(16, 150)
    for _ in range(extra):              # explicit False / other values
        o = {name: r.choice([None, True, False]) for name in ("omit_none", "omit_default", "serialize_by_alias", "namedtuple_as_dict")}
        o["no_copy_collections"] = r.choice([None, "empty", "list", "listdict"])
        o["strategy"] = r.random() < 0.4
        vecs.append(o)
    return vecs


def codec_part(ctx: vlib.Ctx, extra=None):
    r = ctx.rng
    mod = new_module()
    excluded = 0
    try:
        vecs = option_vectors(ctx, extra)
        shapes = ["Plain", "Nested", "Mixin", "Flagged", "FlaggedMixin"]
        nvals = ctx.budget(1, 3)
        for vi, opts in enumerate(vecs):
            # quick tier: three of the five shapes per option vector, rotating so that every shape (and always one
            # shape with keyword-flag options) meets every second vector; thorough: all shapes
            use = shapes if not ctx.quick() else [shapes[vi % 3], shapes[(vi + 1) % 3], shapes[3 + vi % 2]]
            if vi % 8 == 7:
                from harness.props import c13_fam
                c13_fam.release_builders()      # the library's unbounded memo keeps every CodeBuilder alive
            for shape in use:
                for _ in range(nvals):
                    expr = gen_value_expr(r, shape)
                    for fmt in FORMATS:
                        key = (fmt, json.dumps(opts, sort_keys=True), shape, expr)
                        res = check_one(mod, fmt, opts, shape, expr)
                        ctx.hist("codec_format", fmt)
                        if isinstance(res, str):
                            excluded += 1
                            ctx.hist("codec_excluded", res)
                            continue
                        ctx.count(key)
                        if res is not None:
                            set_opts = sorted(k for k, v in opts.items() if v not in (None, False) or (v is False and k != "strategy"))
                            ctx.fail(f"{fmt} codec with default_dialect {opts} on {expr}: {res['stage']} gives {str(res['observed'])[:200]}, "
                                     f"the basic codec with the same dialect means {str(res['expected'])[:200]}",
                                     {"entry": "codec", "format": fmt, "opts": opts, "shape": shape, "value": expr,
                                      "source": CODEC_SRC, "observed": res["observed"], "expected": res["expected"]},
                                     {"kind": "codec-dialect-not-uniform", "format": fmt, "stage": res["stage"]})
        ctx.sample({"codec": "orjson", "opts": vecs[-1], "value": gen_value_expr(r, "Plain")})
        ctx.notes.append(f"codec sweep: {len(vecs)} option vectors x {len(shapes)} shapes x {nvals} values x {len(FORMATS)} formats; excluded {excluded}")
    finally:
        sys.modules.pop(mod.__name__, None)


def replay(rep: dict) -> int:
    mod = new_module()
    try:
        res = check_one(mod, rep["format"], rep["opts"], rep["shape"], rep["value"])
    finally:
        sys.modules.pop(mod.__name__, None)
    print("result", res)
    if isinstance(res, dict):
        print("REPRODUCED")
        return 1
    print("not reproduced")
    return 0
