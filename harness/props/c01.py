"""C01 - basic-form round trip is the identity."""
from __future__ import annotations

import datetime

from harness import vlib
from harness.vlib import coq_str, coq_z


# ---------------------------------------------------------------------------
# timezone leaf: K1 (translated) + tzname model
# ---------------------------------------------------------------------------

MALFORMED_TZ = [
    "", "UTC ", " UTC", "utc", "UTC+24:00", "UTC+1:00", "UTC+00:60", "UTC+0030", "UTC+00:3", "UTC00:30",
    "UTC+00:30x", "UTC-00:30\n", "UTC\n", "UTC\n\n", "UTC+23:59", "UTC-23:59", "UTC+29:59", "UTC-29:00",
    "UTC+-1:00", "UTC+00:00", "UTC-00:00", "UTC+00:00:30", "GMT", "UTC+0a:00", "UTC+12:34\n", "XUTC", "UTC+",
    "UTC-24:00", "UTC+25:00", "UTC+20:99",
]


def impl_parse(s):
    from mashumaro.core.helpers import parse_timezone
    try:
        tz = parse_timezone(s)
    except ValueError:
        return None
    except Exception as e:  # any other class is itself a finding for the correspondence
        return ("exc", type(e).__name__)
    off = tz.utcoffset(None)
    if off.microseconds or off.seconds % 60:
        return ("odd", str(off))
    return int(off.total_seconds() // 60)


def tz_part(ctx: vlib.Ctx):
    ctx.theorems("props/C01_tz.vo", ["C01_timezone"], kernels=["K1"])
    ctx.trusted.append("TzName.tzname: model of CPython timezone.tzname for whole-minute offsets (checked exhaustively against CPython each run)")

    # (M) tzname model vs CPython, exhaustive on the finite domain
    offs = list(range(-1439, 1440))
    cases = []
    for m in offs:
        name = datetime.timezone(datetime.timedelta(minutes=m)).tzname(None)
        cases.append(f"({coq_z(m)}, {coq_str(name)})")
    bad, log = vlib.coq_bad_idx("c01_tzname", "TzName", "", "", cases,
                                "fun c => String.eqb (tzname (fst c)) (snd c)", "Z * string", shard=1000, needs=["theories/TzName.vo"])
    if bad is None:
        ctx.correspondence("tzname-model-vs-cpython", len(cases), -1, log)
        ctx.not_shown("correspondence tzname-model-vs-cpython", log)
    else:
        ctx.correspondence("tzname-model-vs-cpython", len(cases), len(bad), str([offs[i] for i in bad[:10]]))
        if bad:
            ctx.not_shown("correspondence tzname-model-vs-cpython", f"offsets {[offs[i] for i in bad[:10]]}")
    ctx.count(n=len(cases))

    # (T) validation of the translated kernel against the Python original
    strings = [datetime.timezone(datetime.timedelta(minutes=m)).tzname(None) for m in range(-1439, 1440, 7)]
    strings += MALFORMED_TZ
    for _ in range(ctx.budget(200, 2000)):
        r = ctx.rng
        s = "UTC" + r.choice("+-") + f"{r.randrange(0, 40):02d}:{r.randrange(0, 70):02d}" + r.choice(["", "", "", "\n", "x"])
        strings.append(s)
    kcases = []
    for s in strings:
        e = impl_parse(s)
        if e is None:
            kcases.append(f"({coq_str(s)}, None)")
        elif isinstance(e, int):
            kcases.append(f"({coq_str(s)}, Some {coq_z(e)})")
        else:
            kcases.append(f"({coq_str(s)}, Some 99999)")
    if ctx.kernel_report.get("K1", {}).get("ok"):
        okf = ("fun c => match parse_timezone (KStr (fst c)), snd c with "
               "| Ok (KTz m), Some e => Z.eqb m e | Raise ValueError, None => true | _, _ => false end")
        bad, log = vlib.coq_bad_idx("c01_k1", "", "From VerifGen Require Import K1.", "", kcases, okf,
                                    "string * option Z", shard=1500, needs=["gen/K1.vo"])
        if bad is None:
            ctx.correspondence("K1-translation-vs-python", len(kcases), -1, log)
            ctx.not_shown("translation validation K1", log)
        else:
            ctx.correspondence("K1-translation-vs-python", len(kcases), len(bad), str([strings[i] for i in bad[:10]]))
            if bad:
                ctx.not_shown("translation validation K1", f"inputs {[strings[i] for i in bad[:10]]}")
    ctx.count(n=len(kcases))

    # search / direct oracle on the implementation: exhaustive over the finite domain
    from mashumaro.core.helpers import parse_timezone
    for m in offs:
        tz = datetime.timezone(datetime.timedelta(minutes=m))
        wire = tz.tzname(None)
        ctx.count(("tz", m))
        try:
            back = parse_timezone(wire)
            ok = back == tz and type(back) is datetime.timezone
            obs = repr(back)
        except Exception as e:
            ok = False
            obs = f"{type(e).__name__}: {e}"
        if not ok:
            ctx.fail(f"timezone offset {m} min: wire {wire!r} decodes to {obs}",
                     {"entry": "mashumaro.core.helpers.parse_timezone", "input": wire,
                      "value": f"datetime.timezone(datetime.timedelta(minutes={m}))",
                      "observed": obs, "expected": repr(tz)},
                     {"kind": "timezone-roundtrip", "offset_minutes": m})
    ctx.sample({"offset_minutes": -30, "wire": "UTC-00:30"})


def roundtrip_part(ctx: vlib.Ctx):
    """general round trip: Coq theorem over the type-level model + (M) correspondence + direct oracle"""
    from harness import gen, tycorr, tyoracle
    from mashumaro.codecs.basic import BasicDecoder, BasicEncoder
    ctx.theorems("props/C01_roundtrip.vo", ["C01_roundtrip", "C01_conf_ord_is_conf", "C01_roundtrip_codec", "C01_roundtrip_total"])
    ctx.theorems("props/C01_ntdict.vo", ["C01_ntdict_roundtrip", "C01_ntdict_roundtrip_total"])
    ctx.theorems("props/C01_typevar.vo", ["C01_typevar_roundtrip_total"], kernels=["K45c"])
    # the round trip composes the C02 / C03 models of the NamedTuple (un)packers: their tie to the emitted code (kernels K45 / K45b,
    # fail closed when pack_named_tuple / unpack_named_tuple change) is part of what C01 rests on
    ctx.theorems("props/C03_ntdict_kernel.vo", ["C03_named_code_is_model", "C03_ntdict_code_is_model"], kernels=["K45"])
    ctx.theorems("props/C02_ntdict_kernel.vo", ["C02_named_code_is_model", "C02_ntdict_code_is_model"], kernels=["K45b"])
    ctx.coqchk(["VerifProps.C01_roundtrip", "VerifProps.C01_tz", "VerifProps.C01_ntdict", "VerifProps.C01_typevar"])
    ctx.trusted.append("TyModel.v (cp/pk, cu/uk) tied by vm_compute correspondence; stdlib render/parse pairs are oracle functions whose "
                       "round-trip law is a hypothesis of the theorem restricted to the values present (atoms_ok)")
    ctx.assumptions.append("unions are decided under C11 (Literal types of int/str/bool/None constants are inside the Coq grammar; enum-member and bytes literals are not). Abstract / special collection classes (Sequence, Mapping, Deque, OrderedDict, DefaultDict (factory not part of the value), "
                           "MappingProxyType, Counter, ChainMap) and leaf/enum/bytes-typed mapping keys (under vals_ok: wire forms of the keys present pairwise distinct) are inside the Coq grammar. NamedTuple (as_list form), "
                           "TypedDict (total / total=False / Required / NotRequired) and tuples with an unpacked segment are inside the Coq grammar (theorems + correspondence); the round-trip "
                           "theorem states = on TypedDict values whose keys are in the decoder's order (conf_ord), the oracle compares with == on values "
                           "in shuffled insertion order; the as_dict form of a NamedTuple class at the top of a codec (class-specific serialization strategy; the option namedtuple_as_dict when the items "
                           "reach no other NamedTuple) is modelled in TyNtDict.v over the item (un)packers of TyModel (C01_ntdict_roundtrip(_total) + correspondence); as_dict NamedTuples at nested "
                           "positions / in holder dataclasses under the global option, generic NamedTuples/TypedDicts and collections.namedtuple are oracle only")
    cases, bad, log = tycorr.run(ctx, "c01_ty", ctx.budget(50, 400), 3, depth=3, foreign=1)
    hits = tyoracle.report_corr(ctx, "TyModel (pk, uk) vs BasicEncoder/BasicDecoder", cases, bad, log)
    n = ctx.budget(900, 6000) if not hits else ctx.budget(2500, 12000)
    for fam, ns, t, ty, sg in tyoracle.schema_stream(ctx.rng, n, literals=True):
        try:
            enc = BasicEncoder(ty)
            dec = BasicDecoder(ty)
        except Exception as e:
            ctx.fail(f"codec for {gen.py_ann(t)} cannot be built: {type(e).__name__}: {e}",
                     {"entry": "codec_build", "source": fam.source(), "type": gen.py_ann(t), "expected": "ok"}, {"kind": "codec-build"})
            continue
        vg = gen.ValueGen(ctx.rng, fam)
        for _ in range(4):
            v = vg.value(t)
            ctx.count((t.key(), repr(v)))
            entries = [("codec_roundtrip", lambda: dec.decode(enc.encode(v)))]
            if t.kind == "data" and fam.get(t.name).mixin:
                entries.append(("mixin_roundtrip", lambda: type(v).from_dict(v.to_dict())))
            for entry, f in entries:
                try:
                    back = f()
                    ok = gen.same(back, v)
                    obs = "ok:" + gen.py_src(back)
                except Exception as e:
                    ok = False
                    obs = f"exc:{type(e).__name__}"
                if not ok:
                    ctx.fail(f"{gen.py_ann(t)}: {entry} of {gen.py_src(v)[:200]} gives {obs[:200]}",
                             {"entry": entry, "source": fam.source(), "type": gen.py_ann(t), "input_src": gen.py_src(v),
                              "observed": obs, "expected": "ok:" + gen.py_src(v)}, {"kind": "roundtrip"})
        for n_ in t.walk():
            ctx.hist("oracle_type_constructors", n_.kind)
        fam.dispose()


def tv_part(ctx: vlib.Ctx, name: str, want, n: int):
    """dataclasses with fields annotated by type variables (unspecialised: TyTypeVar.tv_sty; specialised: the argument) vs the Coq model"""
    from harness import tycorr
    cases, bad, log = tycorr.run_tv(ctx, name, n)
    title = "TyModel over tv_sty vs BasicEncoder/BasicDecoder of generic dataclasses (G / G[...])"
    sel = [i for i, c in enumerate(cases) if want is None or c["kind"] == want or c["kind"] == "build"]
    if bad is None:
        ctx.correspondence(title, len(sel), -1, log)
        ctx.not_shown("correspondence " + title, log)
        return
    hits = [i for i in bad if i in set(sel)]
    detail = "; ".join(f"{cases[i]['kind']} {cases[i]['src'].split('@dataclass')[1][:160]!r} {repr(cases[i].get('value', cases[i].get('input')))[:120]} -> {repr(cases[i]['out'])[:120]}" for i in hits[:3])
    ctx.correspondence(title, len(sel), len(hits), detail)
    if hits:
        ctx.not_shown("correspondence " + title, detail)
    for c in cases:
        ctx.hist("case_kinds", "tv-" + c["kind"] + ":" + c["out"][0])


def omit_part(ctx: vlib.Ctx):
    """directed, deterministic: the key-dropping options that are lossless by design (omit_default, omit_none with None defaults) on Optional
    fields whose default is NOT None -- an explicit None must survive the round trip (it is not the default, so it is written and read back)"""
    from harness import gen
    combos = [("Optional[int]", "5", ["None", "5", "0"]), ("Optional[str]", "'x'", ["None", "'x'", "''"]),
              ("Optional[List[int]]", "field(default_factory=lambda: [1])", ["None", "[1]", "[]"]),
              ("Optional[date]", "date(2020, 1, 2)", ["None", "date(2020, 1, 2)", "date(1999, 12, 31)"]),
              ("Optional[int]", "None", ["None", "3"])]
    for opts in ("omit_default = True", "omit_default = True\n        omit_none = True", "omit_none = True"):
        for ann, dflt, vals in combos:
            if "omit_none" in opts and dflt != "None" and "omit_default" not in opts:
                continue            # omit_none alone with a non-None default discards an explicit None on purpose
            if "omit_none" in opts and "omit_default" in opts and dflt != "None":
                continue
            src = ("from dataclasses import dataclass, field\nfrom datetime import date\nfrom typing import List, Optional\n"
                   "from mashumaro import DataClassDictMixin\nfrom mashumaro.config import BaseConfig\n"
                   f"@dataclass\nclass O(DataClassDictMixin):\n    a: int\n    x: {ann} = {dflt}\n    class Config(BaseConfig):\n        {opts}\n")
            try:
                ns = gen.build_module(src)
            except Exception as e:
                ctx.fail(f"omit scenario cannot be built: {type(e).__name__}: {e}", {"entry": "codec_build", "source": src, "type": "O", "expected": "ok"}, {"kind": "codec-build"})
                continue
            for vs in vals:
                vsrc = f"O(1, {vs})"
                v = eval(vsrc, dict(ns))
                ctx.count(("omit", opts, ann, dflt, vs))
                try:
                    back = type(v).from_dict(v.to_dict())
                    ok = back == v
                    obs = "ok:" + gen.py_src(back)
                except Exception as e:
                    ok = False
                    obs = f"exc:{type(e).__name__}"
                if not ok:
                    ctx.fail(f"O(a: int, x: {ann} = {dflt}) with {opts.split()[0]}: mixin_roundtrip of {vsrc} gives {obs[:200]}",
                             {"entry": "mixin_roundtrip", "source": src, "type": "O", "input_src": vsrc, "observed": obs, "expected": "ok:" + gen.py_src(v)},
                             {"kind": "roundtrip"})


def as_dict_part(ctx: vlib.Ctx):
    """NamedTuples in the dict form (dialect option namedtuple_as_dict, or Config option of a holder dataclass): decode(encode(v)) == v, also for values whose defaulted
    items equal their defaults"""
    from harness import gen, tyoracle
    from mashumaro.codecs.basic import BasicDecoder, BasicEncoder
    for fam, ns, t, ty, dia in tyoracle.as_dict_stream(ctx.rng, ctx.budget(40, 250)):
        try:
            kw = {"default_dialect": dia} if dia else {}
            enc, dec = BasicEncoder(ty, **kw), BasicDecoder(ty, **kw)
        except Exception as e:
            ctx.fail(f"as_dict codec for {gen.py_ann(t)} cannot be built: {type(e).__name__}: {e}",
                     {"entry": "codec_build", "source": fam.source(), "type": gen.py_ann(t), "expected": "ok"}, {"kind": "codec-build"})
            continue
        vg = gen.ValueGen(ctx.rng, fam)
        for _ in range(3):
            v = vg.value(t)
            ctx.count((t.key(), "as_dict", repr(v)))
            ctx.hist("as_dict_root", t.kind if dia else "config")
            try:
                back = dec.decode(enc.encode(v))
                ok = gen.same(back, v)
                obs = "ok:" + gen.py_src(back)
            except Exception as e:
                ok = False
                obs = f"exc:{type(e).__name__}"
            if not ok:
                ctx.fail(f"{gen.py_ann(t)}: as_dict round trip of {gen.py_src(v)[:200]} gives {obs[:200]}",
                         {"entry": "codec_roundtrip_as_dict" if dia else "codec_roundtrip", "source": fam.source(), "type": gen.py_ann(t), "input_src": gen.py_src(v),
                          "observed": obs, "expected": "ok:" + gen.py_src(v)}, {"kind": "roundtrip"})


def scenario_part(ctx: vlib.Ctx):
    """structured families the tree generator does not reach (generic specialisations with permuted / nested /
    same-named type arguments from different modules, inheritance with overriding)"""
    from harness import gen, scenarios
    from mashumaro.codecs.basic import BasicDecoder, BasicEncoder
    todo = scenarios.inheritance_grid(ctx.rng) + [None] * ctx.budget(240, 1500)
    for sc in todo:
        if sc is None:
            sc = ctx.rng.choice(scenarios.SCENARIOS)(ctx.rng)
        ctx.hist("scenarios", sc["name"])
        try:
            ns = scenarios.build(sc)
            ty = eval(sc["type"], dict(ns))
            entries = []
            # order of first use is part of the scenario: decoder first or encoder first
            if ctx.rng.random() < 0.5:
                dec = BasicDecoder(ty); enc = BasicEncoder(ty)
            else:
                enc = BasicEncoder(ty); dec = BasicDecoder(ty)
            entries.append(("scenario_codec_roundtrip", lambda v: dec.decode(enc.encode(v))))
            if sc["mixin"]:
                entries.append(("scenario_mixin_roundtrip", lambda v: type(v).from_dict(v.to_dict())))
        except Exception as e:
            ctx.fail(f"scenario {sc['name']} [{sc['shape']}] cannot be built: {type(e).__name__}: {str(e)[:200]}",
                     {"entry": "scenario_codec_roundtrip", "scenario": sc, "input_src": sc["values"][0], "expected": "ok"},
                     {"kind": "scenario-build"})
            scenarios.dispose(sc)
            continue
        for vsrc in sc["values"]:
            v = eval(vsrc, dict(ns))
            for entry, f in entries:
                ctx.count((sc["name"], sc["shape"], entry))
                try:
                    back = f(v)
                    ok = gen.same(back, v)
                    obs = "ok:" + repr(back)
                except Exception as e:
                    ok = False
                    obs = f"exc:{type(e).__name__}: {str(e)[:200]}"
                if not ok:
                    ctx.fail(f"scenario {sc['name']} [{sc['shape']}] {entry}: {vsrc[:200]} gives {obs[:300]}",
                             {"entry": entry, "scenario": sc, "input_src": vsrc, "observed": obs, "expected": "ok:" + repr(v)},
                             {"kind": "scenario-roundtrip"})
        scenarios.dispose(sc)


def directed_part(ctx: vlib.Ctx):
    """round 7, directed and inside the Coq grammar: Literal types that list an int and the bool comparing equal to it (both orders, at depth),
    Optional fields with falsy non-None defaults holding None, Optional items of a NamedTuple held by a nullable field.  Correspondence with
    TyModel (pk, uk) and the round-trip oracle, which compares the concrete classes recursively (gen.same: True is not 1)"""
    from harness import gen, tycorr, tyoracle
    cases, bad, log = tycorr.run_directed(ctx, "c01_r7", ctx.budget(4, 24))
    tyoracle.report_corr(ctx, "TyModel (pk, uk) vs BasicEncoder/BasicDecoder and to_dict/from_dict on the directed schemas (int/bool Literal members, "
                              "None in Optional fields with falsy defaults, Optional items of NamedTuples in nullable holders)", cases, bad, log)
    for c in cases:
        if c["kind"] != "enc":
            continue
        t, fam, v = c["t"], c["fam"], c["value"]
        ctx.count((t.key(), repr(v), c.get("entry", "")))
        if c.get("entry") == "mixin":
            entry, f = "mixin_roundtrip", (lambda: type(v).from_dict(v.to_dict()))
        else:
            entry, f = "codec_roundtrip", (lambda: c["dec_o"].decode(c["enc_o"].encode(v)))
        try:
            back = f()
            ok = gen.same(back, v)
            obs = "ok:" + gen.py_src(back)
        except Exception as e:
            ok = False
            obs = f"exc:{type(e).__name__}"
        if not ok:
            ctx.fail(f"{gen.py_ann(t)}: {entry} of {gen.py_src(v)[:200]} gives {obs[:200]}",
                     {"entry": entry, "source": fam.source(), "type": gen.py_ann(t), "input_src": gen.py_src(v),
                      "observed": obs, "expected": "ok:" + gen.py_src(v)}, {"kind": "roundtrip"})


BASELINE_PRELUDE = ("from dataclasses import dataclass, field\nfrom datetime import date\nfrom typing import Generic, List, Optional, TypeVar\n"
                    "from mashumaro import DataClassDictMixin\nfrom mashumaro.config import BaseConfig\nS = TypeVar('S')\nT = TypeVar('T')\n")


def baseline_part(ctx: vlib.Ctx):
    """round 7, directed and deterministic (consumes no randomness): three shapes on which the UNCHANGED library breaks the round trip
    (known findings, each with controls that must pass):
    (a) type variables re-ordered through inheritance: class B(A[S, T], Generic[T, S]) -- B[x, y] means T=x, S=y
    (b) a generic class given an argument that mentions the SAME TypeVar object it binds: Box[List[T]] inside Generic[T], or the swap A[T, S]
        of class A(Generic[S, T]) -- the substitution T -> List[T] / S -> T -> S is applied again to its own result (RecursionError)
    (c) forbid_extra_keys with an init=False field: to_dict writes the field, from_dict rejects its key"""
    from harness import gen
    A = BASELINE_PRELUDE + "@dataclass\nclass A(Generic[S, T], DataClassDictMixin):\n    s: S\n    t: T\n"
    BOX = BASELINE_PRELUDE + "@dataclass\nclass Box(Generic[T], DataClassDictMixin):\n    item: T\n"
    scen = [
        # (source, type expression, value sources, signature kind)
        (A + "@dataclass\nclass B(A[S, T], Generic[S, T]):\n    pass\n@dataclass\nclass C(B[int, date]):\n    pass\n", "C", ["C(1, date(2020, 1, 2))"], "roundtrip"),
        (A + "@dataclass\nclass B(A[S, T]):\n    pass\n@dataclass\nclass C(B[int, date]):\n    pass\n", "C", ["C(1, date(2020, 1, 2))"], "roundtrip"),
        (A + "@dataclass\nclass B(A[T, S], Generic[S, T]):\n    u: S\n@dataclass\nclass C(B[int, date]):\n    pass\n", "C", ["C(date(2020, 1, 2), 1, 5)"], "generic-typevar-capture"),
        (A + "@dataclass\nclass B(A[S, T], Generic[T, S]):\n    pass\n@dataclass\nclass C(B[date, int]):\n    pass\n", "C", ["C(1, date(2020, 1, 2))"], "generic-reordered-typevars"),
        (A + "@dataclass\nclass B(A[S, T], Generic[T, S]):\n    pass\n", "B[date, int]", ["B(1, date(2020, 1, 2))"], "generic-reordered-typevars"),
        (BOX + "@dataclass\nclass H(Generic[S], DataClassDictMixin):\n    b: Box[List[S]]\n", "H[int]", ["H(Box([1, 2]))"], "roundtrip"),
        (BOX + "@dataclass\nclass H(Generic[T], DataClassDictMixin):\n    b: Box[T]\n", "H[int]", ["H(Box(1))"], "roundtrip"),
        (BOX, "dataclass(__import__('types').new_class('H', (Generic[T], DataClassDictMixin), {}, lambda ns: ns.update(__annotations__={'b': Box[List[T]]})))", [], "generic-typevar-capture"),
        (BASELINE_PRELUDE + "@dataclass\nclass F(DataClassDictMixin):\n    a: int\n    b: int = field(init=False, default=3)\n", "F", ["F(1)"], "roundtrip"),
        (BASELINE_PRELUDE + "@dataclass\nclass F(DataClassDictMixin):\n    a: int\n    b: int = field(init=False, default=3)\n    class Config(BaseConfig):\n        forbid_extra_keys = True\n",
         "F", ["F(1)"], "forbid-extra-keys-init-false"),
    ]
    from mashumaro.codecs.basic import BasicDecoder, BasicEncoder
    for src, tsrc, vals, kind in scen:
        ctx.count(("baseline", src, tsrc))
        try:
            ns = gen.build_module(src)
            ty = eval(tsrc, dict(ns))
            enc, dec = BasicEncoder(ty), BasicDecoder(ty)
        except Exception as e:
            ctx.fail(f"{tsrc} after {src.split('TypeVar')[-1][8:200]!r} cannot be built: {type(e).__name__}",
                     {"entry": "codec_build", "source": src, "type": tsrc, "expected": "ok"}, {"kind": kind if kind != "roundtrip" else "codec-build"})
            continue
        for vs in vals:
            v = eval(vs, dict(ns))
            for entry, f in (("mixin_roundtrip", lambda: type(v).from_dict(v.to_dict())), ("codec_roundtrip", lambda: dec.decode(enc.encode(v)))):
                try:
                    back = f()
                    ok = gen.same(back, v)
                    obs = "ok:" + gen.py_src(back)
                except Exception as e:
                    ok = False
                    obs = f"exc:{type(e).__name__}"
                if not ok:
                    ctx.fail(f"{tsrc}: {entry} of {vs} gives {obs[:200]}",
                             {"entry": entry, "source": src, "type": tsrc, "input_src": vs, "observed": obs, "expected": "ok:" + gen.py_src(v)}, {"kind": kind})


def run(ctx: vlib.Ctx):
    ctx.coverage["rule"] = ("timezone leaf: every whole-minute offset in (-24h,24h) (exhaustive, distinct = offsets); "
                            "general round trip: schemas from the shared grammar generator (depth<=4, nested/recursive/mixin dataclasses, "
                            "named tuples, typed dicts, all leaf kinds, enums, collections, Optional, Literal) x edge-biased lossless values; "
                            "distinct = (type tree, value) pairs")
    tz_part(ctx)
    roundtrip_part(ctx)
    as_dict_part(ctx)
    scenario_part(ctx)
    # round-6 parts last: the random streams of the parts above stay what they were for every seed
    from harness import tycorr, tyoracle
    ncases, nbad, nlog = tycorr.run_nd(ctx, "c01_nd", ctx.budget(16, 120), foreign=1)
    tyoracle.report_corr(ctx, "TyNtDict (pk_nd, uk_nd) vs BasicEncoder/BasicDecoder under an as_dict dialect", ncases, nbad, nlog)
    tv_part(ctx, "c01_tv", None, ctx.budget(12, 100))
    omit_part(ctx)
    # round-7 part last (same reason)
    directed_part(ctx)
    baseline_part(ctx)


def replay(rep: dict) -> int:
    import datetime as _dt
    from mashumaro.core.helpers import parse_timezone
    if rep.get("entry") == "mashumaro.core.helpers.parse_timezone":
        v = eval(rep["value"], {"datetime": _dt})
        got = parse_timezone(rep["input"])
        print("input", rep["input"], "->", got, "expected", v)
        if got != v:
            print("REPRODUCED")
            return 1
        print("not reproduced")
        return 0
    if str(rep.get("entry", "")).startswith("scenario_"):
        from harness import scenarios
        return scenarios.replay(rep)
    if rep.get("entry") == "codec_build":
        from harness import gen
        from mashumaro.codecs.basic import BasicDecoder, BasicEncoder
        try:
            ns = gen.build_module(rep["source"])
            ty = eval(rep["type"], dict(ns))
            BasicEncoder(ty)
            BasicDecoder(ty)
            print("builds")
            return 0
        except Exception as e:
            print("REPRODUCED", type(e).__name__, e)
            return 1
    from harness import gen
    return gen.replay_generic(rep)
