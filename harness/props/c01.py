"""C01 - basic-form round trip is the identity."""
from __future__ import annotations

import datetime

from harness import vlib
from harness.vlib import coq_str, coq_z


# ---------------------------------------------------------------------------
# timezone leaf: K1 (translated) + tzname model
# ---------------------------------------------------------------------------

MALFORMED_TZ = [
    "", "UTC ", " UTC", "utc", "UTC+24:00", "UTC+1:00", "UTC+00:60", "UTC+0030", "UTC+00:3", "UTC00:30",
    "UTC+00:30x", "UTC-00:30\n", "UTC\n", "UTC\n\n", "UTC+23:59", "UTC-23:59", "UTC+29:59", "UTC-29:00",
    "UTC+-1:00", "UTC+00:00", "UTC-00:00", "UTC+00:00:30", "GMT", "UTC+0a:00", "UTC+12:34\n", "XUTC", "UTC+",
    "UTC-24:00", "UTC+25:00", "UTC+20:99",
]


def impl_parse(s):
    from mashumaro.core.helpers import parse_timezone
    try:
        tz = parse_timezone(s)
    except ValueError:
        return None
    except Exception as e:  # any other class is itself a finding for the correspondence
        return ("exc", type(e).__name__)
    off = tz.utcoffset(None)
    if off.microseconds or off.seconds % 60:
        return ("odd", str(off))
    return int(off.total_seconds() // 60)


def tz_part(ctx: vlib.Ctx):
    ctx.theorems("props/C01_tz.vo", ["C01_timezone"], kernels=["K1"])
    ctx.trusted.append("TzName.tzname: model of CPython timezone.tzname for whole-minute offsets (checked exhaustively against CPython each run)")

    # (M) tzname model vs CPython, exhaustive on the finite domain
    offs = list(range(-1439, 1440))
    cases = []
    for m in offs:
        name = datetime.timezone(datetime.timedelta(minutes=m)).tzname(None)
        cases.append(f"({coq_z(m)}, {coq_str(name)})")
    bad, log = vlib.coq_bad_idx("c01_tzname", "TzName", "", "", cases,
                                "fun c => String.eqb (tzname (fst c)) (snd c)", "Z * string", shard=1000, needs=["theories/TzName.vo"])
    if bad is None:
        ctx.correspondence("tzname-model-vs-cpython", len(cases), -1, log)
        ctx.not_shown("correspondence tzname-model-vs-cpython", log)
    else:
        ctx.correspondence("tzname-model-vs-cpython", len(cases), len(bad), str([offs[i] for i in bad[:10]]))
        if bad:
            ctx.not_shown("correspondence tzname-model-vs-cpython", f"offsets {[offs[i] for i in bad[:10]]}")
    ctx.count(n=len(cases))

    # (T) validation of the translated kernel against the Python original
    strings = [datetime.timezone(datetime.timedelta(minutes=m)).tzname(None) for m in range(-1439, 1440, 7)]
    strings += MALFORMED_TZ
    for _ in range(ctx.budget(200, 2000)):
        r = ctx.rng
        s = "UTC" + r.choice("+-") + f"{r.randrange(0, 40):02d}:{r.randrange(0, 70):02d}" + r.choice(["", "", "", "\n", "x"])
        strings.append(s)
    kcases = []
    for s in strings:
        e = impl_parse(s)
        if e is None:
            kcases.append(f"({coq_str(s)}, None)")
        elif isinstance(e, int):
            kcases.append(f"({coq_str(s)}, Some {coq_z(e)})")
        else:
            kcases.append(f"({coq_str(s)}, Some 99999)")
    if ctx.kernel_report.get("K1", {}).get("ok"):
        okf = ("fun c => match parse_timezone (KStr (fst c)), snd c with "
               "| Ok (KTz m), Some e => Z.eqb m e | Raise ValueError, None => true | _, _ => false end")
        bad, log = vlib.coq_bad_idx("c01_k1", "", "From VerifGen Require Import K1.", "", kcases, okf,
                                    "string * option Z", shard=1500, needs=["gen/K1.vo"])
        if bad is None:
            ctx.correspondence("K1-translation-vs-python", len(kcases), -1, log)
            ctx.not_shown("translation validation K1", log)
        else:
            ctx.correspondence("K1-translation-vs-python", len(kcases), len(bad), str([strings[i] for i in bad[:10]]))
            if bad:
                ctx.not_shown("translation validation K1", f"inputs {[strings[i] for i in bad[:10]]}")
    ctx.count(n=len(kcases))

    # search / direct oracle on the implementation: exhaustive over the finite domain
    from mashumaro.core.helpers import parse_timezone
    for m in offs:
        tz = datetime.timezone(datetime.timedelta(minutes=m))
        wire = tz.tzname(None)
        ctx.count(("tz", m))
        try:
            back = parse_timezone(wire)
            ok = back == tz and type(back) is datetime.timezone
            obs = repr(back)
        except Exception as e:
            ok = False
            obs = f"{type(e).__name__}: {e}"
        if not ok:
            ctx.fail(f"timezone offset {m} min: wire {wire!r} decodes to {obs}",
                     {"entry": "mashumaro.core.helpers.parse_timezone", "input": wire,
                      "value": f"datetime.timezone(datetime.timedelta(minutes={m}))",
                      "observed": obs, "expected": repr(tz)},
                     {"kind": "timezone-roundtrip", "offset_minutes": m})
    ctx.sample({"offset_minutes": -30, "wire": "UTC-00:30"})


def run(ctx: vlib.Ctx):
    ctx.coverage["rule"] = ("timezone leaf: every whole-minute offset in (-24h,24h) (exhaustive, distinct = offsets); "
                            "general round trip: generated (schema, value) pairs, distinct = distinct schema shapes x value")
    tz_part(ctx)


def replay(rep: dict) -> int:
    import datetime as _dt
    from mashumaro.core.helpers import parse_timezone
    if rep.get("entry") == "mashumaro.core.helpers.parse_timezone":
        v = eval(rep["value"], {"datetime": _dt})
        got = parse_timezone(rep["input"])
        print("input", rep["input"], "->", got, "expected", v)
        if got != v:
            print("REPRODUCED")
            return 1
        print("not reproduced")
        return 0
    print("unknown replay kind")
    return 2
