"""C13 helper: class families (parent/child/grandchild/sibling + nested class) with
ADD_DIALECT_SUPPORT, built from self-contained source text, and their twins (the same
family with a given dialect as Config.dialect)."""
from __future__ import annotations

import itertools
import sys
import types

_counter = itertools.count()

PRELUDE = r'''
from dataclasses import dataclass, field, fields, is_dataclass
from typing import Optional, List, Dict, NamedTuple, Union
from typing_extensions import Self
import base64
from mashumaro import DataClassDictMixin
from mashumaro.mixins.msgpack import DataClassMessagePackMixin
from mashumaro.mixins.orjson import DataClassORJSONMixin
from mashumaro.mixins.toml import DataClassTOMLMixin
from mashumaro.config import (BaseConfig, ADD_DIALECT_SUPPORT, TO_DICT_ADD_OMIT_NONE_FLAG,
                              TO_DICT_ADD_BY_ALIAS_FLAG)
from mashumaro.dialect import Dialect
from mashumaro.types import SerializationStrategy


class Tag:
    def __init__(self, m=-1):
        self.m = m


class NT(NamedTuple):
    x: int
    y: int = 2


class IntPlus(SerializationStrategy):
    def __init__(self, k):
        self.k = k

    def serialize(self, v):
        return v + self.k

    def deserialize(self, v):
        return v - self.k


NOCOPY = {"empty": (), "list": (list,), "listdict": (list, dict)}
FLAGS = {"dialect": ADD_DIALECT_SUPPORT, "omit_none": TO_DICT_ADD_OMIT_NONE_FLAG, "by_alias": TO_DICT_ADD_BY_ALIAS_FLAG}
TAG0 = {Tag: {"serialize": (lambda v: 0), "deserialize": (lambda v: Tag(0))}}


def make_dialect(i, spec, drop=()):
    ns = {}
    for o in ("omit_none", "omit_default", "serialize_by_alias", "namedtuple_as_dict"):
        if spec.get(o) is not None and o not in drop:
            ns[o] = spec[o]
    if spec.get("no_copy_collections") is not None:
        ns["no_copy_collections"] = NOCOPY[spec["no_copy_collections"]]
    ss = {Tag: {"serialize": (lambda v, i=i: i), "deserialize": (lambda v, i=i: Tag(i))}}
    if spec.get("int") == "dict":
        ss[int] = {"serialize": (lambda v, i=i: v + 100 * i), "deserialize": (lambda v, i=i: v - 100 * i)}
    if spec.get("int") == "ser":          # one direction only: the other one comes from a lower-priority source
        ss[int] = {"serialize": (lambda v, i=i: v + 100 * i)}
    if spec.get("int") == "de":
        ss[int] = {"deserialize": (lambda v, i=i: v - 100 * i)}
    if spec.get("int") == "strat":
        ss[int] = IntPlus(1000 * i)
    if spec.get("bytes") == "de":         # serialize: the format's own (native bytes in MessagePack) or the built-in
        ss[bytes] = {"deserialize": (lambda v: bytes(v) if isinstance(v, (bytes, bytearray)) else base64.decodebytes(v.encode()))}
    if spec.get("str"):
        ss[str] = {"serialize": str.upper, "deserialize": str.lower}
    ns["serialization_strategy"] = ss
    return type("D", (Dialect,), ns)          # every dialect has the same __name__


def layer_dialects(B, D):
    """D layered over B as the lookups do it (not through Dialect.merge): every option from the first of (D, B) that
    sets it; per type and per direction the callable of the first of (D, B) that provides that direction."""
    from mashumaro.core.const import Sentinel
    ns = {}
    for o in ("omit_none", "omit_default", "serialize_by_alias", "namedtuple_as_dict", "no_copy_collections"):
        for src in (D, B):
            v = getattr(src, o)
            if v is not Sentinel.MISSING:
                ns[o] = v
                break
    ss = {}
    for t in list(D.serialization_strategy) + [t for t in B.serialization_strategy if t not in D.serialization_strategy]:
        ent = {}
        for direction in ("serialize", "deserialize"):
            for src in (D, B):
                s = src.serialization_strategy.get(t)
                if isinstance(s, dict):
                    if s.get(direction) is not None:
                        ent[direction] = s[direction]
                        break
                elif s is not None:
                    ent[direction] = getattr(s, direction)      # bound method of the strategy object
                    break
        ss[t] = ent
    ns["serialization_strategy"] = ss
    return type("D", (Dialect,), ns)


DIALECTS = {int(i): make_dialect(int(i), s) for i, s in SPEC["dialects"].items()}
_BASE = DIALECTS[int(SPEC["base_dialect"])] if SPEC.get("base_dialect") is not None else None
if TWINSPEC is None:
    # the family as the user wrote it: its classes may have a default dialect of their own
    TWIN = _BASE
elif TWINSPEC[0] == "idx":
    TWIN = DIALECTS[TWINSPEC[1]]
elif TWINSPEC[0] == "merge":                   # the classes' own default dialect with D merged in by the REAL Dialect.merge
    TWIN = _BASE.merge(DIALECTS[TWINSPEC[1]])
elif TWINSPEC[0] == "layer":                   # ... layered by hand
    TWIN = layer_dialects(_BASE, DIALECTS[TWINSPEC[1]])
else:                                          # ("mod" | "modlayer", i, ((option, replacement value or None), ...))
    _s = dict(SPEC["dialects"][str(TWINSPEC[1])])
    for _o, _v in TWINSPEC[2]:
        _s[_o] = _v
    TWIN = make_dialect(TWINSPEC[1], _s)
    if TWINSPEC[0] == "modlayer":
        TWIN = layer_dialects(_BASE, TWIN)


def make_config(cfg, support=True):
    ns = {"code_generation_options": [FLAGS[f] for f in cfg.get("flags", ["dialect"])],
          "serialization_strategy": dict(TAG0)}
    if SPEC.get("lazy"):
        ns["lazy_compilation"] = True
    if SPEC.get("cfg_int"):               # a class-level strategy below every dialect
        ns["serialization_strategy"][int] = {"serialize": (lambda v: v + 7), "deserialize": (lambda v: v - 7)}
    for o in ("omit_none", "omit_default", "serialize_by_alias", "namedtuple_as_dict"):
        if cfg.get(o) is not None:
            ns[o] = cfg[o]
    # the twin: classes with dialect support get the dialect as their default dialect
    if TWIN is not None and "dialect" in cfg.get("flags", ["dialect"]):
        ns["dialect"] = TWIN
    return type("Config", (BaseConfig,), ns)
'''

FIELD_SRC = {
    "opt": "Optional[int] = None",
    "int": "int = 5",
    "alias": "int = field(default=7, metadata={{'alias': '{f}_al'}})",
    "nt": "NT = NT(1, 2)",
    "list": "List[int] = field(default_factory=list)",
    "str": "str = 's'",
    "inner": "Inner = field(default_factory=Inner)",
    "optstr": "Optional[str] = None",
    "bytes": "bytes = b'ab'",
    "plain": "Plain = field(default_factory=Plain)",
    "byname": "Optional['P'] = None",
    "selfopt": "Optional[Self] = None",
    "selflist": "List[Self] = field(default_factory=list)",
}


def class_src(name: str, cspec: dict) -> str:
    base = cspec.get("base") or cspec.get("mixin") or "DataClassDictMixin"
    head = f"class {name}:" if cspec.get("plain_dataclass") else f"class {name}({base}):"
    lines = ["@dataclass", head, f"    t_{name}: Tag = field(default_factory=Tag)"]
    for f, kind in cspec["fields"]:
        lines.append(f"    {f}: " + FIELD_SRC[kind].format(f=f))
    if cspec.get("config") is not None:
        lines.append(f"    Config = make_config({cspec['config']!r})")
    return "\n".join(lines) + "\n"


def family_source(spec: dict) -> str:
    """Whole family as one self-contained program (for replay files)."""
    out = f"SPEC = {spec!r}\nTWINSPEC = None\n" + PRELUDE
    for name in spec["order"]:
        out += "\n" + class_src(name, spec["classes"][name])
    return out


class Family:
    def __init__(self, spec: dict, twinspec=None, define_all=True):
        self.spec = spec
        self.mod = types.ModuleType(f"c13_fam_{next(_counter)}")
        sys.modules[self.mod.__name__] = self.mod
        self.ns = self.mod.__dict__
        self.ns["SPEC"] = spec
        self.ns["TWINSPEC"] = twinspec
        exec(PRELUDE, self.ns)
        self.defined: list[str] = []
        if define_all:
            for name in spec["order"]:
                self.define(name)

    def define(self, name: str):
        exec(class_src(name, self.spec["classes"][name]), self.ns)
        self.defined.append(name)

    def close(self):
        sys.modules.pop(self.mod.__name__, None)

    def cls(self, name):
        return self.ns[name]

    def dialect(self, i):
        return None if i is None else self.ns["DIALECTS"][i]

    def all_fields(self, name):
        out = []
        c = self.spec["classes"][name]
        if c.get("base"):
            out += self.all_fields(c["base"])
        return out + [(f, k) for f, k in c["fields"]]

    def instance(self, name: str, vals: dict):
        kw = {}
        for f, kind in self.all_fields(name):
            if f not in vals:
                continue
            v = vals[f]
            if kind == "nt":
                v = self.ns["NT"](*v)
            elif kind == "inner":
                v = self.instance("Inner", v)
            elif kind == "plain":
                v = self.instance("Plain", v)
            elif kind == "list":
                v = list(v)
            elif kind == "bytes":
                v = bytes.fromhex(v)
            elif kind == "byname":
                v = None if v is None else self.instance("P", v)
            elif kind == "selfopt":
                v = None if v is None else self.instance(name, v)
            elif kind == "selflist":
                v = [self.instance(name, x) for x in v]
            kw[f] = v
        return self.ns[name](**kw)


def release_builders():
    """The library memoises CodeBuilder methods with functools.lru_cache (get_field_default without bound), which keeps
    every builder -- and with it every class family ever created in this process -- alive.  A finished history's families
    are dropped here so that the thorough tier stays small (the memo is keyed by builder instance: nothing a later
    family could observe)."""
    try:
        from mashumaro.core.meta.code.builder import CodeBuilder
        for f in (CodeBuilder.__dict__.get("get_field_default"), CodeBuilder.__dict__.get("get_config"),
                  getattr(CodeBuilder.__dict__.get("dataclass_fields"), "fget", None)):
            if hasattr(f, "cache_clear"):
                f.cache_clear()
    except Exception:  # noqa: BLE001  (a library without these memos: nothing to release)
        pass


# ---------------------------------------------------------------------------
# canonical forms
# ---------------------------------------------------------------------------

def canon(v, sort_dicts=False):
    """Structure-preserving, comparable rendering of anything to_dict/from_dict may return."""
    import dataclasses
    if sort_dicts:
        c = lambda x: canon(x, True)  # noqa: E731
        if isinstance(v, dict):
            return ("dict", tuple(sorted(((c(k), c(x)) for k, x in v.items()), key=repr)))
        if dataclasses.is_dataclass(v) and not isinstance(v, type):
            return ("dc", type(v).__name__, tuple((f.name, c(getattr(v, f.name))) for f in dataclasses.fields(v)))
        if isinstance(v, tuple) and hasattr(v, "_fields"):
            return ("nt", type(v).__name__, tuple(c(x) for x in v))
        if isinstance(v, (list, tuple)):
            return (type(v).__name__, tuple(c(x) for x in v))
    tn = type(v).__name__
    if tn == "Tag":
        return ("Tag", v.m)
    if dataclasses.is_dataclass(v) and not isinstance(v, type):
        return ("dc", tn, tuple((f.name, canon(getattr(v, f.name))) for f in dataclasses.fields(v)))
    if isinstance(v, dict):
        return ("dict", tuple((canon(k), canon(x)) for k, x in v.items()))
    if isinstance(v, tuple) and hasattr(v, "_fields"):
        return ("nt", tn, tuple(canon(x) for x in v))
    if isinstance(v, (list, tuple)):
        return (tn, tuple(canon(x) for x in v))
    return (tn, repr(v))


def _formats():
    import msgpack
    import orjson
    import tomli_w
    import tomllib
    return {
        "DataClassMessagePackMixin": {"to": "to_msgpack", "from": "from_msgpack", "pack": "msgpack", "unpack": "msgpack",
                                      "parse": lambda b: msgpack.unpackb(b, raw=False),
                                      "render": lambda d: msgpack.packb(d, use_bin_type=True)},
        "DataClassORJSONMixin": {"to": "to_jsonb", "from": "from_json", "pack": "jsonb", "unpack": "json",
                                 "parse": orjson.loads, "render": orjson.dumps},
        "DataClassTOMLMixin": {"to": "to_toml", "from": "from_toml", "pack": "toml", "unpack": "toml",
                               "parse": tomllib.loads, "render": tomli_w.dumps},
    }


def fmt_of(fam: "Family"):
    return _formats()[fam.spec["mixin"]]


def call_to_dict(fam: Family, cname: str, vals: dict, di, msgpack_format=False, **kw):
    """-> (canonical result | ('exc', type name), identity flags of list fields, raw result)"""
    inst = fam.instance(cname, vals)
    args = dict(kw)
    if di is not None:
        args["dialect"] = fam.dialect(di)
    try:
        if msgpack_format:          # the family's own format (msgpack / orjson / toml mixin)
            f = fmt_of(fam)
            out = f["parse"](getattr(inst, f["to"])(**args))
            return canon(out), (), out
        out = inst.to_dict(**args)
    except Exception as e:  # noqa: BLE001
        return ("exc", type(e).__name__), (), None
    ident = []
    for f, kind in fam.all_fields(cname):
        if kind == "list":
            lst = getattr(inst, f)
            ident.append(any(o is lst for o in out.values()))
    return canon(out), tuple(ident), out


def call_from_dict(fam: Family, cname: str, doc, di, msgpack_format=False):
    import copy
    args = {}
    if di is not None:
        args["dialect"] = fam.dialect(di)
    try:
        if msgpack_format:
            f = fmt_of(fam)
            res = getattr(fam.cls(cname), f["from"])(f["render"](doc), **args)
        else:
            res = fam.cls(cname).from_dict(copy.deepcopy(doc), **args)
    except Exception as e:  # noqa: BLE001
        return ("exc", type(e).__name__), None
    return canon(res), res


def own_cache_keys(fam: Family, cname: str, direction: str):
    """Dialect indexes (insertion order) in the class's OWN cache dict; None if it has none."""
    if cname not in fam.defined:
        return None
    if direction in ("mto", "mfrom"):
        f = fmt_of(fam)
        attr = f"__dialect_{f['pack']}_packer_cache__" if direction == "mto" else f"__dialect_{f['unpack']}_unpacker_cache__"
    else:
        attr = {"to": "__dialect_dict_packer_cache__", "from": "__dialect_dict_unpacker_cache__"}[direction]
    d = fam.cls(cname).__dict__.get(attr)
    if d is None:
        return None
    inv = {v: k for k, v in fam.ns["DIALECTS"].items()}
    return [inv.get(k, 99) for k in d]
