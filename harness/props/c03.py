"""C03 - deserialization follows the documented coercions and is well typed."""
from __future__ import annotations

import copy

from harness import gen, ref, tycorr, tyoracle, vlib


def short_tupleu(t, d, fam, depth=0) -> bool:
    """is there a tuple-with-unpacked-segment position whose input has fewer items than its fixed head + tail
    (negative indices then wrap around and an item is read twice: known finding C03/unpacked-tuple-short-input)"""
    if depth > 12:
        return False
    k = t.kind
    if k == "tupleu":
        if isinstance(d, (list, tuple, str)):
            np_, mode, nm = t.extra
            fixed = len(t.args) - (nm if mode == "var" else 0)
            if len(d) < fixed:
                return True
        return False
    if k in ("list", "seq", "deque", "tuplevar", "set", "frozenset") and isinstance(d, (list, tuple, str, dict)):
        return any(short_tupleu(t.args[0], x, fam, depth + 1) for x in d)
    if k == "tuplefix" and isinstance(d, (list, tuple, str)):
        return any(short_tupleu(a, x, fam, depth + 1) for a, x in zip(t.args, d))
    if k in ("dict", "mapping", "ordereddict", "defaultdict", "mappingproxy") and isinstance(d, dict):
        return any(short_tupleu(t.args[1], x, fam, depth + 1) for x in d.values())
    if k == "chainmap" and isinstance(d, (list, tuple)):
        return any(isinstance(m, dict) and any(short_tupleu(t.args[1], x, fam, depth + 1) for x in m.values()) for m in d)
    if k == "opt":
        return d is not None and short_tupleu(t.args[0], d, fam, depth + 1)
    if k in ("data", "td") and isinstance(d, dict):
        # a dataclass field may arrive under its alias (serialize_by_alias / allow_deserialization_not_by_alias)
        return any(key in d and short_tupleu(f.ty, d[key], fam, depth + 1)
                   for f in fam.get(t.name).fields for key in ([f.name] + ([f.alias] if getattr(f, "alias", None) else [])))
    if k == "nt" and isinstance(d, (list, tuple, str)):
        return any(short_tupleu(f.ty, x, fam, depth + 1) for f, x in zip(fam.get(t.name).fields, d))
    return False


def k7_part(ctx: vlib.Ctx):
    """kernel K7 (arg_indexes loop of pack_tuple/unpack_tuple): theorems + validation of the translation by
    running the very loop of the source on abstract argument lists"""
    import ast
    ctx.theorems("props/C03_tuple_kernel.vo", ["C03_tuple_indexes", "C03_tuple_short_input_refuted", "C03_model_plan_is_code"], kernels=["K7"])
    if not ctx.kernel_report.get("K7", {}).get("ok"):
        return
    src = open(vlib.REPO + "/mashumaro/core/meta/types/unpack.py").read()
    fn = next(n for n in ast.parse(src).body if isinstance(n, ast.FunctionDef) and n.name == "unpack_tuple")
    loop = next(n for n in ast.walk(fn) if isinstance(n, ast.For) and ast.unparse(n.iter) == "enumerate(args)")
    code = compile(ast.Module(body=[loop], type_ignores=[]), "<k7-loop>", "exec")
    cases, flagsets = [], []
    r = ctx.rng
    for _ in range(ctx.budget(300, 3000)):
        n = r.randrange(0, 7)
        flags = [False] * n
        for _ in range(r.choice([0, 1, 1, 1, 2])):
            if n:
                flags[r.randrange(n)] = True
        env = {"args": ["U" if f else "P" for f in flags], "is_unpack": lambda a: a == "U", "arg_indexes": [], "unpack_idx": None,
               "type_name": lambda t: "T", "spec": type("S", (), {"type": None})()}
        try:
            exec(code, env)
            exp = "(Some [" + "; ".join(
                (f"ASl {vlib.coq_z(a[0])} " + ("None" if a[1] is None else f"(Some {vlib.coq_z(a[1])})")) if isinstance(a, tuple) else f"AI {vlib.coq_z(a)}"
                for a in env["arg_indexes"]) + "])"
        except TypeError:
            exp = "None"
        cases.append("([" + "; ".join("true" if f else "false" for f in flags) + "], " + exp + ")")
        flagsets.append(flags)
    defs = ("Definition aidx_eqb (a b: aidx) : bool := match a, b with AI x, AI y => Z.eqb x y | ASl x None, ASl y None => Z.eqb x y "
            "| ASl x (Some p), ASl y (Some q) => Z.eqb x y && Z.eqb p q | _, _ => false end.\n"
            "Fixpoint leq (a b: list aidx) : bool := match a, b with [], [] => true | x :: r, y :: s => aidx_eqb x y && leq r s | _, _ => false end.\n")
    okf = "fun c => match arg_indexes (fst c), snd c with Some a, Some b => leq a b | None, None => true | _, _ => false end"
    bad, log = vlib.coq_bad_idx("c03_k7", "TupleIdx", "From VerifGen Require Import K7.", defs, cases, okf,
                                "list bool * option (list aidx)", shard=1500, timeout=tycorr.CORR_TIMEOUT, needs=["gen/K7.vo", "theories/TupleIdx.vo"])
    if bad is None:
        ctx.correspondence("K7-translation-vs-source-loop", len(cases), -1, log)
        ctx.not_shown("translation validation K7", log)
    else:
        ctx.correspondence("K7-translation-vs-source-loop", len(cases), len(bad), str([flagsets[i] for i in bad[:5]]))
        if bad:
            ctx.not_shown("translation validation K7", str([flagsets[i] for i in bad[:5]]))


def k45_part(ctx: vlib.Ctx, validate: bool = False):
    """kernel K45 (emission of unpack_named_tuple): theorems + validation of the translation against the code the real
    generator produces for random NamedTuple classes in both forms (helper text captured at its exec, direct call read from
    the decoder's source)"""
    import builtins
    import re
    import mashumaro.core.meta.code.builder as _builder
    import mashumaro.core.meta.types.unpack as _unpack
    from mashumaro.codecs.basic import BasicDecoder
    from mashumaro.dialect import Dialect
    if not validate:
        ctx.theorems("props/C03_ntdict_kernel.vo", ["C03_named_code_is_model", "C03_ntdict_code_is_model"], kernels=["K45"])
        ctx.trusted += ["tools/kernels/k45_namedtuple_emit.py (translator of the emission part of unpack_named_tuple: statement texts compared exactly, branch structure read "
                    "from the AST; validated each run against the code generated for random NamedTuple classes); NtEmit.v run_code = semantics of the emitted statements"]
        return
    if not ctx.kernel_report.get("K45", {}).get("ok"):
        return
    rng = ctx.rng
    cases, info = [], []
    for i in range(ctx.budget(40, 300)):
        n = rng.randrange(1, 6)
        ndef = rng.choice([0, 0, 1, 2, n])
        names = [f"f{j}" for j in range(n)]
        ndef = min(ndef, n)
        defaulted = names[n - ndef:]
        src = "from typing import NamedTuple\nclass N(NamedTuple):\n" + "".join(
            f"    {nm}: int" + (" = 0" if nm in defaulted else "") + "\n" for nm in names)
        ns = gen.build_module(src)
        as_dict = rng.random() < 0.5
        dia = type("D", (Dialect,), {"namedtuple_as_dict": as_dict})
        got = {"helper": None, "main": None}

        def rec(code, g=None, l=None):
            if isinstance(code, str):
                if "def __unpack_named_tuple_" in code:
                    got["helper"] = code
                else:
                    got["main"] = code
            return builtins.exec(code, g, l)
        olds = (_unpack.__dict__.get("exec"), _builder.__dict__.get("exec"))
        _unpack.exec = _builder.exec = rec
        try:
            BasicDecoder(ns["N"], default_dialect=dia)
        except Exception as e:
            ctx.not_shown("kernel K45 validation", f"{src}: {type(e).__name__}: {e}"[:300])
            continue
        finally:
            for m_, o_ in ((_unpack, olds[0]), (_builder, olds[1])):
                if o_ is None:
                    del m_.exec
                else:
                    m_.exec = o_
        text = (got["helper"] or "") + "\n" + (got["main"] or "")
        # subscripts of the item unpackers, in order of appearance
        subs = re.findall(r"value\[('(?:f\d+)'|\d+)\]", got["helper"] or got["main"] or "")
        idx = "[" + "; ".join(f"IName {vlib.coq_str(x[1:-1])}" if x.startswith("'") else f"IPos {int(x)}" for x in subs) + "]"
        if got["helper"]:
            lines = [x.strip() for x in got["helper"].splitlines()]
            body = []
            pend = None
            for ln in lines:
                m1 = re.match(r"if '(f\d+)' in value:$", ln)
                m2 = re.match(r"fields\['(f\d+)'\] = ", ln)
                if m1:
                    pend = m1.group(1)
                elif m2:
                    body.append(f"NLSetIf {vlib.coq_str(m2.group(1))}" if pend == m2.group(1) else f"NLSet {vlib.coq_str(m2.group(1))}")
                    pend = None
                elif ln.startswith("fields.append("):
                    body.append("NLAppend")
            if "fields = {}" in lines and any(x.startswith("return") and "(**fields)" in x for x in lines):
                code = "NCKw [" + "; ".join(body) + "]"
            elif ("fields = []" in lines and "try:" in lines and "except IndexError:" in lines and "if len(fields) < len(value):" in lines
                  and "raise" in lines and any(x.startswith("return") and "(*fields)" in x for x in lines)):
                code = "NCTry [" + "; ".join(body) + "]"
            else:
                code = "NCKw []"        # unrecognised: will not match
        else:
            code = "NCCall"
        nm = "[" + "; ".join(vlib.coq_str(x) for x in names) + "]"
        df = "[" + "; ".join(vlib.coq_str(x) for x in defaulted) + "]"
        cases.append(f"((({'true' if as_dict else 'false'}, {nm}), {df}), ({idx}, {code}))")
        info.append((as_dict, names, defaulted, idx, code))
        ctx.count(("k45", as_dict, n, ndef))
        gen.dispose_module(ns) if hasattr(gen, "dispose_module") else None
    defs = ("Definition idx_eqb (a b: nt_idx) : bool := match a, b with IName x, IName y => String.eqb x y | IPos x, IPos y => Nat.eqb x y | _, _ => false end.\n"
            "Definition line_eqb (a b: nt_line) : bool := match a, b with NLSet x, NLSet y | NLSetIf x, NLSetIf y => String.eqb x y | NLAppend, NLAppend => true | _, _ => false end.\n"
            "Fixpoint leqb {A} (e: A -> A -> bool) (a b: list A) : bool := match a, b with [], [] => true | x :: r, y :: s => e x y && leqb e r s | _, _ => false end.\n"
            "Definition code_eqb (a b: nt_code) : bool := match a, b with NCCall, NCCall => true | NCKw x, NCKw y | NCTry x, NCTry y => leqb line_eqb x y | _, _ => false end.\n")
    okf = ("fun c => match c with (((ad, names), dfl), (ix, code)) => "
           "leqb idx_eqb (k45_indices ad names) ix && "
           "code_eqb (k45_code ad (match dfl with [] => true | _ => false end) (fun n => str_mem n dfl) names) code end")
    bad, log = vlib.coq_bad_idx("c03_k45", "Core TyModel NtEmit", "From VerifGen Require Import K45.", defs, cases, okf,
                                "((bool * list string) * list string) * (list nt_idx * nt_code)", shard=400, timeout=tycorr.CORR_TIMEOUT, needs=["gen/K45.vo", "theories/NtEmit.vo"])
    if bad is None:
        ctx.correspondence("K45-translation-vs-generated-source", len(cases), -1, log)
        ctx.not_shown("translation validation K45", log)
    else:
        ctx.correspondence("K45-translation-vs-generated-source", len(cases), len(bad), str([info[i] for i in bad[:4]])[:600])
        if bad:
            ctx.not_shown("translation validation K45", str([info[i] for i in bad[:4]])[:600])


def probe(ctx, t, fam, ns, dec, d, nontrivial, entry="codec_decode"):
    ctx.count((t.key(), repr(d)), nontrivial=nontrivial)
    d0 = copy.deepcopy(d)
    try:
        exp = ("ok", ref.ref_decode(t, d0, fam, ns))
    except ref.RefError as e:
        exp = ("undef", str(e))
    try:
        got = ("ok", dec.decode(d))
    except Exception as e:
        got = ("exc", type(e).__name__)
    what = None
    if got[0] == "ok":
        if exp[0] != "ok":
            what = f"decode returned {gen.py_src(got[1])[:160]} but the reference is undefined ({exp[1]})"
        elif not gen.same(got[1], exp[1]):
            what = f"decode returned {gen.py_src(got[1])[:160]}, reference {gen.py_src(exp[1])[:160]}"
        elif not ref.conforms(t, got[1], fam, ns):
            what = f"result {gen.py_src(got[1])[:160]} does not conform to the annotation (look-alike class)"
    elif exp[0] == "ok":
        what = f"decode raised {got[1]} although the reference defines {gen.py_src(exp[1])[:160]}"
    ctx.hist("oracle_outcomes", got[0] + "/" + exp[0])
    if what:
        ctx.fail(f"{gen.py_ann(t)} <- {gen.py_src(d0)[:160]}: {what}",
                 {"entry": entry, "source": fam.source(), "type": gen.py_ann(t), "input_src": gen.py_src(d0),
                  "observed": ("ok:" + gen.py_src(got[1])) if got[0] == "ok" else "exc:" + got[1],
                  "expected": ("ok:" + gen.py_src(exp[1])) if exp[0] == "ok" else "exc:*"},
                 {"kind": "unpacked-tuple-short-input"} if (got[0] == "ok" and exp[0] != "ok" and "too few items" in exp[1]
                                                            and short_tupleu(t, d0, fam)) else {"kind": "decode-ref"})

def truncations(w, limit=12):
    """every variant of a wire value in which ONE nested list is cut short (the outer one included)"""
    out = []

    def go(x, rebuild):
        if len(out) >= limit:
            return
        if isinstance(x, list):
            for n in range(len(x)):
                out.append(rebuild(x[:n]))
            for i, y in enumerate(x):
                go(y, lambda z, i=i, x=x: rebuild(x[:i] + [z] + x[i + 1:]))
        elif isinstance(x, dict):
            for k2, y in x.items():
                go(y, lambda z, k2=k2, x=x: rebuild({**x, k2: z}))
    go(w, lambda z: z)
    return out[:limit]


def indexed_part(ctx):
    """positions decoded by indexing (NamedTuple items with and without defaults, fixed tuples, nested NamedTuples) against inputs in
    which exactly one nested sequence is too short: the only legal outcomes are the documented trailing defaults of THAT NamedTuple or an error"""
    from mashumaro.codecs.basic import BasicDecoder, BasicEncoder
    rng = ctx.rng
    for i in range(ctx.budget(60, 400)):
        sg = gen.SchemaGen(rng, gen.GenOpts(depth=2, named=True))
        sg.tag = f"ix{i}_"

        def item(d):
            c = rng.random()
            if c < 0.3 or d <= 0:
                return gen.T(rng.choice(["int", "str", "bool", "float"]))
            if c < 0.65:
                return gen.T("tuplefix", [gen.T(rng.choice(["int", "str", "bool"])) for _ in range(rng.randrange(1, 4))])
            if c < 0.85:
                return nt(d - 1)
            return gen.T("opt", [item(d - 1)])

        def nt(d):
            spec = gen.ClassSpec("nt", sg.fresh("N"))
            for k2 in range(rng.randrange(1, 5)):
                spec.fields.append(gen.FieldSpec(f"a{k2}", item(d)))
            for f in reversed(spec.fields):
                dv = sg.simple_default(f.ty) if rng.random() < 0.75 else None
                if dv is None or (isinstance(dv[0], str) and dv[0].startswith("factory:")):
                    break
                f.default, f.default_src = dv
            sg.fam.classes.append(spec)
            return gen.T("nt", name=spec.name)
        t = nt(2) if rng.random() < 0.8 else gen.T("tuplefix", [item(2) for _ in range(rng.randrange(1, 4))])
        fam = sg.fam
        ns = fam.build()
        ty = gen.resolve(t, ns)
        try:
            dec, enc = BasicDecoder(ty), BasicEncoder(ty)
        except Exception as e:
            ctx.fail(f"codec for {gen.py_ann(t)} cannot be built: {type(e).__name__}: {e}",
                     {"entry": "codec_build", "source": fam.source(), "type": gen.py_ann(t), "expected": "ok"}, {"kind": "decoder-build"})
            fam.dispose()
            continue
        vg = gen.ValueGen(rng, fam)
        try:
            w = enc.encode(vg.value(t))
        except Exception:
            fam.dispose()
            continue
        ctx.hist("indexed_root", t.kind)
        probe(ctx, t, fam, ns, dec, w, False)
        for d in truncations(w):
            probe(ctx, t, fam, ns, dec, d, True)
        fam.dispose()


def as_dict_part(ctx):
    """the namedtuple_as_dict form (dialect option, or Config option of a holder dataclass): items are looked up by field name, a missing key is legal exactly for a field with a
    default (which it then takes), surplus keys are ignored; inputs = encoder output, every single key removed / one surplus key at every
    nested dict, every nested list cut short.  Guards the fix 28df7ca (defaults never applied in this form)."""
    from mashumaro.codecs.basic import BasicDecoder, BasicEncoder
    rng = ctx.rng
    ref.NT_AS_DICT = True
    try:
        for fam, ns, t, ty, dia in tyoracle.as_dict_stream(rng, ctx.budget(50, 300)):
            try:
                kw = {"default_dialect": dia} if dia else {}
                entry = "codec_decode_as_dict" if dia else "codec_decode"
                dec, enc = BasicDecoder(ty, **kw), BasicEncoder(ty, **kw)
            except Exception as e:
                ctx.fail(f"as_dict codec for {gen.py_ann(t)} cannot be built: {type(e).__name__}: {e}",
                         {"entry": "codec_build", "source": fam.source(), "type": gen.py_ann(t), "expected": "ok"}, {"kind": "decoder-build"})
                continue
            vg = gen.ValueGen(rng, fam)
            try:
                w = enc.encode(vg.value(t))
            except Exception:
                continue
            ctx.hist("as_dict_root", t.kind if dia else "config")
            probe(ctx, t, fam, ns, dec, w, False, entry=entry)
            for d in tyoracle.key_removals(w) + truncations(w, 6):
                probe(ctx, t, fam, ns, dec, d, True, entry=entry)
    finally:
        ref.NT_AS_DICT = False


def run(ctx: vlib.Ctx):
    from mashumaro.codecs.basic import BasicDecoder, BasicEncoder

    ctx.coverage["rule"] = ("schemas from the shared grammar generator x inputs = encoder output of conforming values plus a foreign stream "
                            "(one position of a valid wire value replaced by a wrong JSON type / removed / null / extra key / surplus item, or pure junk); "
                            "distinct = (type tree, input) pairs; non-trivial = input is not the unmodified encoder output")
    ctx.theorems("props/C03_unpack.vo", ["C03_unpack_ref", "C03_strict_or_same", "C03_unpack_ref_partial", "C03_unpack_short_input_refuted", "C03_unpack_ref_refuted",
                                         "C03_field_unpacker", "C03_well_typed", "C03_well_typed_ord", "C03_str_input_any_fuel", "C03_str_fuel_sufficient", "C03_str_fuel_sufficient_ranked"])
    ctx.trusted += ["tools/kernels/k7_tuple_indexes.py (translator of the arg_indexes loop; validated each run against the source loop executed on abstract argument lists)"]
    ctx.trusted += ["TyModel.v (cu/uk: hand-written model of unpack.py registry order incl. iteration of str/dict inputs, tuple surplus, field lookup, "
                    "NamedTuple positions with trailing defaults, TypedDict required/optional keys) "
                    "tied by vm_compute correspondence; stdlib constructors (int/float/str, fromisoformat, UUID, Decimal, ..., decodebytes, Enum()) are oracle tables"]
    ctx.assumptions += ["unions (C11) and enum-member / bytes literals are decided by the oracle only; Literal types of int/str/bool/None constants (exact class, nothing coerced), the collection unpackers rebuilding canonical concrete classes (Sequence->list, Mapping->dict, Deque, OrderedDict, "
                        "DefaultDict, MappingProxyType, Counter with int(), ChainMap from a list of maps), NamedTuple (as_list form), TypedDict and tuples with an unpacked segment are "
                        "inside the Coq grammar (C03_unpack_ref = the as-generated reading of the reference on every input; C03_unpack_ref_partial = the documented reference "
                        "unless it says 'too few items'; the unguarded statement is refuted: known finding unpacked-tuple-short-input; C03_well_typed; correspondence incl. "
                        "inputs with one nested sequence cut short and every prefix of an unpacked-tuple input); constant positions are recursive (fixed tuples of constants, "
                        "default-less NamedTuples of constants); nested Unpack / TypeVarTuple segments are oracle only; sequence-like "
                        "inputs of a NamedTuple/fixed tuple other than list/tuple/str (bytes, dicts with integer keys, NamedTuple instances) are not modelled; "
                        "the as_dict form of a NamedTuple class at the top of a codec (class-specific serialization strategy; option namedtuple_as_dict when the items reach no other NamedTuple) is modelled "
                        "in TyNtDict.v: lookup by field name on every input kind, 'in' tests of defaulted fields, constant positions (C03_ntdict_unpack_ref on every input, C03_ntdict_well_typed, correspondence "
                        "incl. every key removed / surplus key / non-dict inputs); as_dict NamedTuples at nested positions / in holder dataclasses under the global option (reference by field name in ref.py) "
                        "and generic NamedTuples/TypedDicts are oracle only"]

    ctx.theorems("props/C03_ntdict.vo", ["C03_ntdict_unpack_ref", "C03_ntdict_strict_or_same", "C03_ntdict_unpack_ref_partial", "C03_ntdict_well_typed", "C03_ntdict_missing_key"])
    k7_part(ctx)
    k45_part(ctx)
    ctx.theorems("props/C03_typed_kernel.vo", ["C03_typed_code_is_model"], kernels=["K45a"])
    ctx.trusted += ["tools/kernels/k45a_typeddict_emit.py (translator of the emission loops of pack_typed_dict / unpack_typed_dict; sorted(S, key=all_keys.index) rendered as "
                    "filter; validated each run against the helpers generated for random TypedDict classes); TdEmit.v run_td_lines = semantics of the emitted statements"]
    ctx.theorems("props/C03_typevar.vo", ["C03_optional_code_is_model", "C03_typevar_code_is_model", "C03_typevar_unpack_ref"], kernels=["K45c"])
    ctx.trusted += ["tools/kernels/k45c_optional_typevar.py (head of unpack_special_typing_primitive + expr_or_maybe_none: exact-shape check, tests abstracted to booleans)"]
    ctx.coqchk(["VerifProps.C03_unpack", "VerifProps.C03_tuple_kernel", "VerifProps.C03_ntdict", "VerifProps.C03_ntdict_kernel", "VerifProps.C03_typed_kernel", "VerifProps.C03_typevar"])
    cases, bad, log = tycorr.run(ctx, "c03_ty", ctx.budget(60, 400), 2, depth=3, foreign=4)
    hits = tyoracle.report_corr(ctx, "TyModel.uk/ref_dec vs BasicDecoder.decode", cases, bad, log, want="dec")

    n = ctx.budget(800, 5000) if not hits else ctx.budget(2500, 10000)
    for fam, ns, t, ty, sg in tyoracle.schema_stream(ctx.rng, n, literals=True):
        try:
            dec = BasicDecoder(ty)
            enc = BasicEncoder(ty)
        except Exception as e:
            ctx.fail(f"codec for {gen.py_ann(t)} cannot be built: {type(e).__name__}: {e}",
                     {"entry": "codec_build", "source": fam.source(), "type": gen.py_ann(t), "expected": "ok"}, {"kind": "decoder-build"})
            continue
        vg = gen.ValueGen(ctx.rng, fam)
        for _ in range(3):
            v = vg.value(t)
            try:
                w = enc.encode(v)
            except Exception:
                continue
            inputs = [w] + [tycorr.corrupt(w, ctx.rng) for _ in range(3)] + tycorr.null_variants(w, ctx.rng, 3)
            for j, d in enumerate(inputs):
                probe(ctx, t, fam, ns, dec, d, j > 0)
        fam.dispose()
    indexed_part(ctx)
    as_dict_part(ctx)
    # round-6 parts last: the random streams of the parts above stay what they were for every seed
    k45_part(ctx, validate=True)
    tycorr.k45a_validate(ctx, "unpack")
    ncases, nbad, nlog = tycorr.run_nd(ctx, "c03_nd", ctx.budget(20, 150), foreign=3)
    tyoracle.report_corr(ctx, "TyNtDict.uk_nd/ref_dec_nd vs BasicDecoder.decode under an as_dict dialect", ncases, nbad, nlog, want="dec")
    from harness.props import c01 as _c01
    _c01.tv_part(ctx, "c03_tv", "dec", ctx.budget(15, 120))
    # round-7 parts last (same reason)
    directed_part(ctx)
    union_part(ctx)


def directed_part(ctx: vlib.Ctx):
    """round 7, directed and inside the Coq grammar: Literal types with int/bool look-alike members, Optional fields with falsy non-None
    defaults given an explicit null, Optional items of a NamedTuple held by a nullable field -- correspondence with TyModel.uk + reference oracle"""
    cases, bad, log = tycorr.run_directed(ctx, "c03_r7", ctx.budget(4, 24))
    tyoracle.report_corr(ctx, "TyModel.uk/ref_dec vs BasicDecoder.decode / from_dict on the directed schemas (int/bool Literal members, explicit null "
                              "for Optional fields with falsy defaults, Optional items of NamedTuples in nullable holders)", cases, bad, log, want="dec")
    for c in cases:
        if c["kind"] != "dec":
            continue
        t, fam, ns = c["t"], c["fam"], c["ns"]
        if c.get("entry") == "mixin":
            cls = ns[t.name]

            class _M:
                decode = staticmethod(lambda d, cls=cls: cls.from_dict(d))
            probe(ctx, t, fam, ns, _M, copy.deepcopy(c["input"]), True, entry="mixin_from_dict")
        else:
            probe(ctx, t, fam, ns, c["dec_o"], copy.deepcopy(c["input"]), True)


def sync_union_order(t, ty, fam, ns):
    """typing caches List[Union[a, b]] under the order-insensitive equality of unions: List[Union[b, a]] written later is the SAME object,
    with the member order of the first spelling.  The library (rightly) follows the order of the object it is given, so the type tree
    takes the member order from the real typing object, position by position."""
    import typing
    if t.kind == "union":
        real = list(typing.get_args(ty))
        objs = [gen.resolve(m, ns) for m in t.args]
        new = []
        for r in real:
            for i, o in enumerate(objs):
                if o == r and not any(t.args[i] is x for x in new):
                    new.append(t.args[i])
                    break
        if len(new) == len(t.args):
            t.args = new
    elif t.kind in ("list", "tuplevar"):
        sync_union_order(t.args[0], typing.get_args(ty)[0], fam, ns)
    elif t.kind == "dict":
        sync_union_order(t.args[1], typing.get_args(ty)[1], fam, ns)
    elif t.kind == "data":
        hints = typing.get_type_hints(ns[t.name])
        for f in fam.get(t.name).fields:
            sync_union_order(f.ty, hints[f.name], fam, ns)


def union_part(ctx: vlib.Ctx):
    """round 7, directed, oracle only (unions are outside the Coq grammar): non-Optional unions with exactly ONE primitive member (and controls
    with two), any member order, at the top / below List / Dict / Tuple / in a dataclass field, against look-alike inputs (bool at int
    positions, int at float / bool positions, numeric strings) -- the primitive member passes a value through only if it is of that very class"""
    from mashumaro.codecs.basic import BasicDecoder
    rng = ctx.rng
    T = gen.T
    junk = [True, False, 0, 1, -3, 2.5, "12", "1.5", "", "abc", None, [], [1], ["1", True], [True], {}, {"n": True}, {"n": "8"}, {"k": 1}, "2020-01-02", [1, "x"]]
    for si in range(ctx.budget(40, 300)):
        sg = gen.SchemaGen(rng, gen.GenOpts(depth=1, unions=False, spellings=False))
        sg.tag = f"u{si}_"
        leafd = gen.ClassSpec("data", sg.fresh("D"), mixin=rng.random() < 0.5, fields=[gen.FieldSpec("n", T(rng.choice(["int", "int", "str", "bool"])))])
        sg.fam.classes.append(leafd)
        others = [T("leaf", name="date"), T("leaf", name="UUID"), T("list", [T("int")]), T("list", [T("str")]), T("dict", [T("str"), T("int")]),
                  T("data", name=leafd.name), T("tuplefix", [T("int"), T("str")]), T("set", [T("int")]), T("leaf", name="Decimal")]
        prims = [T(rng.choice(["int", "int", "int", "float", "bool", "str"]))]
        if rng.random() < 0.2:
            prims.append(T(rng.choice([k for k in ("int", "float", "bool", "str") if k != prims[0].kind])))
        ms = prims + rng.sample(others, rng.randrange(1, 3))
        rng.shuffle(ms)
        u = T("union", ms)
        c = rng.random()
        if c < 0.3:
            t, wrap = u, (lambda x: x)
        elif c < 0.45:
            t, wrap = T("list", [u]), (lambda x: [x, x])
        elif c < 0.6:
            t, wrap = T("dict", [T("str"), T("list", [u])]), (lambda x: {"k": [x]})
        elif c < 0.7:
            t, wrap = T("tuplevar", [u]), (lambda x: [x])
        else:
            h = gen.ClassSpec("data", sg.fresh("H"), mixin=rng.random() < 0.5, fields=[gen.FieldSpec("a", T("int")), gen.FieldSpec("u", u)])
            if rng.random() < 0.4:
                h.fields.append(gen.FieldSpec("us", T("list", [copy.deepcopy(u)]), "factory:list", "field(default_factory=list)"))
            sg.fam.classes.append(h)
            t, wrap = T("data", name=h.name), (lambda x: {"a": 1, "u": x, "us": [x]})
        fam = sg.fam
        try:
            ns = fam.build()
            ty = gen.resolve(t, ns)
            dec = BasicDecoder(ty)
        except Exception as e:
            ctx.fail(f"codec for {gen.py_ann(t)} cannot be built: {type(e).__name__}: {e}",
                     {"entry": "codec_build", "source": fam.source(), "type": gen.py_ann(t), "expected": "ok"}, {"kind": "decoder-build"})
            continue
        sync_union_order(t, ty, fam, ns)
        for x in junk:
            probe(ctx, t, fam, ns, dec, wrap(copy.deepcopy(x)), True)
        for n_ in t.walk():
            ctx.hist("oracle_type_constructors", "u-" + n_.kind)
        fam.dispose()


def replay(rep: dict) -> int:
    if rep.get("expected") == "exc:*":
        ns = gen.build_module(rep["source"])
        from mashumaro.codecs.basic import BasicDecoder
        from mashumaro.dialect import Dialect

        class AsDict(Dialect):
            namedtuple_as_dict = True
        kw = {"default_dialect": AsDict} if rep.get("entry") == "codec_decode_as_dict" else {}
        try:
            got = BasicDecoder(eval(rep["type"], dict(ns)), **kw).decode(eval(rep["input_src"], dict(ns)))
            print("REPRODUCED: returned", gen.py_src(got), "where the reference is undefined")
            return 1
        except Exception as e:
            print("not reproduced: raises", type(e).__name__)
            return 0
    return gen.replay_generic(rep)
