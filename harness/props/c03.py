"""C03 - deserialization follows the documented coercions and is well typed."""
from __future__ import annotations

import copy

from harness import gen, ref, tycorr, tyoracle, vlib


def short_tupleu(t, d, fam, depth=0) -> bool:
    """is there a tuple-with-unpacked-segment position whose input has fewer items than its fixed head + tail
    (negative indices then wrap around and an item is read twice: known finding C03/unpacked-tuple-short-input)"""
    if depth > 12:
        return False
    k = t.kind
    if k == "tupleu":
        if isinstance(d, (list, tuple, str)):
            np_, mode, nm = t.extra
            fixed = len(t.args) - (nm if mode == "var" else 0)
            if len(d) < fixed:
                return True
        return False
    if k in ("list", "seq", "deque", "tuplevar", "set", "frozenset") and isinstance(d, (list, tuple, str, dict)):
        return any(short_tupleu(t.args[0], x, fam, depth + 1) for x in d)
    if k == "tuplefix" and isinstance(d, (list, tuple, str)):
        return any(short_tupleu(a, x, fam, depth + 1) for a, x in zip(t.args, d))
    if k in ("dict", "mapping", "ordereddict") and isinstance(d, dict):
        return any(short_tupleu(t.args[1], x, fam, depth + 1) for x in d.values())
    if k == "opt":
        return d is not None and short_tupleu(t.args[0], d, fam, depth + 1)
    if k in ("data", "td") and isinstance(d, dict):
        return any(f.name in d and short_tupleu(f.ty, d[f.name], fam, depth + 1) for f in fam.get(t.name).fields)
    if k == "nt" and isinstance(d, (list, tuple, str)):
        return any(short_tupleu(f.ty, x, fam, depth + 1) for f, x in zip(fam.get(t.name).fields, d))
    return False


def run(ctx: vlib.Ctx):
    from mashumaro.codecs.basic import BasicDecoder, BasicEncoder

    ctx.coverage["rule"] = ("schemas from the shared grammar generator x inputs = encoder output of conforming values plus a foreign stream "
                            "(one position of a valid wire value replaced by a wrong JSON type / removed / null / extra key / surplus item, or pure junk); "
                            "distinct = (type tree, input) pairs; non-trivial = input is not the unmodified encoder output")
    ctx.theorems("props/C03_unpack.vo", ["C03_unpack_ref", "C03_field_unpacker", "C03_well_typed"])
    ctx.trusted += ["TyModel.v (cu/uk: hand-written model of unpack.py registry order incl. iteration of str/dict inputs, tuple surplus, field lookup) "
                    "tied by vm_compute correspondence; stdlib constructors (int/float/str, fromisoformat, UUID, Decimal, ..., decodebytes, Enum()) are oracle tables"]
    ctx.assumptions += ["conformance of results (exact classes) and NamedTuple/TypedDict/abstract collections are decided by the oracle only"]

    cases, bad, log = tycorr.run(ctx, "c03_ty", ctx.budget(60, 400), 2, depth=3, foreign=4)
    hits = tyoracle.report_corr(ctx, "TyModel.uk/ref_dec vs BasicDecoder.decode", cases, bad, log, want="dec")

    n = ctx.budget(800, 5000) if not hits else ctx.budget(2500, 10000)
    for fam, ns, t, ty, sg in tyoracle.schema_stream(ctx.rng, n):
        try:
            dec = BasicDecoder(ty)
            enc = BasicEncoder(ty)
        except Exception as e:
            ctx.fail(f"codec for {gen.py_ann(t)} cannot be built: {type(e).__name__}: {e}",
                     {"entry": "codec_build", "source": fam.source(), "type": gen.py_ann(t), "expected": "ok"}, {"kind": "decoder-build"})
            continue
        vg = gen.ValueGen(ctx.rng, fam)
        for _ in range(3):
            v = vg.value(t)
            try:
                w = enc.encode(v)
            except Exception:
                continue
            inputs = [w] + [tycorr.corrupt(w, ctx.rng) for _ in range(3)]
            for j, d in enumerate(inputs):
                ctx.count((t.key(), repr(d)), nontrivial=j > 0)
                d0 = copy.deepcopy(d)
                try:
                    exp = ("ok", ref.ref_decode(t, d0, fam, ns))
                except ref.RefError as e:
                    exp = ("undef", str(e))
                try:
                    got = ("ok", dec.decode(d))
                except Exception as e:
                    got = ("exc", type(e).__name__)
                what = None
                if got[0] == "ok":
                    if exp[0] != "ok":
                        what = f"decode returned {gen.py_src(got[1])[:160]} but the reference is undefined ({exp[1]})"
                    elif not gen.same(got[1], exp[1]):
                        what = f"decode returned {gen.py_src(got[1])[:160]}, reference {gen.py_src(exp[1])[:160]}"
                    elif not ref.conforms(t, got[1], fam, ns):
                        what = f"result {gen.py_src(got[1])[:160]} does not conform to the annotation (look-alike class)"
                elif exp[0] == "ok":
                    what = f"decode raised {got[1]} although the reference defines {gen.py_src(exp[1])[:160]}"
                ctx.hist("oracle_outcomes", got[0] + "/" + exp[0])
                if what:
                    ctx.fail(f"{gen.py_ann(t)} <- {gen.py_src(d0)[:160]}: {what}",
                             {"entry": "codec_decode", "source": fam.source(), "type": gen.py_ann(t), "input_src": gen.py_src(d0),
                              "observed": ("ok:" + gen.py_src(got[1])) if got[0] == "ok" else "exc:" + got[1],
                              "expected": ("ok:" + gen.py_src(exp[1])) if exp[0] == "ok" else "exc:*"},
                             {"kind": "unpacked-tuple-short-input"} if (got[0] == "ok" and exp[0] != "ok" and "too few items" in exp[1]
                                                                        and short_tupleu(t, d0, fam)) else {"kind": "decode-ref"})
        fam.dispose()


def replay(rep: dict) -> int:
    if rep.get("expected") == "exc:*":
        ns = gen.build_module(rep["source"])
        from mashumaro.codecs.basic import BasicDecoder
        try:
            got = BasicDecoder(eval(rep["type"], dict(ns))).decode(eval(rep["input_src"], dict(ns)))
            print("REPRODUCED: returned", gen.py_src(got), "where the reference is undefined")
            return 1
        except Exception as e:
            print("not reproduced: raises", type(e).__name__)
            return 0
    return gen.replay_generic(rep)
