"""C20 - the direct oracle of the property on the real implementation.

For a case (module source, root type expressions, build parameters):
 (1) no exception from build_json_schema / JSONSchemaBuilder.build / get_definitions / to_dict
 (2) jsonschema.Draft202012Validator.check_schema on the emitted document and on every
     collected definition
 (3) every $ref at a schema position starts with the configured prefix (trailing slashes
     stripped), has the shape <prefix>/<name> and names a key of context.definitions; the
     definitions collected so far never change for names that were already present
 (4) JSONSchema.from_dict(d).to_dict() == d
The walker of (3) knows the Draft 2020-12 keyword positions by itself (it does not use
mashumaro's JSONSchema class), so a property *named* "$ref" or a default value that
contains the key "$ref" is not taken for a reference.
"""
from __future__ import annotations

import math
import sys
import types
import warnings

_modcount = [0]

SCHEMA_KW = ("items", "additionalProperties", "propertyNames", "contains", "not", "if", "then", "else",
             "unevaluatedItems", "unevaluatedProperties", "contentSchema")
SCHEMA_LIST_KW = ("anyOf", "allOf", "oneOf", "prefixItems")
SCHEMA_DICT_KW = ("properties", "patternProperties", "$defs", "dependentSchemas")


def refs_of(doc, out=None):
    """All $ref strings at schema positions of a schema document (plain JSON data)."""
    if out is None:
        out = []
    if not isinstance(doc, dict):
        return out
    for k, v in doc.items():
        if k == "$ref":
            out.append(v)
        elif k in SCHEMA_KW:
            refs_of(v, out)
        elif k in SCHEMA_LIST_KW and isinstance(v, list):
            for x in v:
                refs_of(x, out)
        elif k in SCHEMA_DICT_KW and isinstance(v, dict):
            for x in v.values():
                refs_of(x, out)
    return out


def depth_of(doc, limit=400) -> int:
    """nesting depth of a JSON document (iterative, capped)"""
    depth = 0
    level = [doc]
    while level and depth < limit:
        nxt = []
        for x in level:
            if isinstance(x, dict):
                nxt.extend(x.values())
            elif isinstance(x, (list, tuple)):
                nxt.extend(x)
        level = nxt
        depth += 1
    return depth


LIB_TOKEN = "__C20_LIB__"


def load_module(source: str, lib: str | None = None):
    """lib: source of a second module ("third-party" types, NamedTuple/TypedDict/dataclasses with string annotations whose
    names exist only there); the main source refers to it by the token __C20_LIB__"""
    _modcount[0] += 1
    if lib is not None:
        lname = f"c20_lib_{_modcount[0]}"
        lmod = types.ModuleType(lname)
        sys.modules[lname] = lmod
        exec(compile(lib, f"<{lname}>", "exec", dont_inherit=True), lmod.__dict__)
        source = source.replace(LIB_TOKEN, lname)
    name = f"c20_case_{_modcount[0]}"
    mod = types.ModuleType(name)
    sys.modules[name] = mod
    mod.__dict__["__name__"] = name
    exec(compile(source, f"<{name}>", "exec", dont_inherit=True), mod.__dict__)
    return mod


def unload(mod):
    sys.modules.pop(mod.__name__.replace("c20_case_", "c20_lib_"), None)
    sys.modules.pop(mod.__name__, None)


def deep_eq(a, b) -> bool:
    """== that treats NaN as equal to NaN (documents with a NaN default are otherwise never equal)."""
    if isinstance(a, float) and isinstance(b, float) and math.isnan(a) and math.isnan(b):
        return True
    if type(a) is not type(b):
        if not (isinstance(a, (int, float)) and isinstance(b, (int, float)) and not isinstance(a, bool) and not isinstance(b, bool)):
            return False
    if isinstance(a, dict):
        return list(a.keys()) == list(b.keys()) and all(deep_eq(a[k], b[k]) for k in a)
    if isinstance(a, (list, tuple)):
        return len(a) == len(b) and all(deep_eq(x, y) for x, y in zip(a, b))
    try:
        return a == b
    except Exception:
        return a is b


POINTERS = {"DRAFT_2020_12": "#/$defs", "OPEN_API_3_1": "#/components/schemas"}


def effective_dialect(params: dict) -> str:
    cx = params.get("context") or {}
    return params.get("dialect") or cx.get("dialect") or "DRAFT_2020_12"


def used_prefix(params: dict) -> tuple[str, str]:
    """(configured prefix, prefix expected in emitted refs).  Written from the documentation of the API,
    independently of builder.py: an explicit ref_prefix argument wins (trailing slashes stripped); otherwise
    the ref_prefix of the Context the caller passed (used as it is); otherwise the definitions pointer of the
    dialect in force (dialect argument, else the passed context's dialect, else Draft 2020-12)."""
    cx = params.get("context") or {}
    rp = params.get("ref_prefix")
    root = POINTERS[effective_dialect(params)]
    if rp is not None:
        conf = rp.rstrip("/")
    elif cx.get("ref_prefix") is not None:
        conf = cx["ref_prefix"]
    else:
        return root, root
    # observation (see report): an EMPTY configured prefix is treated as "not configured" by on_dataclass and the
    # dialect pointer is used; "starts with the configured prefix" holds trivially for the empty prefix
    return conf, (conf if conf != "" else root)


def effective_all_refs(params: dict) -> bool:
    cx = params.get("context") or {}
    if params.get("all_refs") is not None:
        return params["all_refs"]
    if cx.get("all_refs") is not None:
        return cx["all_refs"]
    return effective_dialect(params) == "OPEN_API_3_1"


def make_context(params: dict):
    from mashumaro.jsonschema import dialects as jd
    from mashumaro.jsonschema.models import Context
    cx = params.get("context")
    if not cx:
        return Context()
    kw = {}
    if cx.get("dialect"):
        kw["dialect"] = getattr(jd, cx["dialect"])
    if cx.get("all_refs") is not None:
        kw["all_refs"] = cx["all_refs"]
    if cx.get("ref_prefix") is not None:
        kw["ref_prefix"] = cx["ref_prefix"]
    return Context(**kw)


def call_kwargs(params: dict) -> dict:
    from mashumaro.jsonschema import dialects as jd
    kw = {}
    if params.get("dialect"):
        kw["dialect"] = getattr(jd, params["dialect"])
    if params.get("all_refs") is not None:
        kw["all_refs"] = params["all_refs"]
    if params.get("ref_prefix") is not None:
        kw["ref_prefix"] = params["ref_prefix"]
    return kw


class CaseTimeout(BaseException):
    """raised by the per-case alarm; a BaseException so that `except Exception` inside the library cannot swallow it"""


def _on_alarm(signum, frame):
    raise CaseTimeout()


CASE_TIMEOUT_S = 10


class Problem(Exception):
    def __init__(self, clause, what, detail):
        super().__init__(what)
        self.clause = clause
        self.what = what
        self.detail = detail


def check_doc(doc, defs_docs: dict, params, check_rt=True, own_only=False):
    """own_only: the references of the embedded "$defs" are not attributed to this call's configuration
    (shared context: they were collected by earlier calls and are checked as definitions)"""
    import jsonschema
    from mashumaro.jsonschema.models import JSONSchema
    # (2)
    try:
        jsonschema.Draft202012Validator.check_schema(doc)
    except jsonschema.exceptions.SchemaError as e:
        raise Problem("metaschema", "document is not valid against the Draft 2020-12 metaschema",
                      {"error": str(e.message)[:300], "path": [str(p) for p in e.absolute_path]})
    except Exception as e:
        raise Problem("metaschema", f"the validator crashed on the document ({type(e).__name__})", {"depth": depth_of(doc), "exc": type(e).__name__})
    # (3) params may be a list: definitions collected by several calls, each under its own configuration
    plist = params if isinstance(params, list) else [params]
    pairs = []
    for p in plist:
        pr = used_prefix(p)
        if pr not in pairs:
            pairs.append(pr)
    own = {k: v for k, v in doc.items() if k != "$defs"} if own_only and isinstance(doc, dict) else doc
    for ref in refs_of(own):
        if not isinstance(ref, str):
            raise Problem("refs", "$ref is not a string", {"ref": repr(ref)})
        err = None
        for conf, used in pairs:
            if not ref.startswith(conf):
                err = Problem("refs", "$ref does not start with the configured prefix", {"ref": ref, "prefix": conf})
                continue
            if not ref.startswith(used + "/"):
                err = Problem("refs", "$ref is not <prefix>/<name>", {"ref": ref, "prefix": used})
                continue
            name = ref[len(used) + 1:]
            if name not in defs_docs:
                err = Problem("refs", "$ref names no collected definition", {"ref": ref, "definitions": sorted(defs_docs)})
                continue
            err = None
            break
        if err is not None:
            raise err
    # (4)
    if check_rt:
        try:
            back = JSONSchema.from_dict(doc).to_dict()
        except Exception as e:
            raise Problem("roundtrip", "JSONSchema.from_dict(doc) raised", {"exc": type(e).__name__, "msg": str(e)[:200]})
        if not deep_eq(back, doc):
            raise Problem("roundtrip", "JSONSchema.from_dict(d).to_dict() != d", {"back": repr(back)[:600], "doc": repr(doc)[:600]})


def _check_root_ref(root, doc, params):
    """all_refs in force (explicitly or as the dialect's default) and a dataclass root: the output is a reference"""
    import dataclasses
    import typing
    origin = typing.get_origin(root) or root
    if effective_all_refs(params) and isinstance(origin, type) and dataclasses.is_dataclass(origin) and "$ref" not in doc:
        raise Problem("refs", "all_refs is in force but the dataclass root was emitted inline", {"keys": list(doc)[:6]})


def _has_dataclass(v, depth=0) -> bool:
    import dataclasses
    if dataclasses.is_dataclass(v) and not isinstance(v, type):
        return True
    if depth > 6:
        return False
    if isinstance(v, dict):
        return any(_has_dataclass(k, depth + 1) or _has_dataclass(x, depth + 1) for k, x in v.items())
    if isinstance(v, (list, tuple, set, frozenset)):
        return any(_has_dataclass(x, depth + 1) for x in v)
    return False


def _check_default_values(root, stats):
    """the "default" of every property = what the serializer emits for that field of a default-constructed instance.
    Applies to a dataclass root that can be built without arguments and whose Config (and Config.dialect) sets none of
    omit_none / omit_default / serialize_by_alias (then the encoder output has every field under its own name)."""
    import dataclasses
    from mashumaro.codecs.basic import BasicEncoder
    from mashumaro.jsonschema import build_json_schema
    if not (isinstance(root, type) and dataclasses.is_dataclass(root)):
        return
    cfg = getattr(root, "Config", None)
    for ns in (cfg, getattr(cfg, "dialect", None)):
        if ns is not None and any(getattr(ns, o, False) is True for o in ("omit_none", "omit_default", "serialize_by_alias")):
            return
    try:
        inst = root()
        encoded = BasicEncoder(root).encode(inst)
    except Exception:
        return            # not constructible without arguments / not encodable: nothing to compare with
    if not isinstance(encoded, dict):
        return
    try:
        props = build_json_schema(root, all_refs=False).to_dict().get("properties", {})
    except Exception:
        return            # (a document that only exists because the library swallowed its own RecursionError: known findings)
    aliases = dict(getattr(cfg, "aliases", {}) or {})
    for f in dataclasses.fields(root):
        if not f.init or f.default is dataclasses.MISSING or f.name not in encoded:
            continue
        if "Annotated[" in str(f.type) or "Alias" in str(f.type):
            continue
        if _has_dataclass(f.default):
            continue      # a nested dataclass brings its own Config (and may take the neutral dialect of _default): not comparable
        key = f.metadata.get("alias")
        if key is None:
            key = aliases.get(f.name)
        key = key or f.name
        if key not in props:
            continue
        stats["default_values"] = stats.get("default_values", 0) + 1
        fo = "serialize" in f.metadata or "serialization_strategy" in f.metadata
        if "default" not in props[key]:
            raise Problem("default-value", "a field with an explicit default has no \"default\" in its schema", {"field": f.name, "field_override": fo})
        if not deep_eq(props[key]["default"], encoded[f.name]):
            raise Problem("default-value", "the rendered default differs from what the serializer emits for the default value",
                          {"field": f.name, "schema_default": repr(props[key]["default"])[:200], "serialized": repr(encoded[f.name])[:200],
                           "field_override": fo})


def run_case(case: dict) -> dict:
    """Returns {"ok": True, ...stats} or {"ok": False, "clause", "what", "detail", "exc"}."""
    from mashumaro.jsonschema import JSONSchemaBuilder, build_json_schema
    from mashumaro.jsonschema import dialects as jd
    from mashumaro.jsonschema.models import Context
    params = case["params"]
    stats = {"refs": 0, "defs": 0, "docs": 0}
    mod = None
    step = -1
    import signal
    # the budget is CPU time of this process (ITIMER_PROF), not wall-clock time: on a loaded machine a trivial case can be
    # descheduled for longer than any wall-clock budget (observed: a false CaseTimeout for `x: Optional[int] = None` at load 130),
    # while the runs this alarm is for (unbounded / exponential recursion in the library) burn CPU
    old = signal.signal(signal.SIGPROF, _on_alarm)
    signal.setitimer(signal.ITIMER_PROF, CASE_TIMEOUT_S, 0.5)   # repeating: library code that swallows one raise cannot stop it
    try:
        return _run_case(case, params, stats)
    except CaseTimeout:
        signal.setitimer(signal.ITIMER_PROF, 0)
        return {"ok": False, "clause": "total", "what": f"schema generation did not finish within {CASE_TIMEOUT_S}s of CPU time", "step": case.get("_step", 0),
                "exc": "CaseTimeout", "msg": ""}
    finally:
        signal.setitimer(signal.ITIMER_PROF, 0)
        signal.signal(signal.SIGPROF, old)


def _run_case(case: dict, params: dict, stats: dict) -> dict:
    from mashumaro.jsonschema import JSONSchemaBuilder, build_json_schema
    from mashumaro.jsonschema import dialects as jd
    from mashumaro.jsonschema.models import Context
    mod = None
    step = -1
    with warnings.catch_warnings():
        warnings.simplefilter("ignore")
        try:
            mod = load_module(case["source"], case.get("lib"))
        except Exception as e:
            return {"ok": None, "clause": "generator", "what": f"case module does not load: {type(e).__name__}: {e}"}
        try:
            roots = [eval(src, mod.__dict__) for src in case["roots"]]
        except Exception as e:
            unload(mod)
            return {"ok": None, "clause": "generator", "what": f"root type does not evaluate: {type(e).__name__}: {e}"}
        dialect = getattr(jd, params["dialect"]) if params.get("dialect") else None
        try:
            if case["mode"] == "single":
                step = 0
                ctx = make_context(params)
                kw = call_kwargs(params)
                try:
                    schema = build_json_schema(roots[0], context=ctx, with_definitions=params["with_definitions"],
                                               with_dialect_uri=params["with_dialect_uri"], **kw)
                    doc = schema.to_dict()
                    defs_docs = {k: v.to_dict() for k, v in ctx.definitions.items()}
                except Exception as e:
                    return {"ok": False, "clause": "total", "what": f"build_json_schema raised {type(e).__name__}", "step": 0,
                            "exc": type(e).__name__, "msg": str(e)[:300]}
                stats["docs"] += 1
                stats["refs"] += len(refs_of(doc))
                stats["defs"] += len(defs_docs)
                if params["with_definitions"] and defs_docs:
                    if not deep_eq(doc.get("$defs"), defs_docs):
                        raise Problem("refs", "$defs of the document differ from context.definitions", {"doc_defs": repr(doc.get("$defs"))[:400]})
                elif "$defs" in doc:
                    raise Problem("refs", "$defs present although with_definitions=False or no definitions", {})
                if params["with_dialect_uri"]:
                    uri = getattr(jd, effective_dialect(params)).uri
                    if doc.get("$schema") != uri:
                        raise Problem("metaschema", "$schema is not the dialect uri", {"got": repr(doc.get("$schema"))})
                if not effective_all_refs(params) and (refs_of(doc) or defs_docs):
                    raise Problem("refs", "references/definitions emitted although all_refs is off", {"refs": refs_of(doc)[:5]})
                _check_root_ref(roots[0], doc, params)
                check_doc(doc, defs_docs, params)
                for nm, dd in defs_docs.items():
                    check_doc(dd, defs_docs, params)
                # an independent second call with a fresh context gives the same document and definitions
                ctx2 = make_context(params)
                try:
                    doc2 = build_json_schema(roots[0], context=ctx2, with_definitions=params["with_definitions"],
                                             with_dialect_uri=params["with_dialect_uri"], **kw).to_dict()
                    defs2 = {k: v.to_dict() for k, v in ctx2.definitions.items()}
                except Exception as e:
                    return {"ok": False, "clause": "total", "what": f"second build_json_schema call raised {type(e).__name__}", "step": 0,
                            "exc": type(e).__name__, "msg": str(e)[:300]}
                if not deep_eq(doc2, doc) or not deep_eq(defs2, defs_docs):
                    raise Problem("accumulate", "a second call with a fresh context gives a different document / definitions",
                                  {"first": repr(doc)[:300], "second": repr(doc2)[:300], "defs_first": sorted(defs_docs), "defs_second": sorted(defs2)})
                _check_default_values(roots[0], stats)
            elif case["mode"] == "shared":
                # several build_json_schema calls, each with its own keyword arguments, on ONE caller-supplied Context
                ctx = make_context(params)
                prev: dict = {}
                seen_params: list = []
                stable = True
                for step, (root, sp) in enumerate(zip(roots, params["steps"])):
                    case["_step"] = step
                    p_i = {**sp, "context": params.get("context")}
                    try:
                        doc = build_json_schema(root, context=ctx, with_definitions=sp["with_definitions"],
                                                with_dialect_uri=sp["with_dialect_uri"], **call_kwargs(sp)).to_dict()
                        defs_docs = {k: v.to_dict() for k, v in ctx.definitions.items()}
                    except Exception as e:
                        return {"ok": False, "clause": "total", "what": f"build_json_schema (shared context) raised {type(e).__name__}", "step": step,
                                "exc": type(e).__name__, "msg": str(e)[:300]}
                    stats["docs"] += 1
                    stats["refs"] += len(refs_of(doc))
                    stats["defs"] = len(defs_docs)
                    if sp["with_definitions"] and defs_docs:
                        if not deep_eq(doc.get("$defs"), defs_docs):
                            raise Problem("refs", "$defs of the document differ from context.definitions", {"doc_defs": repr(doc.get("$defs"))[:400]})
                    elif "$defs" in doc:
                        raise Problem("refs", "$defs present although with_definitions=False or no definitions", {})
                    own = {k: v for k, v in doc.items() if k != "$defs"}
                    if not effective_all_refs(p_i) and refs_of(own):
                        raise Problem("refs", "references emitted although all_refs is off", {"refs": refs_of(own)[:5]})
                    _check_root_ref(root, doc, p_i)
                    check_doc(doc, defs_docs, p_i, own_only=True)
                    cfg_i = (effective_all_refs(p_i), used_prefix(p_i))
                    if seen_params and any((effective_all_refs(q), used_prefix(q)) != cfg_i for q in seen_params):
                        stable = False      # the caller changed prefix / all_refs between calls: definitions may legitimately differ
                    seen_params.append(p_i)
                    for nm, dd in prev.items():
                        if nm not in defs_docs:
                            raise Problem("accumulate", "a definition disappeared after a later build", {"name": nm})
                        if stable and not deep_eq(defs_docs[nm], dd):
                            raise Problem("accumulate", "an earlier definition changed after a later build",
                                          {"name": nm, "before": repr(dd)[:300], "after": repr(defs_docs[nm])[:300]})
                    prev = defs_docs
                for nm, dd in prev.items():
                    check_doc(dd, prev, seen_params)
            else:
                kw = call_kwargs(params)
                builder = JSONSchemaBuilder(**kw)
                prev: dict = {}
                docs = []
                for step, root in enumerate(roots):
                    case["_step"] = step
                    try:
                        doc = builder.build(root).to_dict()
                        defs_docs = builder.get_definitions().to_dict()
                        raw = {k: v.to_dict() for k, v in builder.context.definitions.items()}
                    except Exception as e:
                        return {"ok": False, "clause": "total", "what": f"JSONSchemaBuilder.build raised {type(e).__name__}", "step": step,
                                "exc": type(e).__name__, "msg": str(e)[:300]}
                    if not deep_eq(raw, defs_docs):
                        raise Problem("refs", "get_definitions() differs from context.definitions", {})
                    stats["docs"] += 1
                    stats["refs"] += len(refs_of(doc))
                    stats["defs"] = len(defs_docs)
                    if "$defs" in doc:
                        raise Problem("refs", "builder.build output embeds $defs", {})
                    for nm, dd in prev.items():
                        if nm not in defs_docs:
                            raise Problem("accumulate", "a definition disappeared after a later build", {"name": nm})
                        if not deep_eq(defs_docs[nm], dd):
                            raise Problem("accumulate", "an earlier definition changed after a later build",
                                          {"name": nm, "before": repr(dd)[:300], "after": repr(defs_docs[nm])[:300]})
                    if not effective_all_refs(params) and (refs_of(doc) or defs_docs):
                        raise Problem("refs", "references/definitions emitted although all_refs is off", {"refs": refs_of(doc)[:5]})
                    _check_root_ref(root, doc, params)
                    docs.append(doc)
                    prev = defs_docs
                    check_doc(doc, defs_docs, params)
                # closure of every output and every definition w.r.t. the final context
                for doc in docs:
                    check_doc(doc, prev, params, check_rt=False)
                for nm, dd in prev.items():
                    check_doc(dd, prev, params)
        except Problem as p:
            return {"ok": False, "clause": p.clause, "what": p.what, "detail": p.detail, "step": step, "exc": None}
        finally:
            if mod is not None:
                unload(mod)
    return {"ok": True, **stats}


def classify(case: dict, res: dict) -> dict:
    """Signature of a failure: only robust, precisely computed features."""
    step = res.get("step", 0) or 0
    feats = case["feats"]
    # features of every root built up to and including the failing step (definitions are shared)
    upto = feats[: step + 1] if case["mode"] in ("builder", "shared") else feats[:1]
    last = upto[-1] if upto else {}
    sig = {"clause": res.get("clause"), "exc": res.get("exc")}
    exc = res.get("exc")
    msg = res.get("msg", "")
    kind = "other"
    if res.get("clause") == "total":
        if exc == "TypeError" and "issubclass() arg 1 must be a class" in msg and last.get("selftype"):
            kind = "self-type"
        elif exc == "NameError" and last.get("nt_fwd_default"):
            kind = "default-over-string-annotated-namedtuple"
        elif exc == "ValueError" and msg.startswith("mutable default") and last.get("nt_mutable"):
            kind = "nt-mutable-default"
        elif exc in ("RecursionError", "CaseTimeout") and last.get("cyclic"):
            kind = "recursive-class"
    elif res.get("clause") == "accumulate":
        if _clash_across(upto):
            kind = "defs-bare-name-clash"
        else:
            # the definition of a generic dataclass depends on where the specialisation is reached from: the outer
            # specialisation's type argument leaks into a nested generic field (H[int] holding G[str] renders G's T as int),
            # and a bare `y: T` field is resolved when G[str] is nested but left open when G[str] is the root
            uses = [tuple(u) for f in upto for u in f.get("generic_uses", [])]
            name = (res.get("detail") or {}).get("name")
            if name in {g for g, _ in uses}:
                kind = "generic-typevar-leak"
    sig["kind"] = kind
    return sig


def _clash_across(upto: list) -> bool:
    """two different specialisations of one generic dataclass reachable from the roots built so far"""
    seen: dict[str, set] = {}
    for f in upto:
        for g, a in f.get("generic_uses", []):
            seen.setdefault(g, set()).add(a)
    return any(len(v) > 1 for v in seen.values())
