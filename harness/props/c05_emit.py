"""C05 over kernel K19: per-run tie between the union methods the real generator produces for the union positions
of the C05 typed stream and the program `K19.emit (ErrsEmit.xmspecs members)` whose class-faithful execution
ErrsEmit.xunion_emitted proves equal to the model's union position (ErrsX.xrun).

(a) every union method text compiled while the stream's classes / decoders are built (both flavours) must consist of
    exactly the line shapes UnionEmit.v gives a meaning to -- in particular every guard is literally
    `except Exception: pass` -- and end in the flavour's own raise (mixin: InvalidFieldValue(<field>, <type>, value, cls),
    codec: ValueError(value));
(b) for every union type of the stream the line shapes of its codec method are compared, in Coq, with what the
    translated loop emits for the member list the model uses."""
from __future__ import annotations

import re

from harness import gen, vlib
from harness.gen import coq_sty

FB_TEXT = {"int(value)": "KInt", "float(value)": "KFloat", "bool(value)": "KBool", "str(value)": "KStr", "None": "KNone"}
TM_NAME = {"int": "KInt", "float": "KFloat", "bool": "KBool", "str": "KStr", "NoneType": "KNone"}

HEADER = """From Coq Require Import List String Ascii ZArith Bool.
From Verif Require Import UnionModel UnionEmit K19Cases.
From Verif Require Import Wire Core TupleIdx TyModel ErrsEmit.
From VerifGen Require Import K19.
Import ListNotations.
Open Scope string_scope.
Open Scope Z_scope.
Definition ok (c: list sty * list lcode) : bool := codes_eqb (map code_of (emit (xmspecs (fst c)))) (snd c).
"""


class UnionSources:
    """records the source of every union method compiled inside the `with` block"""

    def __init__(self):
        self.sources = []

    def __enter__(self):
        import builtins
        import mashumaro.core.meta.types.common as c
        self.c = c
        me = self

        def rec(src, *a, **k):
            if isinstance(src, str) and "def __unpack_union_" in src:
                me.sources.append(src)
            return builtins.exec(src, *a, **k)
        self.old = c.__dict__.get("exec")
        c.exec = rec
        return self

    def __exit__(self, *a):
        if self.old is None:
            try:
                del self.c.exec
            except AttributeError:
                pass
        else:
            self.c.exec = self.old


def parse(src: str):
    """-> (line shape codes, flavour of the final raise | None)"""
    raw = src.splitlines()
    start = next((n for n, x in enumerate(raw) if x.lstrip().startswith("def ")), 0) + 1
    lines = [x.strip() for x in raw[start:] if x.strip() and not x.strip().startswith("setattr(")]
    codes, i, flavour = [], 0, None
    while i < len(lines):
        ln = lines[i]
        m = re.match(r"if (__value_type|type\(value\)) is (\w+):$", ln)
        if ln == "__value_type = type(value)":
            codes.append("CVT"); i += 1
        elif m and i + 1 < len(lines) and lines[i + 1] == "return value" and m.group(2) in TM_NAME:
            codes.append(f"(CTM {'true' if m.group(1) == '__value_type' else 'false'} {TM_NAME[m.group(2)]})"); i += 2
        elif ln == "return value":
            codes.append("CRET"); i += 1
        elif ln == "try:" and i + 2 < len(lines) and lines[i + 1].startswith("return ") and lines[i + 2] == "except Exception: pass":
            e = lines[i + 1][len("return "):]
            codes.append(f"(CFB {FB_TEXT[e]})" if e in FB_TEXT else "CTRY"); i += 3
        elif ln == "raise ValueError(value)" and i == len(lines) - 1:
            codes.append("CRAISE"); flavour = "codec"; i += 1
        elif re.match(r"raise InvalidFieldValue\('\w+',.+,value,cls\)$", ln) and i == len(lines) - 1:
            codes.append("CRAISE"); flavour = "mixin"; i += 1
        else:
            codes.append("CBAD"); i += 1
    return codes, flavour


def unions_of(t):
    return [n for n in t.walk() if n.kind == "union"]


def run(ctx: vlib.Ctx, sources: list[str], cases: list[dict]):
    # (a) every recorded method text
    bad = []
    flav = {"mixin": 0, "codec": 0}
    for src in sources:
        codes, flavour = parse(src)
        if "CBAD" in codes or flavour is None or codes[-1] != "CRAISE" or codes.count("CRAISE") != 1:
            bad.append(" / ".join(x.strip() for x in src.splitlines()[1:] if x.strip())[:300])
        else:
            flav[flavour] += 1
    ctx.hist("union_method_flavours", "mixin", flav["mixin"])
    ctx.hist("union_method_flavours", "codec", flav["codec"])
    ctx.correspondence("c05_union_method_shape", len(sources), len(bad), "; ".join(bad[:4]))
    if bad:
        ctx.not_shown("correspondence c05_union_method_shape",
                      f"{len(bad)} of {len(sources)} generated union methods are outside the line vocabulary of UnionEmit.v "
                      f"(guards must be `except Exception: pass`, last line the flavour's raise): " + "; ".join(bad[:4]))
    # (b) line shapes vs the translated loop
    if not ctx.kernel_report.get("K19", {}).get("ok", False):
        ctx.correspondence("c05_k19_emit", 0, -1, str(ctx.kernel_report.get("K19", {}).get("error")))
        ctx.not_shown("kernel K19", str(ctx.kernel_report.get("K19", {}).get("error")))
        return
    from mashumaro.codecs.basic import BasicDecoder
    seen, lines, labels, skipped = set(), [], [], 0
    for c in cases:
        tys = [c["t"]] if c["kind"] == "root" else [f.ty for f in c["spec"].fields]
        for t in tys:
            for u in unions_of(t):
                key = (id(c["fam"]), gen.py_ann(u))
                if key in seen:
                    continue
                seen.add(key)
                with UnionSources() as us:
                    try:
                        BasicDecoder(gen.resolve(u, c["ns"]))
                    except Exception:  # noqa: BLE001 - judged by the behavioural stream
                        continue
                if not us.sources:
                    skipped += 1          # the method of this very type was compiled earlier and is cached
                    continue
                codes, _ = parse(us.sources[-1])
                nonscalar = [a for a in u.args if a.kind not in ("int", "float", "bool", "str", "none", "any")]
                if codes.count("CTRY") != len(nonscalar):
                    skipped += 1          # two members rendered to one expression text
                    continue
                lines.append(f"([{'; '.join(coq_sty(a) for a in u.args)}], [{'; '.join(codes)}])")
                labels.append(f"{gen.py_ann(u)}: {' '.join(codes)}")
    ctx.hist("c05_k19_emit", "compared", len(lines))
    ctx.hist("c05_k19_emit", "skipped", skipped)
    if not lines:
        ctx.correspondence("c05_k19_emit", 0, -1, "no union method was captured")
        ctx.not_shown("correspondence c05_k19_emit", "no union method was captured")
        return
    br = vlib.coq_make(["theories/ErrsEmit.vo", "theories/K19Cases.vo", "theories/Wire.vo"])
    if not br.ok:
        ctx.correspondence("c05_k19_emit", len(lines), -1, "model does not build: " + (br.error or ""))
        ctx.not_shown("correspondence c05_k19_emit", "model does not build: " + (br.error or ""))
        return
    txt = HEADER + "Definition cases : list (list sty * list lcode) :=\n  [" + ";\n   ".join(lines) + "].\n"
    txt += "Eval vm_compute in (bad_idx ok cases).\n"
    (ok, out), = vlib.coq_eval_many([("c05_k19_emit_0", txt)], timeout=900, jobs=2)
    idx = vlib.parse_nat_list(out) if ok else None
    if idx is None:
        ctx.correspondence("c05_k19_emit", len(lines), -1, out[-1500:])
        ctx.not_shown("correspondence c05_k19_emit", out[-1500:])
        return
    det = "; ".join(labels[i] for i in idx[:6])
    ctx.correspondence("c05_k19_emit", len(lines), len(idx), det)
    if idx:
        ctx.not_shown("correspondence c05_k19_emit", f"{len(idx)} of {len(lines)} union methods differ from K19.emit: {det}")
    ctx.count(n=len(lines))
