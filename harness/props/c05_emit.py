"""C05 over kernel K19: per-run tie between the union methods the real generator produces for the union positions
of the C05 typed stream and the program `K19.emit (ErrsEmit.xmspecs members)` whose class-faithful execution
ErrsEmit.xunion_emitted proves equal to the model's union position (ErrsX.xrun).

(a) every union method text compiled while the stream's classes / decoders are built (both flavours) must consist of
    exactly the line shapes UnionEmit.v gives a meaning to -- in particular every guard is literally
    `except Exception: pass` -- and end in the flavour's own raise (mixin: InvalidFieldValue(<field>, <type>, value, cls),
    codec: ValueError(value));
(b) for every union type of the stream the line shapes of its codec method are compared, in Coq, with what the
    translated loop emits for the member list the model uses."""
from __future__ import annotations

import re

from harness import gen, vlib
from harness.gen import coq_sty

FB_TEXT = {"int(value)": "KInt", "float(value)": "KFloat", "bool(value)": "KBool", "str(value)": "KStr", "None": "KNone"}
TM_NAME = {"int": "KInt", "float": "KFloat", "bool": "KBool", "str": "KStr", "NoneType": "KNone"}

HEADER = """From Coq Require Import List String Ascii ZArith Bool.
From Verif Require Import UnionModel UnionEmit K19Cases.
From Verif Require Import Wire Core TupleIdx TyModel ErrsEmit.
From VerifGen Require Import K19.
Import ListNotations.
Open Scope string_scope.
Open Scope Z_scope.
Definition ok (c: list sty * list lcode) : bool := codes_eqb (map code_of (emit (xmspecs (fst c)))) (snd c).
"""


class UnionSources:
    """records the source of every union method compiled inside the `with` block"""

    def __init__(self):
        self.sources = []

    def __enter__(self):
        import builtins
        import mashumaro.core.meta.types.common as c
        self.c = c
        me = self

        def rec(src, *a, **k):
            if isinstance(src, str) and "def __unpack_union_" in src:
                me.sources.append(src)
            return builtins.exec(src, *a, **k)
        self.old = c.__dict__.get("exec")
        c.exec = rec
        return self

    def __exit__(self, *a):
        if self.old is None:
            try:
                del self.c.exec
            except AttributeError:
                pass
        else:
            self.c.exec = self.old


def parse(src: str):
    """-> (line shape codes, flavour of the final raise | None)"""
    raw = src.splitlines()
    start = next((n for n, x in enumerate(raw) if x.lstrip().startswith("def ")), 0) + 1
    lines = [x.strip() for x in raw[start:] if x.strip() and not x.strip().startswith("setattr(")]
    codes, i, flavour = [], 0, None
    while i < len(lines):
        ln = lines[i]
        m = re.match(r"if (__value_type|type\(value\)) is (\w+):$", ln)
        if ln == "__value_type = type(value)":
            codes.append("CVT"); i += 1
        elif m and i + 1 < len(lines) and lines[i + 1] == "return value" and m.group(2) in TM_NAME:
            codes.append(f"(CTM {'true' if m.group(1) == '__value_type' else 'false'} {TM_NAME[m.group(2)]})"); i += 2
        elif ln == "return value":
            codes.append("CRET"); i += 1
        elif ln == "try:" and i + 2 < len(lines) and lines[i + 1].startswith("return ") and lines[i + 2] == "except Exception: pass":
            e = lines[i + 1][len("return "):]
            codes.append(f"(CFB {FB_TEXT[e]})" if e in FB_TEXT else "CTRY"); i += 3
        elif ln == "raise ValueError(value)" and i == len(lines) - 1:
            codes.append("CRAISE"); flavour = "codec"; i += 1
        elif re.match(r"raise InvalidFieldValue\('\w+',.+,value,cls\)$", ln) and i == len(lines) - 1:
            codes.append("CRAISE"); flavour = "mixin"; i += 1
        else:
            codes.append("CBAD"); i += 1
    return codes, flavour


def unions_of(t):
    return [n for n in t.walk() if n.kind == "union"]


def run(ctx: vlib.Ctx, sources: list[str], cases: list[dict]):
    # (a) every recorded method text
    bad = []
    flav = {"mixin": 0, "codec": 0}
    for src in sources:
        codes, flavour = parse(src)
        if "CBAD" in codes or flavour is None or codes[-1] != "CRAISE" or codes.count("CRAISE") != 1:
            bad.append(" / ".join(x.strip() for x in src.splitlines()[1:] if x.strip())[:300])
        else:
            flav[flavour] += 1
    ctx.hist("union_method_flavours", "mixin", flav["mixin"])
    ctx.hist("union_method_flavours", "codec", flav["codec"])
    ctx.correspondence("c05_union_method_shape", len(sources), len(bad), "; ".join(bad[:4]))
    if bad:
        ctx.not_shown("correspondence c05_union_method_shape",
                      f"{len(bad)} of {len(sources)} generated union methods are outside the line vocabulary of UnionEmit.v "
                      f"(guards must be `except Exception: pass`, last line the flavour's raise): " + "; ".join(bad[:4]))
    # (b) line shapes vs the translated loop
    if not ctx.kernel_report.get("K19", {}).get("ok", False):
        ctx.correspondence("c05_k19_emit", 0, -1, str(ctx.kernel_report.get("K19", {}).get("error")))
        ctx.not_shown("kernel K19", str(ctx.kernel_report.get("K19", {}).get("error")))
        return
    from mashumaro.codecs.basic import BasicDecoder
    seen, lines, labels, skipped = set(), [], [], 0
    for c in cases:
        tys = [c["t"]] if c["kind"] == "root" else [f.ty for f in c["spec"].fields]
        for t in tys:
            for u in unions_of(t):
                key = (id(c["fam"]), gen.py_ann(u))
                if key in seen:
                    continue
                seen.add(key)
                with UnionSources() as us:
                    try:
                        BasicDecoder(gen.resolve(u, c["ns"]))
                    except Exception:  # noqa: BLE001 - judged by the behavioural stream
                        continue
                if not us.sources:
                    skipped += 1          # the method of this very type was compiled earlier and is cached
                    continue
                codes, _ = parse(us.sources[-1])
                nonscalar = [a for a in u.args if a.kind not in ("int", "float", "bool", "str", "none", "any")]
                if codes.count("CTRY") != len(nonscalar):
                    skipped += 1          # two members rendered to one expression text
                    continue
                lines.append(f"([{'; '.join(coq_sty(a) for a in u.args)}], [{'; '.join(codes)}])")
                labels.append(f"{gen.py_ann(u)}: {' '.join(codes)}")
    ctx.hist("c05_k19_emit", "compared", len(lines))
    ctx.hist("c05_k19_emit", "skipped", skipped)
    if not lines:
        ctx.correspondence("c05_k19_emit", 0, -1, "no union method was captured")
        ctx.not_shown("correspondence c05_k19_emit", "no union method was captured")
        return
    br = vlib.coq_make(["theories/ErrsEmit.vo", "theories/K19Cases.vo", "theories/Wire.vo"])
    if not br.ok:
        ctx.correspondence("c05_k19_emit", len(lines), -1, "model does not build: " + (br.error or ""))
        ctx.not_shown("correspondence c05_k19_emit", "model does not build: " + (br.error or ""))
        return
    txt = HEADER + "Definition cases : list (list sty * list lcode) :=\n  [" + ";\n   ".join(lines) + "].\n"
    txt += "Eval vm_compute in (bad_idx ok cases).\n"
    from harness.props.c05_typed import eval_robust
    (ok, out), = eval_robust([("c05_k19_emit_0", txt)], timeout=900, jobs=2)
    idx = vlib.parse_nat_list(out) if ok else None
    if idx is None:
        ctx.correspondence("c05_k19_emit", len(lines), -1, out[-1500:])
        ctx.not_shown("correspondence c05_k19_emit", out[-1500:])
        return
    det = "; ".join(labels[i] for i in idx[:6])
    ctx.correspondence("c05_k19_emit", len(lines), len(idx), det)
    if idx:
        ctx.not_shown("correspondence c05_k19_emit", f"{len(idx)} of {len(lines)} union methods differ from K19.emit: {det}")
    ctx.count(n=len(lines))


# ---------------------------------------------------------------------------
# kernel K105c: the prologue of the discriminated dispatcher
# ---------------------------------------------------------------------------
DISCR_HEADER = """From Coq Require Import List String Ascii Bool.
From Verif Require Import Wire FieldEmitText ErrsDiscrEmit K105cProofs.
From VerifGen Require Import K105c.
Import ListNotations.
Open Scope string_scope.
Definition okd (ls: list string) : bool := lines_eqb (render_prologue prologue) ls.
"""

DISCR_PROGRAM = '''
from dataclasses import dataclass
from typing import Annotated, Union
from mashumaro import DataClassDictMixin
from mashumaro.config import BaseConfig
from mashumaro.types import Discriminator
from mashumaro.codecs.basic import BasicDecoder

@dataclass
class KBase(DataClassDictMixin):
    class Config(BaseConfig):
        discriminator = Discriminator(field="kind", include_subtypes=True)

@dataclass
class KA(KBase):
    kind = "a"
    x: int = 0

@dataclass
class PBase(DataClassDictMixin):
    pass

@dataclass
class PA(PBase):
    t = "a"

@dataclass
class Holder(DataClassDictMixin):
    f: Annotated[PBase, Discriminator(field="t", include_subtypes=True)]
    g: Annotated[Union[PA, KA], Discriminator(field="t", include_supertypes=True)] = None

try:
    KBase.from_dict({"kind": "a"})
except Exception:
    pass
BasicDecoder(KBase)
BasicDecoder(Annotated[PBase, Discriminator(field="t", include_subtypes=True)])
'''


class AllSources:
    """records every program text compiled by the type-level method builders and by the class code builder"""

    def __init__(self):
        self.sources = []

    def __enter__(self):
        import builtins
        import mashumaro.core.meta.code.builder as b
        import mashumaro.core.meta.types.common as c
        self.mods = [(m, m.__dict__.get("exec")) for m in (b, c)]
        me = self

        def rec(src, *a, **k):
            if isinstance(src, str):
                me.sources.append(src)
            return builtins.exec(src, *a, **k)
        for m, _ in self.mods:
            m.exec = rec
        return self

    def __exit__(self, *a):
        for m, old in self.mods:
            if old is None:
                try:
                    del m.exec
                except AttributeError:
                    pass
            else:
                m.exec = old


def prologue_lines(src: str):
    """the statements of a generated dispatcher before its registry lookup (the third try), normalised"""
    raw = src.splitlines()
    start = next((n for n, x in enumerate(raw) if x.lstrip().startswith("def ")), None)
    if start is None:
        return None
    ind = len(raw[start]) - len(raw[start].lstrip(" ")) + 4
    body = []
    for x in raw[start + 1:]:
        if x.strip() and not x.startswith(" " * ind):
            break
        body.append(x[ind:])
    tries = [n for n, x in enumerate(body) if x == "try:"]
    if len(tries) < 3:
        return None
    pro = body[:tries[2]]
    m = next((re.match(r"^\s*discriminator = value\[(.+)\]$", x) for x in pro if "discriminator = value[" in x), None)
    if not m:
        return None
    f = re.escape(m.group(1))
    out = []
    for x in pro:
        i = len(x) - len(x.lstrip(" "))
        t = x[i:]
        if re.match(rf"^discriminator = value\[{f}\]$", t):
            t = "discriminator = value[FIELD]"
        elif re.match(rf"^raise MissingDiscriminatorError\({f}\) from None$", t):
            t = "raise MissingDiscriminatorError(FIELD) from None"
        elif re.match(r"^raise ValueError\((['\"])Argument for .+ should be a dict instance\1\) from None$", t):
            t = "raise ValueError(MSG) from None"
        elif re.match(rf"^raise SuitableVariantNotFoundError\(.+, {f}, discriminator\) from None$", t):
            t = "raise SuitableVariantNotFoundError(TYPE, FIELD, discriminator) from None"
        out.append(" " * i + t)
    return out


def run_discr(ctx: vlib.Ctx, extra_sources: list[str] | None = None):
    name = "c05_discr_prologue_text"
    if not ctx.kernel_report.get("K105c", {}).get("ok", False):
        ctx.correspondence(name, 0, -1, str(ctx.kernel_report.get("K105c", {}).get("error")))
        ctx.not_shown("kernel K105c", str(ctx.kernel_report.get("K105c", {}).get("error")))
        return
    import sys
    import types
    mname = "c05_discr_prologue_mod"
    m = types.ModuleType(mname)
    sys.modules[mname] = m
    try:
        with AllSources() as rec:
            try:
                exec(compile(DISCR_PROGRAM, f"<{mname}>", "exec"), m.__dict__)
            except Exception as e:  # noqa: BLE001
                ctx.correspondence(name, 0, -1, f"{type(e).__name__}: {e}"[:300])
                ctx.not_shown("correspondence " + name, f"the fixed discriminated hierarchies do not build: {type(e).__name__}: {e}"[:300])
                return
    finally:
        sys.modules.pop(mname, None)
    srcs = [s for s in rec.sources + list(extra_sources or []) if "discriminator = value[" in s]
    cases, bad = {}, []
    for s in srcs:
        p = prologue_lines(s)
        if p is None:
            bad.append(" / ".join(x.strip() for x in s.splitlines()[:8])[:200])
        else:
            cases.setdefault("[" + "; ".join(vlib.coq_str(x) for x in p) + "]", " / ".join(x.strip() for x in p)[:300])
    if bad or len(srcs) < 3:
        ctx.correspondence(name + "-segmentation", len(srcs), max(len(bad), 1), "; ".join(bad[:3]) or f"only {len(srcs)} dispatchers captured")
        ctx.not_shown("correspondence " + name, "; ".join(bad[:3]) or f"only {len(srcs)} dispatchers with a field were captured (expected >= 3)")
        return
    br = vlib.coq_make(["theories/K105cProofs.vo", "theories/FieldEmitText.vo", "theories/Wire.vo"])
    if not br.ok:
        ctx.correspondence(name, len(srcs), -1, "model does not build: " + (br.error or ""))
        ctx.not_shown("correspondence " + name, "model does not build: " + (br.error or ""))
        return
    terms = list(cases)
    txt = DISCR_HEADER + "Definition cases : list (list string) :=\n  [" + ";\n   ".join(terms) + "].\nEval vm_compute in (bad_idx okd cases).\n"
    from harness.props.c05_typed import eval_robust
    (ok, out), = eval_robust([(name + "_0", txt)], timeout=900, jobs=2)
    idx = vlib.parse_nat_list(out) if ok else None
    if idx is None:
        ctx.correspondence(name, len(srcs), -1, out[-1500:])
        ctx.not_shown("correspondence " + name, out[-1500:])
        return
    det = "; ".join(cases[terms[i]] for i in idx[:3])
    ctx.hist("discr_prologue_text", "dispatchers", len(srcs))
    ctx.correspondence(name, len(srcs), len(idx), det)
    if idx:
        ctx.not_shown("correspondence " + name, f"{len(idx)} distinct dispatcher prologues differ from K105c.prologue: {det}")
    ctx.count(n=len(srcs))
