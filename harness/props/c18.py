"""C18 - no hidden sharing or mutation.

theorems (coq/props/C18_share.v)  ->  correspondence of the Coq sharing model with the real
library on generated schemas/values/dialects (labels = object identity)  ->  direct oracle of the
property on the real library (id-graph intersection == positions allowed by the property text,
input snapshot unchanged, mutating the result leaves the argument alone)."""
from __future__ import annotations

import copy
import json
import sys
import types

from harness import vlib

# switch: reading of "elements need no conversion".  True = semantic (Optional[int] elements need
# no conversion) -> the generator's extra copy for Optional elements is a (known) finding.
SEMANTIC_CONV_FREE = True
UNION_IN_MODEL = True       # decode-side unions are part of the Coq grammar (Share.v TUnion)

# ---------------------------------------------------------------------------
# origins
# ---------------------------------------------------------------------------
# name -> (annotation source, origin object source, Coq constructor, runtime classes a value may have)
SEQ_ORIGINS = {
    "list": ("typing.List[{}]", "list", "OList", ["list"]),
    "set": ("typing.Set[{}]", "set", "OSet", ["set"]),
    "frozenset": ("typing.FrozenSet[{}]", "frozenset", "OFrozenSet", ["frozenset"]),
    "deque": ("typing.Deque[{}]", "collections.deque", "ODeque", ["deque"]),
    "Sequence": ("typing.Sequence[{}]", "collections.abc.Sequence", "OSequence", ["list", "tuple"]),
    "MutableSequence": ("typing.MutableSequence[{}]", "collections.abc.MutableSequence", "OMutableSequence", ["list"]),
    "AbstractSet": ("typing.AbstractSet[{}]", "collections.abc.Set", "OAbstractSet", ["set", "frozenset"]),
    "MutableSet": ("typing.MutableSet[{}]", "collections.abc.MutableSet", "OMutableSet", ["set"]),
}
MAP_ORIGINS = {
    "dict": ("typing.Dict[{}, {}]", "dict", "ODict", ["dict", "OrderedDict"]),
    "OrderedDict": ("typing.OrderedDict[{}, {}]", "collections.OrderedDict", "OOrderedDict", ["OrderedDict"]),
    "defaultdict": ("typing.DefaultDict[{}, {}]", "collections.defaultdict", "ODefaultDict", ["defaultdict"]),
    "Counter": ("typing.Counter[{}]", "collections.Counter", "OCounter", ["Counter"]),
    "Mapping": ("typing.Mapping[{}, {}]", "collections.abc.Mapping", "OMapping", ["dict", "OrderedDict"]),
    "MutableMapping": ("typing.MutableMapping[{}, {}]", "collections.abc.MutableMapping", "OMutableMapping", ["dict"]),
}
ALL_ORIGINS = {**{k: v[1:3] for k, v in SEQ_ORIGINS.items()}, **{k: v[1:3] for k, v in MAP_ORIGINS.items()},
               "tuple": ("tuple", "OTuple")}
SET_LIKE = ("set", "frozenset", "AbstractSet", "MutableSet")

KIND_OF_CLASS = {"list": "KList", "tuple": "KTuple", "set": "KSet", "frozenset": "KFrozenSet", "deque": "KDeque",
                 "dict": "KDict", "OrderedDict": "KOrderedDict", "defaultdict": "KDefaultDict", "Counter": "KCounter"}

HEADER = '''
import collections, collections.abc, datetime, decimal, typing, typing_extensions
from dataclasses import dataclass, field
from mashumaro import DataClassDictMixin, pass_through
from mashumaro.config import BaseConfig, ADD_DIALECT_SUPPORT
from mashumaro.dialect import Dialect
from mashumaro.mixins.orjson import DataClassORJSONMixin
from mashumaro.mixins.msgpack import DataClassMessagePackMixin
from mashumaro.mixins.toml import DataClassTOMLMixin

class Opaque:
    """user object handled by pass_through in both directions; mutable"""
    def __init__(self, items):
        self.items = items
    def __eq__(self, other):
        return type(other) is Opaque and other.items == self.items
    def __repr__(self):
        return "Opaque(%r)" % (self.items,)
'''

MIXINS = {"dict": "DataClassDictMixin", "orjson": "DataClassORJSONMixin", "msgpack": "DataClassMessagePackMixin",
          "toml": "DataClassTOMLMixin", "plain": None}


# ---------------------------------------------------------------------------
# schema generation.  Types are tuples:
#   ('atom', n) ('leaf', n) ('any',) ('opq',) ('pass', t) ('opt', t) ('seq', o, t) ('tupv', t) ('tup', ts)
#   ('nt', i) ('map', o, kt, vt) ('dc', i)            -- modelled in Coq
#   ('td', i) ('chain', kt, vt) ('union', ts) ('lit', vals) ('leaf','bytearray')   -- oracle only
# ---------------------------------------------------------------------------
class Schema:
    def __init__(self):
        self.classes = []     # dicts: name, base, sup, dialect (index or None), fields [(name, ty)]
        self.nts = []         # named tuples: [(fname, ty)]
        self.tds = []         # typed dicts: [(key, ty, required)]
        self.dialects = []    # list of (None | list of origin names)   None = no no_copy_collections attribute
        self.tvars = []       # constrained TypeVars: tuple of member types
        self.nwrap = 0        # counter for named wrappers (NewType / alias / bound TypeVar)
        self.td_present = {}  # TypedDict index -> keys present in every value of this case (optional keys: decided once)
        self.model = True     # every type is inside the Coq grammar


def hashable_ty(rng, depth):
    r = rng.random()
    if r < 0.55 or depth <= 0:
        return ("atom", rng.choice(["int", "str", "str", "float", "bool"]))
    if r < 0.75:
        return ("leaf", rng.choice(["date", "decimal"]))
    if r < 0.85:
        return ("opt", ("atom", rng.choice(["int", "str"])))
    if r < 0.93:
        return ("tupv", ("atom", "int"))
    return ("seq", "frozenset", ("atom", "int"))


def key_ty(rng):
    r = rng.random()
    if r < 0.6:
        return ("atom", "str")
    if r < 0.8:
        return ("atom", "int")
    if r < 0.95:
        return ("leaf", rng.choice(["date", "decimal"]))
    return ("opt", ("atom", "str"))


# Type wrappers that the library unwraps and re-dispatches.  A wrapper is a trailing marker "w:<kind>[:<n>]" on the
# type tuple, so every function that reads the type positionally sees through it (as the library must):
#   final, annotated, newtype:n, alias:n (PEP 695 `type X = ...`), tdreq / tdnotreq / readonly (TypedDict items);
#   ("opt", t, "w:tvbound:n") is a TypeVar bound to t (the library treats it as Optional[t])
WRAPPABLE = ("seq", "tupv", "tup", "nt", "map", "dc", "leaf")


def wrapper_of(t):
    m = t[-1]
    return m[2:].split(":") if isinstance(m, str) and m.startswith("w:") else None


def strip_wrappers(t):
    while wrapper_of(t):
        t = t[:-1]
    return t


def add_wrapper(sch: Schema, t, kind: str):
    if kind == "tvbound":
        sch.nwrap += 1
        return ("opt", t, f"w:tvbound:{sch.nwrap}")
    if kind in ("newtype", "alias"):
        sch.nwrap += 1
        return t + (f"w:{kind}:{sch.nwrap}",)
    return t + (f"w:{kind}",)


def maybe_wrap(rng, sch: Schema, t, p=0.12):
    ok = t[0] in WRAPPABLE or (t[0] == "atom" and t[1] in ("int", "str"))
    if t[0] == "opt" and not wrapper_of(t) and rng.random() < p:
        # a nullable type hidden behind a wrapper keeps its None test (/repo fc913d1, 58abead)
        return add_wrapper(sch, t, rng.choice(["annotated", "alias", "annotated", "newtype"]))
    if ok and rng.random() < p:
        kind = rng.choice(["annotated", "newtype", "alias", "annotated", "newtype", "alias", "tvbound"])
        if kind == "tvbound" and t[0] == "atom":
            kind = "newtype"
        return add_wrapper(sch, t, kind)
    return t


def gen_ty(rng, sch: Schema, depth: int, lower_classes: list, extras: bool):
    return maybe_wrap(rng, sch, gen_ty0(rng, sch, depth, lower_classes, extras))


def gen_ty0(rng, sch: Schema, depth: int, lower_classes: list, extras: bool):
    """a random type; lower_classes = indexes of dataclasses that may be referenced"""
    r = rng.random()
    if depth <= 0:
        r = r * 0.36
    if r < 0.16:
        return ("atom", rng.choice(["int", "str", "float", "bool"]))
    if r < 0.24:
        return ("leaf", rng.choice(["date", "decimal"]))
    if r < 0.29:
        return ("any",)
    if r < 0.33:
        return ("opq",)
    if r < 0.36:
        if extras and rng.random() < 0.5 and not WIRE_SIDE[0]:
            sch.model = False
            return ("leaf", "bytearray")
        return ("atom", "str")
    if r < 0.44:
        t = gen_ty(rng, sch, depth - 1, lower_classes, extras)
        if t[0] in ("opt", "any", "union"):
            return t
        return ("opt", t)
    if r < 0.485:
        return ("lit", tuple(rng.sample([1, 2, 3, "a", "b"], 2)))
    if r < 0.50:
        return gen_bare(rng)
    if r < 0.56:
        if not UNION_IN_MODEL:
            sch.model = False
        if not WIRE_SIDE[0] and (extras or rng.random() < 0.3):
            return gen_union(rng, sch, depth, lower_classes)
        for _ in range(20):
            u = gen_union_containers(rng, sch, lower_classes)
            if WIRE_SIDE[0]:
                return u
            try:        # encode side: the classification of union findings relies on the Coq flags
                coq_union_pack(u, sch)
                return u
            except ValueError:
                continue
        return gen_union(rng, sch, depth, lower_classes)
    if r < 0.66:
        o = rng.choice(["list", "list", "list", "set", "frozenset", "deque", "Sequence", "MutableSequence",
                        "AbstractSet", "MutableSet", "list", "set"])
        if o in SET_LIKE:
            return ("seq", o, hashable_ty(rng, depth - 1))
        return ("seq", o, gen_ty(rng, sch, depth - 1, lower_classes, extras))
    if r < 0.70:
        return ("tupv", gen_ty(rng, sch, depth - 1, lower_classes, extras))
    if r < 0.74:
        return ("tup", tuple(gen_ty(rng, sch, depth - 1, lower_classes, extras) for _ in range(rng.randint(1, 3))))
    if r < 0.77:
        fs = [(f"n{i}", gen_ty(rng, sch, depth - 1, lower_classes, extras)) for i in range(rng.randint(1, 3))]
        sch.nts.append(fs)
        return ("nt", len(sch.nts) - 1)
    if r < 0.92:
        o = rng.choice(["dict", "dict", "dict", "OrderedDict", "defaultdict", "Counter", "Mapping", "MutableMapping"])
        if o == "Counter":
            return ("map", o, key_ty(rng), ("atom", "int"))
        vt = gen_ty(rng, sch, depth - 1, lower_classes, extras)
        if o == "defaultdict":
            # the factory is rendered from the value type's name: keep it callable
            vt = rng.choice([("atom", "int"), ("atom", "str"), ("seq", "list", ("atom", "int")),
                             ("map", "dict", ("atom", "str"), ("atom", "int"))])
        return ("map", o, key_ty(rng), vt)
    if r < 0.97 and lower_classes:
        return ("dc", rng.choice(lower_classes))
    if extras:
        q = rng.random()
        if q < 0.3:
            fs = [(f"k{i}", gen_ty(rng, sch, depth - 1, lower_classes, extras), rng.random() < 0.7)
                  for i in range(rng.randint(1, 3))]
            fs.sort(key=lambda f: not f[2])      # required keys first: the order the library writes them in
            fs = [(a, add_wrapper(sch, b, rng.choice(["readonly", "tdreq" if r else "tdnotreq"]))
                   if rng.random() < 0.4 and not wrapper_of(b) else b, r) for a, b, r in fs]
            sch.tds.append(fs)
            return ("td", len(sch.tds) - 1)
        if q < 0.45:
            return ("chain", ("atom", "str"), gen_ty(rng, sch, depth - 1, lower_classes, extras))
        if q < 0.6:
            return ("lit", tuple(rng.sample([1, 2, 3, "a", "b"], 2)))
        return gen_union(rng, sch, depth, lower_classes)
    return ("seq", "list", ("atom", "int"))


BARE = {  # bare annotation -> equivalent parametrised type (items are Any positions); 4th/5th element marks the spelling
    "list": ("seq", "list", ("any",), "bare:list"), "List": ("seq", "list", ("any",), "bare:typing.List"),
    "set": ("seq", "set", ("any",), "bare:set"), "frozenset": ("seq", "frozenset", ("any",), "bare:frozenset"),
    "tuple": ("tupv", ("any",), "bare:tuple"), "dict": ("map", "dict", ("any",), ("any",), "bare:dict"),
    "Dict": ("map", "dict", ("any",), ("any",), "bare:typing.Dict"),
}


def bare_spelling(t):
    return t[-1][5:] if isinstance(t[-1], str) and t[-1].startswith("bare:") else None


def gen_bare(rng):
    return BARE[rng.choice(["list", "list", "dict", "dict", "set", "tuple", "frozenset", "List", "Dict"])]


def container_member(rng, sch, lower_classes):
    """a union member that is a container: bare or parametrised list / dict / set / tuple / frozenset, or a record"""
    q = rng.random()
    if q < 0.4:
        return gen_bare(rng)
    if q < 0.9 or not lower_classes:
        return rng.choice([
            ("seq", "list", ("atom", "int")), ("seq", "list", ("atom", "str")), ("seq", "list", ("any",)),
            ("map", "dict", ("atom", "str"), ("atom", "int")), ("map", "dict", ("atom", "str"), ("any",)),
            ("seq", "set", ("atom", "int")), ("tupv", ("atom", "int")), ("seq", "frozenset", ("atom", "str")),
            ("seq", "list", ("seq", "list", ("atom", "int"))), ("map", "dict", ("atom", "str"), ("seq", "list", ("atom", "int"))),
            ("seq", "list", ("leaf", "date")), ("seq", "deque", ("atom", "int")), ("tup", (("atom", "int"), ("atom", "str"))),
            ("map", "OrderedDict", ("atom", "str"), ("atom", "float")),
        ])
    return ("dc", rng.choice(lower_classes))


_UNION_ORDER = {}


def canon_union(members):
    """typing caches parametrised generics under an order-insensitive equality of Union arguments: once
    Tuple[Union[A, B], ...] exists in the process, Tuple[Union[B, A], ...] evaluates to the SAME object (args in the first
    order).  The schema text and the Coq term must therefore use one member order per member set, process wide."""
    key = frozenset(repr(strip_wrappers(m)) for m in members)
    return _UNION_ORDER.setdefault(key, tuple(members))


def gen_union_containers(rng, sch, lower_classes):
    """unions with container members (the decode side tells members apart by trying them in order; scalars by
    exact type): 1-2 containers + 0-2 scalars (+ None = Optional-of-union), as Union or as TypeVar constraints"""
    members = []
    for _ in range(rng.choice([1, 1, 2])):
        m = container_member(rng, sch, lower_classes)
        if WIRE_SIDE[0] and rng.random() < 0.15 and m[0] in WRAPPABLE:
            m = add_wrapper(sch, m, rng.choice(["annotated", "newtype", "alias"]))
        if m not in members:
            members.append(m)
    for a in rng.sample(["int", "str", "float", "bool", "none"], rng.choice([0, 1, 1, 2])):
        members.append(("atom", a))
    if len(members) < 2:
        members.append(("atom", rng.choice(["int", "str"])))
    if len(members) == 2 and ("atom", "none") in members:       # Union[X, None] is Optional[X], not a union
        members.append(("atom", rng.choice(["int", "str"])))
    rng.shuffle(members)
    if rng.random() < 0.2 and ("atom", "none") not in members:
        sch.tvars.append(tuple(members))
        return ("union", tuple(members), "tvar", len(sch.tvars) - 1)
    if len({repr(strip_wrappers(m)) for m in members}) != len(members):
        return ("union", tuple(members))
    return ("union", canon_union(members))


def gen_union0(rng, sch, depth, lower_classes):
    """unions whose members are told apart by the runtime class / element class of the value"""
    q = rng.random()
    if q < 0.35:
        return ("union", (("atom", "int"), ("atom", "str")))
    if q < 0.55:
        return ("union", (("seq", "list", ("atom", "int")), ("map", "dict", ("atom", "str"), ("atom", "int"))))
    if q < 0.8:
        a = ("seq", "list", ("leaf", rng.choice(["date", "decimal"])))
        b = ("seq", "list", ("atom", "int"))
        return ("union", (a, b) if rng.random() < 0.5 else (b, a))
    if q < 0.9:
        return ("union", (("atom", "int"), ("seq", "list", ("atom", "int")), ("atom", "str")))
    a = ("map", "dict", ("atom", "str"), ("leaf", "date"))
    b = ("map", "dict", ("atom", "str"), ("atom", "int"))
    return ("union", (a, b) if rng.random() < 0.5 else (b, a))


def gen_union(rng, sch, depth, lower_classes):
    u = gen_union0(rng, sch, depth, lower_classes)
    return ("union", canon_union(u[1]))


def gen_nocopy(rng):
    r = rng.random()
    if r < 0.12:
        return []
    if r < 0.3:
        return ["list", "dict"]
    if r < 0.42:
        return ["list", "dict", "set"]
    pool = list(ALL_ORIGINS)
    k = rng.randint(1, 6)
    favoured = ["list", "dict", "set", "frozenset", "deque", "OrderedDict", "Counter", "Sequence", "Mapping", "tuple"]
    out = []
    for _ in range(k):
        o = rng.choice(favoured if rng.random() < 0.7 else pool)
        if o not in out:
            out.append(o)
    return out


def gen_schema(rng, depth: int, extras: bool, want_root_base=None) -> Schema:
    sch = Schema()
    nd = rng.randint(1, 3)
    for _ in range(nd):
        sch.dialects.append(None if rng.random() < 0.15 else gen_nocopy(rng))
    ncls = rng.randint(1, 4)
    # classes are generated from the last (leaf-most) to the first (root = class 0)
    classes = [None] * ncls
    for i in reversed(range(ncls)):
        lower = list(range(i + 1, ncls))
        if i == 0:
            base = want_root_base or rng.choice(["dict", "dict", "orjson", "msgpack", "toml"])
        else:
            base = rng.choice(["dict", "dict", "plain", "orjson", "msgpack"])
        nf = rng.randint(1, 4)
        fields = []
        for j in range(nf):
            t = gen_ty(rng, sch, depth, lower, extras)
            if rng.random() < 0.05 and t[0] not in ("any", "opq", "dc", "opt", "union"):
                t = ("pass", t)
            elif (t[0] in WRAPPABLE or t[0] == "opt") and rng.random() < 0.12:
                t = add_wrapper(sch, t, "final")
            fields.append((f"f{j}", t))
        # make sure lower classes are reachable now and then
        if lower and rng.random() < 0.6:
            k = rng.choice(lower)
            wrap = rng.choice(["plain", "list", "dict", "opt"])
            t = ("dc", k)
            if wrap == "list":
                t = ("seq", "list", t)
            elif wrap == "dict":
                t = ("map", "dict", ("atom", "str"), t)
            elif wrap == "opt":
                t = ("opt", t)
            fields.append((f"f{nf}", t))
        classes[i] = {
            "name": f"C{i}", "base": base, "_defaults_pending": True,
            "sup": rng.random() < 0.4, "lazy": rng.random() < 0.2,
            "dialect": (rng.randrange(nd) if rng.random() < 0.55 else None),
            "fields": fields,
        }
    sch.classes = classes
    for c in sch.classes:
        c.pop("_defaults_pending", None)
        add_defaults(rng, c)
    return sch


SIMPLE_FIELDS = [
    ("seq", "list", ("atom", "int")), ("seq", "list", ("atom", "str")), ("map", "dict", ("atom", "str"), ("atom", "int")),
    ("seq", "set", ("atom", "str")), ("seq", "list", ("seq", "list", ("atom", "int"))),
    ("map", "dict", ("atom", "str"), ("seq", "list", ("atom", "int"))), ("seq", "list", ("leaf", "date")),
    ("opt", ("seq", "list", ("atom", "int"))), ("seq", "deque", ("atom", "int")), ("seq", "list", ("any",)),
    ("map", "OrderedDict", ("atom", "str"), ("atom", "float")), ("seq", "frozenset", ("atom", "int")),
    ("seq", "Sequence", ("atom", "int")), ("map", "Mapping", ("atom", "str"), ("atom", "int")),
    ("seq", "list", ("opt", ("atom", "int"))), ("tupv", ("seq", "list", ("atom", "int"))),
]


def gen_schema_focus(rng) -> Schema:
    """dialect interplay: a chain of 2-4 nested dataclasses (plain / mixin / format mixin), each with its own
    optional Config.dialect and ADD_DIALECT_SUPPORT, fields are containers whose copy/no-copy decision depends
    only on the effective no_copy_collections of the class they sit in"""
    sch = Schema()
    nd = rng.randint(1, 3)
    for _ in range(nd):
        r = rng.random()
        sch.dialects.append(None if r < 0.15 else rng.choice([["list", "dict"], ["list"], ["dict", "set"], [],
                                                               ["list", "dict", "set", "deque"], ["set", "frozenset"],
                                                               ["OrderedDict", "Sequence", "list"]]))
    ncls = rng.randint(2, 4)
    for i in range(ncls):
        base = rng.choice(["dict", "dict", "orjson", "msgpack", "toml"]) if i == 0 else \
            rng.choice(["plain", "plain", "dict", "orjson", "msgpack"])
        fields = [(f"f{j}", rng.choice(SIMPLE_FIELDS)) for j in range(rng.randint(1, 3))]
        fields = [(fn, add_wrapper(sch, ft, rng.choice(["final", "annotated", "newtype", "alias", "tvbound"]))
                   if ft[0] in WRAPPABLE and rng.random() < 0.15 else ft) for fn, ft in fields]
        if i + 1 < ncls:
            t = ("dc", i + 1)
            wrap = rng.choice(["plain", "plain", "list", "dict", "opt"])
            if wrap == "list":
                t = ("seq", "list", t)
            elif wrap == "dict":
                t = ("map", "dict", ("atom", "str"), t)
            elif wrap == "opt":
                t = ("opt", t)
            fields.insert(rng.randrange(len(fields) + 1), ("g", t))
        sch.classes.append({"name": f"C{i}", "base": base, "sup": rng.random() < 0.4, "lazy": rng.random() < 0.3,
                            "dialect": (rng.randrange(nd) if rng.random() < 0.5 else None), "fields": fields})
    if rng.random() < 0.35:
        # recursive schema: a back edge (to the class itself or an earlier one) behind a list / dict, written as a
        # forward reference; values are cut off with empty containers
        src = rng.randrange(ncls)
        dst = rng.randrange(src + 1)
        t = ("dc", dst, "fwd")
        t = ("seq", "list", t) if rng.random() < 0.6 else ("map", "dict", ("atom", "str"), t)
        sch.classes[src]["fields"].append(("back", t))
        for k in sch.classes:       # cyclic schemas through plain dataclasses or across different format mixins recurse
            k["base"] = "dict"      # forever at compile time (RecursionError; reported, not a sharing matter)
    for c in sch.classes:
        add_defaults(rng, c)
    return sch


# ---------------------------------------------------------------------------
# python source of a schema
# ---------------------------------------------------------------------------
def ty_src(t, sch: Schema) -> str:
    w = wrapper_of(t)
    if w:
        if w[0] == "tvbound":
            return f"TB{w[1]}"
        if w[0] == "newtype":
            return f"NW{w[1]}"
        if w[0] == "alias":
            return f"AL{w[1]}"
        inner = ty_src(t[:-1], sch)
        return {"final": "typing.Final[{}]", "annotated": "typing.Annotated[{}, 'meta']",
                "tdreq": "typing_extensions.Required[{}]", "tdnotreq": "typing_extensions.NotRequired[{}]",
                "readonly": "typing_extensions.ReadOnly[{}]"}[w[0]].format(inner)
    k = t[0]
    if k == "atom":
        return "None" if t[1] == "none" else t[1]
    if k == "leaf":
        return {"date": "datetime.date", "decimal": "decimal.Decimal", "bytearray": "bytearray"}[t[1]]
    if k == "any":
        return "typing.Any"
    if k == "opq":
        return "Opaque"
    if k == "pass":
        return ty_src(t[1], sch)
    if k == "opt":
        return f"typing.Optional[{ty_src(t[1], sch)}]"
    if bare_spelling(t):
        return bare_spelling(t)
    if k == "seq":
        return SEQ_ORIGINS[t[1]][0].format(ty_src(t[2], sch))
    if k == "tupv":
        return f"typing.Tuple[{ty_src(t[1], sch)}, ...]"
    if k == "tup":
        return "typing.Tuple[" + ", ".join(ty_src(x, sch) for x in t[1]) + "]"
    if k == "nt":
        return f"NT{t[1]}"
    if k == "td":
        return f"TD{t[1]}"
    if k == "map":
        if t[1] == "Counter":
            return MAP_ORIGINS[t[1]][0].format(ty_src(t[2], sch))
        return MAP_ORIGINS[t[1]][0].format(ty_src(t[2], sch), ty_src(t[3], sch))
    if k == "chain":
        return f"typing.ChainMap[{ty_src(t[1], sch)}, {ty_src(t[2], sch)}]"
    if k == "union":
        if len(t) > 2 and t[2] == "tvar":
            return f"TV{t[3]}"
        return "typing.Union[" + ", ".join(ty_src(x, sch) for x in t[1]) + "]"
    if k == "lit":
        return "typing.Literal[" + ", ".join(repr(x) for x in t[1]) + "]"
    if k == "dc":
        return f"'C{t[1]}'" if len(t) > 2 and t[2] == "fwd" else f"C{t[1]}"
    raise ValueError(t)


def nocopy_src(names) -> str:
    return "(" + "".join(ALL_ORIGINS[n][0] + ", " for n in names) + ")"


def schema_src(sch: Schema, top=None) -> str:
    out = [HEADER]
    for i, nc in enumerate(sch.dialects):
        out.append(f"class D{i}(Dialect):")
        out.append("    serialization_strategy = {Opaque: pass_through}")
        if nc is not None:
            out.append(f"    no_copy_collections = {nocopy_src(nc)}")
        out.append("")
    out.append("class DP(Dialect):\n    serialization_strategy = {Opaque: pass_through}\n")
    # named tuples / typed dicts may mention classes and each other: emit classes bottom-up and
    # the record types lazily before their first use
    emitted_nt, emitted_td, emitted_tv, emitted_w = set(), set(), set(), set()

    def emit_records(t):
        w = wrapper_of(t)
        if w:
            inner = t[1] if w[0] == "tvbound" else t[:-1]
            emit_records(inner)
            if len(w) > 1 and w[1] not in emitted_w:
                emitted_w.add(w[1])
                src = ty_src(inner, sch)
                if w[0] == "tvbound":
                    out.append(f"TB{w[1]} = typing.TypeVar('TB{w[1]}', bound={src})")
                elif w[0] == "newtype":
                    out.append(f"NW{w[1]} = typing.NewType('NW{w[1]}', {src})")
                else:
                    out.append(f"type AL{w[1]} = {src}")
                out.append("")
            return
        k = t[0]
        if k in ("pass", "opt", "tupv"):
            emit_records(t[1])
        elif k == "seq":
            emit_records(t[2])
        elif k == "map":
            emit_records(t[2]); emit_records(t[3])
        elif k == "chain":
            emit_records(t[2])
        elif k in ("tup", "union"):
            for x in t[1]:
                emit_records(x)
        if k == "union" and len(t) > 2 and t[2] == "tvar" and t[3] not in emitted_tv:
            emitted_tv.add(t[3])
            out.append(f"TV{t[3]} = typing.TypeVar('TV{t[3]}', " + ", ".join(ty_src(x, sch) for x in t[1]) + ")")
            out.append("")
        elif k == "nt" and t[1] not in emitted_nt:
            emitted_nt.add(t[1])
            for _, ft in sch.nts[t[1]]:
                emit_records(ft)
            out.append(f"class NT{t[1]}(typing.NamedTuple):")
            for fn, ft in sch.nts[t[1]]:
                out.append(f"    {fn}: {ty_src(ft, sch)}")
            out.append("")
        elif k == "td" and t[1] not in emitted_td:
            emitted_td.add(t[1])
            for _, ft, _ in sch.tds[t[1]]:
                emit_records(ft)
            req = [(a, b) for a, b, r in sch.tds[t[1]] if r]
            opt = [(a, b) for a, b, r in sch.tds[t[1]] if not r]
            out.append(f"class TD{t[1]}R(typing.TypedDict):")
            for fn, ft in req:
                out.append(f"    {fn}: {ty_src(ft, sch)}")
            if not req:
                out.append("    pass")
            out.append(f"class TD{t[1]}(TD{t[1]}R, total=False):")
            for fn, ft in opt:
                out.append(f"    {fn}: {ty_src(ft, sch)}")
            if not opt:
                out.append("    pass")
            out.append("")

    for c in reversed(sch.classes):
        for _, ft in c["fields"]:
            emit_records(ft)
        base = MIXINS[c["base"]]
        out.append("@dataclass")
        out.append(f"class {c['name']}" + (f"({base}):" if base else ":"))
        for fn, ft in c["fields"]:
            d = c.get("defaults", {}).get(fn)
            if ft[0] == "pass":
                out.append(f"    {fn}: {ty_src(ft, sch)} = field(metadata={{'serialization_strategy': pass_through}})")
            elif d and d.startswith("="):
                out.append(f"    {fn}: {ty_src(ft, sch)} {d}")
            elif d:
                out.append(f"    {fn}: {ty_src(ft, sch)} = field(default_factory={d})")
            else:
                out.append(f"    {fn}: {ty_src(ft, sch)}")
        out.append("    class Config(BaseConfig):")
        out.append("        serialization_strategy = {Opaque: pass_through}")
        if c["sup"]:
            out.append("        code_generation_options = [ADD_DIALECT_SUPPORT]")
        if c.get("lazy"):
            out.append("        lazy_compilation = True")      # methods compiled on first use: same sharing behaviour
        if c["dialect"] is not None:
            out.append(f"        dialect = D{c['dialect']}")
        out.append("")
    if top is not None:
        emit_records(top)
    return "\n".join(out)


def default_of(ft):
    """a default for a field of this type: default_factory for the mutable containers, a literal for atoms"""
    t = strip_wrappers(ft)
    if wrapper_of(ft) and wrapper_of(ft)[0] == "final":
        return None
    if bare_spelling(t):
        t = t[:-1]
    if t[0] == "seq" and t[1] in ("list", "set", "deque", "MutableSequence", "Sequence"):
        return {"list": "list", "set": "set", "deque": "collections.deque", "MutableSequence": "list", "Sequence": "list"}[t[1]]
    if t[0] == "map" and t[1] in ("dict", "OrderedDict", "Mapping", "MutableMapping"):
        return {"dict": "dict", "OrderedDict": "collections.OrderedDict", "Mapping": "dict", "MutableMapping": "dict"}[t[1]]
    if t[0] == "atom" and t[1] in ("int", "str"):
        return "=7" if t[1] == "int" else "='dflt'"
    return None


def add_defaults(rng, c):
    """give some fields a default / default_factory; defaulted fields go last (dataclass rule)"""
    dfl = {}
    for fn, ft in c["fields"]:
        d = default_of(ft) if ft[0] != "pass" else None
        if d and rng.random() < 0.3:
            dfl[fn] = d
    c["defaults"] = dfl
    c["fields"] = [f for f in c["fields"] if f[0] not in dfl] + [f for f in c["fields"] if f[0] in dfl]


def field_order(c):
    return c["fields"]


# ---------------------------------------------------------------------------
# values (as python source, so that a replay is self-contained)
# ---------------------------------------------------------------------------
def gen_any_src(rng, depth, jsonish: bool) -> str:
    r = rng.random()
    if depth <= 0 or r < 0.3:
        return rng.choice(["1", "'s'", "2.5" if NO_NONE[0] else "None", "2.5", "True", "[]", "{}"])
    if r < 0.65:
        return "[" + ", ".join(gen_any_src(rng, depth - 1, jsonish) for _ in range(rng.randint(0, 3))) + "]"
    if r < 0.9 or jsonish:
        return "{" + ", ".join(f"'k{i}': " + gen_any_src(rng, depth - 1, jsonish) for i in range(rng.randint(0, 3))) + "}"
    if r < 0.95:
        return "{1, 2}"
    return "Opaque([1])"


def atom_src(rng, n) -> str:
    if n == "none":
        return "None"
    if n == "int":
        return str(rng.choice([0, 1, -7, 2 ** 40, 12345]))
    if n == "str":
        return repr(rng.choice(["", "a", "xyz", "ké", "long string value"]))
    if n == "float":
        return repr(rng.choice([0.5, -1.25, 3.0, 1e10]))
    return rng.choice(["True", "False"])


def distinct_hashables(rng, t, sch, n, wire=False):
    out, seen = [], set()
    for _ in range(n * 4):
        s = gen_value_src(rng, t, sch, 1, wire=wire)
        key = s
        if t[0] == "seq" and t[1] in SET_LIKE:
            # [1, 2] and [2, 1] denote the same frozenset: distinct as values, not as text
            key = frozenset(eval(s, {"frozenset": frozenset, "set": set}))
        if key not in seen:
            seen.add(key)
            out.append(s)
        if len(out) >= n:
            break
    return out


WIRE_SIDE = [False]   # generating for the decode side
NATURAL = [False]     # inside a Union the packer dispatches on `value.__class__ is C`: use exactly the origin's class
NO_NONE = [False]     # TOML dialect omits None-valued fields: keep None out of those cases


def gen_value_src(rng, t, sch: Schema, depth: int, wire: bool = False) -> str:
    """python source of a value conforming to t; wire=True: the basic form accepted by the decoder"""
    k = t[0]
    n = lambda: rng.choice([0, 1, 1, 2, 2, 3])
    if k == "atom":
        return atom_src(rng, t[1])
    if k == "leaf":
        if t[1] == "date":
            d = rng.choice(["2020, 1, 2", "1999, 12, 31", "2024, 2, 29"])
            if wire:
                y, m, dd = [int(x) for x in d.split(",")]
                return repr(f"{y:04d}-{m:02d}-{dd:02d}")
            return f"datetime.date({d})"
        if t[1] == "decimal":
            d = rng.choice(["1.5", "0", "-3.25", "100"])
            return repr(d) if wire else f"decimal.Decimal('{d}')"
        if t[1] == "bytearray":
            return repr("YWJj\n") if wire else "bytearray(b'abc')"
    if k == "any":
        return gen_any_src(rng, 2, wire)
    if k == "opq":
        return "Opaque([1, 2])"
    if k == "pass":
        # pass_through in both directions: the decoder receives the value itself; keep it JSON-like there
        # (interned () / frozenset() would alias typed results)
        return gen_any_src(rng, 2, True) if wire else gen_value_src(rng, t[1], sch, depth, wire=False)
    if k == "opt":
        if rng.random() < 0.3 and not NO_NONE[0]:
            return "None"
        return gen_value_src(rng, t[1], sch, depth, wire)
    if k in ("seq", "map") and depth <= -2 and mentions(t, "dc"):
        return ("[]" if k == "seq" else "{}")            # recursion cut-off (only plain list / dict carry back edges)
    if k == "seq":
        o = t[1]
        if o in SET_LIKE:
            et = t[2] if t[2] != ("any",) else ("atom", rng.choice(["int", "str"]))    # Any items of a set: hashable ones
            items = distinct_hashables(rng, et, sch, n(), wire)
        else:
            cnt = rng.choice([0, 1, 1]) if t[2][0] == "dc" and len(t[2]) > 2 else n()
            items = [gen_value_src(rng, t[2], sch, depth - 1, wire) for _ in range(cnt)]
        body = ", ".join(items)
        if wire:
            return f"[{body}]"
        cls = SEQ_ORIGINS[o][3][0] if NATURAL[0] else rng.choice(SEQ_ORIGINS[o][3])
        return {"list": f"[{body}]", "tuple": f"({body}{',' if items else ''})", "set": f"set([{body}])",
                "frozenset": f"frozenset([{body}])", "deque": f"collections.deque([{body}])"}[cls]
    if k == "tupv":
        items = [gen_value_src(rng, t[1], sch, depth - 1, wire) for _ in range(n())]
        body = ", ".join(items)
        return f"[{body}]" if wire else f"({body}{',' if items else ''})"
    if k == "tup":
        items = [gen_value_src(rng, x, sch, depth - 1, wire) for x in t[1]]
        body = ", ".join(items)
        return f"[{body}]" if wire else f"({body},)"
    if k == "nt":
        items = [gen_value_src(rng, ft, sch, depth - 1, wire) for _, ft in sch.nts[t[1]]]
        body = ", ".join(items)
        return f"[{body}]" if wire else f"NT{t[1]}({body})"
    if k == "td":
        if t[1] not in sch.td_present:
            sch.td_present[t[1]] = [fn for fn, ft, req in sch.tds[t[1]] if req or rng.random() < 0.6]
        parts = []
        for fn, ft, req in sch.tds[t[1]]:
            if fn in sch.td_present[t[1]]:
                parts.append(f"{fn!r}: " + gen_value_src(rng, ft, sch, depth - 1, wire))
        return "{" + ", ".join(parts) + "}"
    if k == "map":
        o = t[1]
        kt = t[2] if t[2] != ("any",) else ("atom", "str")
        keys = distinct_hashables(rng, kt, sch, rng.choice([0, 1, 1]) if t[3][0] == "dc" and len(t[3]) > 2 else n(), wire)
        if wire:
            keys = [x for x in keys if x != "None"]
        vals = [gen_value_src(rng, t[3], sch, depth - 1, wire) for _ in keys]
        if o == "Counter":
            vals = [str(rng.randint(1, 5)) for _ in keys]
        body = "{" + ", ".join(f"{a}: {b}" for a, b in zip(keys, vals)) + "}"
        if wire:
            return body
        cls = MAP_ORIGINS[o][3][0] if NATURAL[0] else rng.choice(MAP_ORIGINS[o][3])
        if cls == "dict":
            return body
        if cls == "OrderedDict":
            return f"collections.OrderedDict({body})"
        if cls == "Counter":
            return f"collections.Counter({body})"
        if cls == "defaultdict":
            fac = {"atom": t[3][1] if t[3][0] == "atom" else "int", "seq": "list", "map": "dict"}[t[3][0]]
            return f"collections.defaultdict({fac}, {body})"
    if k == "chain":
        maps = []
        for _ in range(rng.randint(1, 2)):
            keys = distinct_hashables(rng, t[1], sch, n(), wire)
            maps.append("{" + ", ".join(f"{a}: " + gen_value_src(rng, t[2], sch, depth - 1, wire) for a in keys) + "}")
        return "[" + ", ".join(maps) + "]" if wire else "collections.ChainMap(" + ", ".join(maps) + ")"
    if k == "lit":
        return repr(rng.choice(t[1]))
    if k == "union":
        old = NATURAL[0]
        NATURAL[0] = True
        try:
            return gen_union_value(rng, t, sch, depth, wire)
        finally:
            NATURAL[0] = old
    if k == "dc":
        c = sch.classes[t[1]]
        dfl = c.get("defaults", {})
        if wire:
            if "omit" not in c:        # decided once per case and class: every input of the class lacks these keys
                c["omit"] = {fn for fn in dfl if rng.random() < 0.5}
            keep = [(fn, ft) for fn, ft in c["fields"] if fn not in c["omit"]]
        else:
            keep = [(fn, ft) for fn, ft in c["fields"] if fn not in dfl or rng.random() < 0.5]
        srcs = [gen_value_src(rng, ft, sch, depth - 1, wire) for fn, ft in keep]
        # input aliasing: now and then the very same container object sits in two fields of one instance
        for j in range(1, len(keep)):
            for i in range(j):
                ti, tj = strip_wrappers(keep[i][1]), strip_wrappers(keep[j][1])
                if (ti == tj and ti[0] in ("seq", "map") and rng.random() < 0.5
                        and not srcs[i].startswith("(_a") and not srcs[j].startswith("_a")
                        and srcs[i] not in ("None",) and keep[i][1][0] != "opt"):
                    ALIAS_N[0] += 1
                    srcs[j] = f"_a{ALIAS_N[0]}"
                    srcs[i] = f"(_a{ALIAS_N[0]} := {srcs[i]})"
                    break
        if wire:
            return "{" + ", ".join(f"{fn!r}: {src}" for (fn, ft), src in zip(keep, srcs)) + "}"
        return c["name"] + "(" + ", ".join(f"{fn}={src}" for (fn, ft), src in zip(keep, srcs)) + ")"
    raise ValueError(t)


ALIAS_N = [0]
PREFER_CONTAINER = [False]    # probes: always exercise the container member of a union


def gen_union_value(rng, t, sch, depth, wire):
    if True:
        cands = [x for x in t[1] if not (NO_NONE[0] and x == ("atom", "none"))] or list(t[1])
        m = rng.choice(cands)
        conts = [x for x in t[1] if x[0] in ("seq", "map", "tupv", "tup", "dc")]
        if conts and (PREFER_CONTAINER[0] or rng.random() < 0.5):
            m = rng.choice(conts)
        if m[0] in ("seq", "map"):
            # non-empty, so that the value conforms to exactly one member
            for _ in range(20):
                s = gen_value_src(rng, m, sch, depth - 1, wire)
                if s not in ("[]", "{}"):
                    return s
            return "[1]" if m == ("seq", "list", ("atom", "int")) else gen_value_src(rng, ("atom", "int"), sch, 0)
        return gen_value_src(rng, m, sch, depth - 1, wire)


# ---------------------------------------------------------------------------
# materialising
# ---------------------------------------------------------------------------
_mod_counter = [0]


def materialise(src: str):
    _mod_counter[0] += 1
    name = f"c18_schema_{_mod_counter[0]}"
    mod = types.ModuleType(name)
    sys.modules[name] = mod
    try:
        exec(compile(src, name, "exec", dont_inherit=True), mod.__dict__)
    except BaseException:
        sys.modules.pop(name, None)
        raise
    return mod


def drop_module(mod):
    sys.modules.pop(mod.__name__, None)


# ---------------------------------------------------------------------------
# identity graphs
# ---------------------------------------------------------------------------
import collections as _c
import dataclasses as _dc
import datetime as _dt
import decimal as _dec

MUTABLE = (list, dict, set, _c.deque, bytearray)   # + dataclass instances, Opaque (checked by name)


def is_opaque(o):
    return type(o).__name__ == "Opaque"


def is_dc(o):
    return _dc.is_dataclass(o) and not isinstance(o, type)


def has_identity(o):
    return isinstance(o, (list, tuple, set, frozenset, _c.deque, dict, bytearray, _c.ChainMap)) or is_dc(o) or is_opaque(o)


def is_mutable(o):
    return isinstance(o, MUTABLE) or isinstance(o, _c.ChainMap) or is_dc(o) or is_opaque(o)


def children(o):
    """(step, child) for every child object, in the iteration order the generated code sees"""
    if isinstance(o, _c.ChainMap):
        return [(("maps", i), m) for i, m in enumerate(o.maps)]
    if isinstance(o, dict):
        out = []
        for i, (k, v) in enumerate(o.items()):
            out.append((("key", i), k))
            out.append((("val", i), v))
        return out
    if isinstance(o, (list, tuple, set, frozenset, _c.deque)):
        return [(i, x) for i, x in enumerate(o)]
    if is_dc(o):
        return [(f.name, getattr(o, f.name)) for f in _dc.fields(o)]
    if is_opaque(o):
        return [("items", o.items)]
    return []


def walk(o, path=(), seen=None):
    """every node with identity reachable from o: (path, node); shared nodes are reported once per path"""
    if has_identity(o):
        yield path, o
    for step, ch in children(o):
        yield from walk(ch, path + (step,))


def snapshot(o):
    """values, classes and identities of the whole graph: equal snapshots = nothing was mutated or replaced"""
    if has_identity(o):
        if isinstance(o, bytearray):
            return ("ba", id(o), bytes(o))
        return (type(o).__name__, id(o), tuple((step if not isinstance(step, tuple) else step, snapshot(ch))
                                               for step, ch in children(o)))
    return (type(o).__name__, repr(o))


def mutate_fresh(res, input_ids):
    """damage every mutable container of the result that is not an input object"""
    done = set()

    def go(o):
        if id(o) in done:
            return
        done.add(id(o))
        kids = [ch for _, ch in children(o)]
        if id(o) not in input_ids:
            try:
                if isinstance(o, list):
                    o.append("MUT"); o.reverse()
                elif isinstance(o, _c.deque):
                    o.append("MUT")
                elif isinstance(o, dict) and not isinstance(o, _c.ChainMap):
                    for k in list(o.keys()):
                        o[k] = "MUT"
                    o["__mut__"] = 1
                elif isinstance(o, set):
                    o.add("MUT")
                elif isinstance(o, bytearray):
                    o.extend(b"MUT")
                elif is_dc(o):
                    for f in _dc.fields(o):
                        object.__setattr__(o, f.name, "MUT")
            except Exception:
                pass
        else:
            return          # an input object inside the result: leave it (and everything below) alone
        for ch in kids:
            go(ch)
    go(res)


# ---------------------------------------------------------------------------
# the property, straight from its text (independent of the Coq model)
# ---------------------------------------------------------------------------
class View:
    """effective settings at a position: no_copy set N, leaf types the format dialect passes through"""
    def __init__(self, N, lp, call, hsup, fmt, sch):
        self.N, self.lp, self.call, self.hsup, self.fmt, self.sch = N, lp, call, hsup, fmt, sch


def conv_free(t, vw: View, semantic: bool) -> bool:
    """do values of type t need no conversion (packing = identity)?  semantic=False gives the reading
    'the element packer is the bare name' (Optional / Literal wrap the name)"""
    k = t[0]
    if k in ("atom", "any", "opq", "pass"):
        return True
    if k == "leaf":
        return t[1] in vw.lp
    if k == "opt":
        return semantic and conv_free(t[1], vw, semantic)
    if k == "lit":
        return semantic
    if k == "seq":
        return t[1] in vw.N and conv_free(t[2], vw, semantic)
    if k == "map":
        return t[1] in vw.N and conv_free(t[2], vw, semantic) and conv_free(t[3], vw, semantic)
    if k == "union":
        return all(conv_free(x, vw, semantic) for x in t[1])
    return False    # tuples, named tuples, typed dicts, chain maps, dataclasses: always rebuilt


def conforms(t, v, sch) -> bool:
    k = t[0]
    if k == "atom":
        return v is None if t[1] == "none" else type(v).__name__ == t[1]
    if k == "leaf":
        return type(v).__name__ == {"date": "date", "decimal": "Decimal", "bytearray": "bytearray"}[t[1]]
    if k in ("any", "pass"):
        return True
    if k == "opq":
        return is_opaque(v)
    if k == "opt":
        return v is None or conforms(t[1], v, sch)
    if k == "seq":
        return type(v).__name__ in SEQ_ORIGINS[t[1]][3] and all(conforms(t[2], x, sch) for x in v)
    if k == "tupv":
        return type(v) is tuple and all(conforms(t[1], x, sch) for x in v)
    if k == "tup":
        return type(v) is tuple and len(v) == len(t[1]) and all(conforms(a, x, sch) for a, x in zip(t[1], v))
    if k == "nt":
        return type(v).__name__ == f"NT{t[1]}"
    if k == "td":
        return type(v) is dict
    if k == "map":
        return type(v).__name__ in MAP_ORIGINS[t[1]][3] and all(
            conforms(t[2], a, sch) and conforms(t[3], b, sch) for a, b in v.items())
    if k == "chain":
        return isinstance(v, _c.ChainMap)
    if k == "lit":
        return v in t[1]
    if k == "union":
        return any(conforms(x, v, sch) for x in t[1])
    if k == "dc":
        return type(v).__name__ == f"C{t[1]}"
    return False


def class_view(vw: View, ci: int, static_ci: int) -> View:
    """settings inside dataclass ci, reached from a holder with settings vw"""
    sch = vw.sch
    c = sch.classes[ci]
    fw = vw.hsup and sch.classes[static_ci]["sup"]
    call = vw.call if fw else None        # ('D', nocopy or None) or None
    N = None
    if call is not None and c["sup"] and call[1] is not None:
        N = call[1]
    elif c["dialect"] is not None and sch.dialects[c["dialect"]] is not None:
        N = sch.dialects[c["dialect"]]
    elif vw.fmt is not None:
        N = vw.fmt
    else:
        N = []
    return View(list(N), vw.lp, call, c["sup"], vw.fmt, sch)


def expected_shared(t, v, vw: View, semantic: bool, out: list, gaps: list, path=()):
    """append to `out` the input objects that the property says appear in the result by reference.
    `gaps` collects positions where the two readings of 'conversion free' differ."""
    k = t[0]
    sch = vw.sch
    if k in ("atom", "lit"):
        return
    if k == "leaf":
        if t[1] in vw.lp and has_identity(v):
            out.append(v)
        return
    if k in ("any", "opq", "pass"):
        if has_identity(v):
            out.append(v)          # excepted positions: the whole sub-graph stays the argument's
        return
    if k == "opt":
        if v is not None:
            expected_shared(t[1], v, vw, semantic, out, gaps, path)
        return
    if k == "seq":
        if t[1] in vw.N and conv_free(t[2], vw, True) and not conv_free(t[2], vw, False):
            gaps.append((path, t))
        if t[1] in vw.N and conv_free(t[2], vw, semantic):
            out.append(v)
            return
        for i, x in enumerate(v):
            expected_shared(t[2], x, vw, semantic, out, gaps, path + (i,))
        return
    if k == "tupv":
        for i, x in enumerate(v):
            expected_shared(t[1], x, vw, semantic, out, gaps, path + (i,))
        return
    if k == "tup":
        for i, (a, x) in enumerate(zip(t[1], v)):
            expected_shared(a, x, vw, semantic, out, gaps, path + (i,))
        return
    if k == "nt":
        for i, ((_, a), x) in enumerate(zip(sch.nts[t[1]], v)):
            expected_shared(a, x, vw, semantic, out, gaps, path + (i,))
        return
    if k == "td":
        for fn, a, _ in sch.tds[t[1]]:
            if fn in v:
                expected_shared(a, v[fn], vw, semantic, out, gaps, path + (fn,))
        return
    if k == "map":
        both_sem = conv_free(t[2], vw, True) and conv_free(t[3], vw, True)
        both_syn = conv_free(t[2], vw, False) and conv_free(t[3], vw, False)
        if t[1] in vw.N and both_sem and not both_syn:
            gaps.append((path, t))
        if t[1] in vw.N and (both_sem if semantic else both_syn):
            out.append(v)
            return
        for i, (a, b) in enumerate(v.items()):
            expected_shared(t[2], a, vw, semantic, out, gaps, path + (("key", i),))
            expected_shared(t[3], b, vw, semantic, out, gaps, path + (("val", i),))
        return
    if k == "chain":
        for mi, m in enumerate(v.maps):
            for i, (a, b) in enumerate(m.items()):
                expected_shared(t[2], b, vw, semantic, out, gaps, path + (("maps", mi), ("val", i)))
        return
    if k == "union":
        # the value conforms to exactly one member by construction (checked by the caller's generator)
        for m in t[1]:
            if conforms(m, v, sch):
                expected_shared(m, v, vw, semantic, out, gaps, path)
                return
        return
    if k == "dc":
        ci = int(type(v).__name__[1:])
        cv = class_view(vw, ci, t[1])
        for fn, ft in sch.classes[ci]["fields"]:
            expected_shared(ft, getattr(v, fn), cv, semantic, out, gaps, path + (fn,))
        return
    raise ValueError(t)


def mentions(t, kind) -> bool:
    if t[0] == kind:
        return True
    return any(mentions(x, kind) for x in t[1:] if isinstance(x, tuple) and x and isinstance(x[0], str)) or \
        any(mentions(y, kind) for x in t[1:] if isinstance(x, tuple) and x and isinstance(x[0], tuple) for y in x)


def union_identity_positions(t, v, vw: View, out: list, path=()):
    """positions where a union has a by-reference member with the value's exact class although the value
    belongs to a member that needs conversion (signature of the finding nocopy-union-class-check)"""
    k = t[0]
    sch = vw.sch
    if k == "opt" and v is not None:
        union_identity_positions(t[1], v, vw, out, path)
    elif k == "seq":
        for i, x in enumerate(v):
            union_identity_positions(t[2], x, vw, out, path + (i,))
    elif k == "tupv":
        for i, x in enumerate(v):
            union_identity_positions(t[1], x, vw, out, path + (i,))
    elif k == "tup":
        for i, (a, x) in enumerate(zip(t[1], v)):
            union_identity_positions(a, x, vw, out, path + (i,))
    elif k == "nt":
        for i, ((_, a), x) in enumerate(zip(sch.nts[t[1]], v)):
            union_identity_positions(a, x, vw, out, path + (i,))
    elif k == "td":
        for fn, a, _ in sch.tds[t[1]]:
            if fn in v:
                union_identity_positions(a, v[fn], vw, out, path + (fn,))
    elif k == "map":
        for i, (a, b) in enumerate(v.items()):
            union_identity_positions(t[3], b, vw, out, path + (("val", i),))
    elif k == "chain":
        for mi, m in enumerate(v.maps):
            for i, (a, b) in enumerate(m.items()):
                union_identity_positions(t[2], b, vw, out, path + (("maps", mi), ("val", i)))
    elif k == "dc":
        ci = int(type(v).__name__[1:])
        cv = class_view(vw, ci, t[1])
        for fn, ft in sch.classes[ci]["fields"]:
            union_identity_positions(ft, getattr(v, fn), cv, out, path + (fn,))
    elif k == "union":
        mine = [m for m in t[1] if conforms(m, v, sch)]
        if mine and not conv_free(mine[0], vw, True):
            for m in t[1]:
                if m is not mine[0] and m[0] in ("seq", "map") and conv_free(m, vw, False):
                    natural = (SEQ_ORIGINS if m[0] == "seq" else MAP_ORIGINS)[m[1]][3][0]
                    if type(v).__name__ == natural:
                        out.append(v)
        for m in mine[:1]:
            union_identity_positions(m, v, vw, out, path)


# ---------------------------------------------------------------------------
# entry points
# ---------------------------------------------------------------------------
def identity_encoder(d, **kw):
    return d


def fmt_settings(fmt_name):
    """(no_copy names, pass-through leaf names) of the default dialect of a format -- read from the library"""
    if fmt_name is None:
        return None, set()
    import mashumaro.mixins.orjson as mo
    import mashumaro.mixins.msgpack as mm
    import mashumaro.mixins.toml as mt
    from mashumaro.helper import pass_through
    d = {"orjson": mo.OrjsonDialect, "msgpack": mm.MessagePackDialect, "toml": mt.TOMLDialect}[fmt_name]
    rev = {}
    ns = {"collections": _c, "list": list, "dict": dict, "set": set, "frozenset": frozenset, "tuple": tuple}
    for name, (osrc, _) in ALL_ORIGINS.items():
        rev[eval(osrc, ns)] = name
    nc = getattr(d, "no_copy_collections", None)
    names = None
    if isinstance(nc, (tuple, list)):
        names = [rev[o] for o in nc if o in rev]
    lp = set()
    for typ, nm in ((_dt.date, "date"), (_dec.Decimal, "decimal"), (bytearray, "bytearray")):
        st = d.serialization_strategy.get(typ)
        if st is pass_through or (isinstance(st, dict) and st.get("serialize") is pass_through):
            lp.add(nm)
    return names, lp


# what the README promises for the format dialects (used by the oracle, not read from the library)
README_FMT = {None: (None, set()), "orjson": (["list", "dict"], {"date"}), "msgpack": (["list", "dict"], {"bytearray"}),
              "toml": (["list", "dict"], {"date"})}


def gen_entry(rng, sch: Schema, side: str):
    """pick an entry point compatible with the root class; returns a dict describing the call"""
    root = sch.classes[0]
    opts = []
    if root["base"] in ("dict", "orjson", "msgpack", "toml"):
        opts.append({"api": "mixin", "fmt": None})
        if root["sup"]:
            opts.append({"api": "mixin", "fmt": None, "call": rng.randrange(len(sch.dialects))})
            opts.append({"api": "mixin", "fmt": None, "call": rng.randrange(len(sch.dialects))})
    if root["base"] in ("orjson", "msgpack", "toml") and not (side == "unpack" and root["base"] == "toml"):
        for _ in range(3):
            opts.append({"api": "mixin", "fmt": root["base"]})
        if root["sup"]:
            opts.append({"api": "mixin", "fmt": root["base"], "call": rng.randrange(len(sch.dialects))})
    opts.append({"api": "codec", "fmt": None, "dd": rng.choice([None] + list(range(len(sch.dialects))))})
    if side == "pack":
        opts.append({"api": "codec", "fmt": "msgpack", "dd": rng.choice([None] + list(range(len(sch.dialects))))})
    return rng.choice(opts)


def entry_view(entry, sch: Schema, use_readme: bool) -> View:
    fmt_name = entry["fmt"]
    nc, lp = README_FMT[fmt_name] if use_readme else fmt_settings(fmt_name)
    fmt = nc
    if entry["api"] == "codec":
        dd = entry.get("dd")
        if dd is not None and sch.dialects[dd] is not None:
            fmt = sch.dialects[dd]            # Dialect.merge: the other's option wins when set
    call = None
    if "call" in entry:
        call = ("D", sch.dialects[entry["call"]])
    Ntop = list(fmt) if fmt is not None else []
    return View(Ntop, set(lp), call, True, fmt, sch)


def entry_call_src(entry, top_src: str, side: str) -> str:
    """python expression evaluating the call; `v` is the argument, `ident` the identity encoder/decoder"""
    if entry["api"] == "mixin":
        kw = f"dialect=D{entry['call']}" if "call" in entry else ""
        if side == "pack":
            if entry["fmt"] is None:
                return f"v.to_dict({kw})"
            meth = {"orjson": "to_jsonb", "msgpack": "to_msgpack", "toml": "to_toml"}[entry["fmt"]]
            return f"v.{meth}(ident{', ' + kw if kw else ''})"
        if entry["fmt"] is None:
            return f"C0.from_dict(v{', ' + kw if kw else ''})"
        meth = {"orjson": "from_json", "msgpack": "from_msgpack", "toml": "from_toml"}[entry["fmt"]]
        return f"C0.{meth}(v, ident{', ' + kw if kw else ''})"
    dd = entry.get("dd")
    ddsrc = f"D{dd}" if dd is not None else "DP"
    if side == "pack":
        if entry["fmt"] == "msgpack":
            return f"__import__('mashumaro.codecs.msgpack').codecs.msgpack.MessagePackEncoder({top_src}, default_dialect={ddsrc}, post_encoder_func=ident1).encode(v)"
        return f"__import__('mashumaro.codecs.basic').codecs.basic.BasicEncoder({top_src}, default_dialect={ddsrc}).encode(v)"
    return f"__import__('mashumaro.codecs.basic').codecs.basic.BasicDecoder({top_src}, default_dialect={ddsrc}).decode(v)"


# ---------------------------------------------------------------------------
# encoding for Coq
# ---------------------------------------------------------------------------
N0 = 2000


def coq_origin_list(names):
    return "[" + "; ".join(ALL_ORIGINS[n][1] for n in names) + "]"


def coq_dialect(nc):
    return "None" if nc is None else f"(Some {coq_origin_list(nc)})"


def coq_ty(t, sch) -> str:
    w = wrapper_of(t)
    if w:
        inner = coq_ty(t[:-1], sch)
        return inner if w[0] == "tvbound" else f"(TWrap {inner})"      # a bound TypeVar is handled as Optional[bound]
    k = t[0]
    if k == "atom":
        return "TNone" if t[1] == "none" else "TAtom"
    if k == "leaf":
        return {"date": "(TLeaf LDate)", "decimal": "(TLeaf LDecimal)"}[t[1]]
    if k == "any":
        return "TAny"
    if k in ("opq", "pass"):
        return "TPass"
    if k == "opt":
        return f"(TOpt {coq_ty(t[1], sch)})"
    if k == "seq":
        return f"(TSeq {SEQ_ORIGINS[t[1]][2]} {coq_ty(t[2], sch)})"
    if k == "tupv":
        return f"(TTupV {coq_ty(t[1], sch)})"
    if k == "tup":
        return "(TTup [" + "; ".join(coq_ty(x, sch) for x in t[1]) + "])"
    if k == "nt":
        return "(TTup [" + "; ".join(coq_ty(ft, sch) for _, ft in sch.nts[t[1]]) + "])"
    if k == "map":
        return f"(TMap {MAP_ORIGINS[t[1]][2]} {coq_ty(t[2], sch)} {coq_ty(t[3], sch)})"
    if k == "dc":
        return f"(TDC {t[1]})"
    if k == "lit":
        if all(isinstance(x, (int, str)) and not isinstance(x, bool) for x in t[1]):
            return "TLit"
        raise ValueError("literal outside the model")
    if k == "td":
        present = sch.td_present.get(t[1], [fn for fn, _, _ in sch.tds[t[1]]])
        return "(TRec [" + "; ".join(coq_ty(ft, sch) for fn, ft, _ in sch.tds[t[1]] if fn in present) + "])"
    if k == "chain":
        return f"(TComp KChainMap (TRMap {coq_ty(t[1], sch)} {coq_ty(t[2], sch)}))"
    if k == "union":
        return coq_union(t, sch) if WIRE_SIDE_COQ[0] else coq_union_pack(t, sch)
    raise ValueError(t)


WIRE_SIDE_COQ = [False]     # which of the two union models (decode: by wire class; encode: pack_union dispatch) applies


def coq_union_pack(t, sch) -> str:
    """encode side: Share.v models pack_union (identity members by exact class, then try each packer).  Outside
    the model (ValueError -> oracle only): wrapped / NewType / Any / Optional members (compared by objects that
    are never a class), two dataclass members (codec path calls the first one's packer statically on any
    instance), a fixed tuple next to a mapping with int keys (x[0] works on such a mapping)."""
    ms = list(t[1])
    if any(wrapper_of(m) for m in ms):
        raise ValueError("wrapped union member")
    kinds = [m[0] for m in ms]
    for m in ms:
        if m[0] not in ("atom", "leaf", "opq", "seq", "tupv", "tup", "nt", "map", "dc"):
            raise ValueError("union member outside the model")
        if m[0] == "leaf" and m[1] not in ("date", "decimal"):
            raise ValueError("union member outside the model")
    if kinds.count("dc") > 1:
        raise ValueError("two dataclass members")
    if any(k in ("tup", "nt") for k in kinds) and any(m[0] == "map" and strip_wrappers(m[2]) in (("atom", "int"), ("any",))
                                                      for m in ms):
        raise ValueError("fixed tuple next to an int-keyed mapping")
    return "(TUnion [" + "; ".join(coq_ty(m, sch) for m in ms) + "])"


def coq_union(t, sch) -> str:
    """Share.v tells union members apart by the class of the wire value.  That is what the library does when
    (i) members are scalars (exact type match) and containers (tried in order), (ii) at most one member takes a
    list and at most one a mapping, (iii) no member that would iterate a str / a mapping's keys comes before the
    str / mapping member.  Other unions stay oracle-only (ValueError -> the case is not sent to Coq)."""
    ms = [m for m in t[1] if m != ("atom", "none")]
    plain = [strip_wrappers(m) for m in ms]
    has_none = len(ms) != len(t[1])
    seqs, maps = [], []
    for i, m in enumerate(plain):
        if m[0] == "atom":
            continue
        if m[0] in ("seq", "tupv", "tup", "nt"):
            seqs.append(i)
        elif m[0] in ("map", "dc"):
            maps.append(i)
        else:
            raise ValueError("union member outside the model")
    if len(seqs) > 1 or len(maps) > 1 or not ms:
        raise ValueError("union members not told apart by class")
    for i, m in enumerate(plain):
        if m == ("atom", "str") and seqs and seqs[0] < i:
            raise ValueError("a str would be iterated by an earlier member")
    if seqs and maps and seqs[0] < maps[0]:
        raise ValueError("a mapping would be iterated by an earlier member")
    return "(TUnion [" + "; ".join(coq_ty(m, sch) for m in t[1]) + "])"


DEFAULT_KIND = {"list": "(DFresh KList)", "set": "(DFresh KSet)", "collections.deque": "(DFresh KDeque)", "dict": "(DFresh KDict)",
                "collections.OrderedDict": "(DFresh KOrderedDict)"}


def coq_field(c, fn, ft, sch) -> str:
    """decode side: a defaulted field whose key is absent from the inputs of this case is TAbsent <default>"""
    if WIRE_SIDE_COQ[0] and fn in c.get("omit", ()):
        d = c["defaults"][fn]
        return "(TAbsent DAtom)" if d.startswith("=") else f"(TAbsent {DEFAULT_KIND[d]})"
    return coq_ty(ft, sch)


def coq_classes(sch: Schema) -> str:
    items = []
    for c in sch.classes:
        nc = sch.dialects[c["dialect"]] if c["dialect"] is not None else None
        fields = "; ".join(coq_field(c, fn, ft, sch) for fn, ft in field_order(c))
        items.append(f"{{| c_sup := {vlib.coq_bool(c['sup'])}; c_nc := {coq_dialect(nc)}; c_fields := [{fields}] |}}")
    return "[" + "; ".join(items) + "]"


def coq_value(o, labels: dict, fresh_marker=None, wire_class=None) -> str:
    """labelled value; labels: id -> nat for input objects; other objects get fresh_marker"""
    if o is None:
        return "VNone"
    if isinstance(o, (bool, int, float, str)):
        return "(VAtom 0)"
    if isinstance(o, (_dt.date, _dec.Decimal)):
        return "(VLeaf 0)"
    lab = labels.get(id(o), fresh_marker)
    if lab is None:
        raise ValueError("unlabelled object")
    if is_opaque(o):
        return f"(VOpq {lab})"
    if is_dc(o):
        ci = int(type(o).__name__[1:])
        fs = "; ".join(coq_value(getattr(o, f.name), labels, fresh_marker) for f in _dc.fields(o))
        return f"(VObj {ci} {lab} [{fs}])"
    if isinstance(o, _c.ChainMap):
        return f"(VSeq KChainMap {lab} [" + "; ".join(coq_value(m, labels, fresh_marker) for m in o.maps) + "])"
    if isinstance(o, dict):
        kind = KIND_OF_CLASS[type(o).__name__]
        kvs = "; ".join(f"({coq_value(a, labels, fresh_marker)}, {coq_value(b, labels, fresh_marker)})" for a, b in o.items())
        return f"(VMap {kind} {lab} [{kvs}])"
    if isinstance(o, (list, tuple, set, frozenset, _c.deque)):
        kind = "KTuple" if isinstance(o, tuple) else KIND_OF_CLASS[type(o).__name__]
        xs = "; ".join(coq_value(x, labels, fresh_marker) for x in o)
        return f"(VSeq {kind} {lab} [{xs}])"
    raise ValueError(f"cannot encode {type(o)}")


def label_input(v) -> dict:
    labels = {}
    for _, o in walk(v):
        if id(o) not in labels:
            labels[id(o)] = len(labels)
    return labels


def wire_in_field_order(w, t, sch):
    """the decoder model takes the items of a dataclass mapping in field order"""
    return w


# ---------------------------------------------------------------------------
# one case = schema + entry + value;  evaluation on the real library
# ---------------------------------------------------------------------------
class Case:
    pass


def build_case(rng, side: str, depth: int, extras: bool):
    focus = rng.random() < 0.35
    WIRE_SIDE[0] = side == "unpack"
    sch = gen_schema_focus(rng) if focus else gen_schema(rng, depth, extras)
    entry = gen_entry(rng, sch, side)
    if focus and entry["api"] == "codec" and rng.random() < 0.75:
        entry = gen_entry(rng, sch, side)
    recursive = any(fn == "back" for k in sch.classes for fn, _ in k["fields"])
    while recursive and (entry["api"] == "codec" or entry["fmt"] is not None):
        # codecs cannot be built for self-referencing dataclasses at all (AttributeError: 'attrs_...' has no attribute
        # '__mashumaro_to_dict__' at construction; reported, not a sharing matter): recursive schemas go through the mixin
        entry = gen_entry(rng, sch, side)
    if entry["api"] == "codec":
        # codecs take any top-level type
        if rng.random() < 0.5:
            top = ("dc", 0)
        else:
            top = gen_ty(rng, sch, depth, list(range(len(sch.classes))), extras)
            if top[0] == "pass":
                top = top[1]
    else:
        top = ("dc", 0)
    toml = entry["fmt"] == "toml"
    c = Case()
    c.side, c.sch, c.entry, c.top, c.focus = side, sch, entry, top, focus
    c.src = schema_src(sch, top)
    c.src_types = repr((top, [k["fields"] for k in sch.classes], sch.nts, sch.tds))
    NO_NONE[0] = toml
    try:
        c.value_src = gen_value_src(rng, top, sch, depth, wire=(side == "unpack"))
    finally:
        NO_NONE[0] = False
    c.call_src = entry_call_src(entry, ty_src(top, sch), side)
    return c


def fixed_cases(rng, side: str):
    """always-run probes: every format mixin and codec on one class holding every simple container field"""
    out = []
    plans = [("dict", {"api": "mixin", "fmt": None}), ("orjson", {"api": "mixin", "fmt": "orjson"}),
             ("msgpack", {"api": "mixin", "fmt": "msgpack"}), ("orjson", {"api": "mixin", "fmt": None}),
             ("dict", {"api": "codec", "fmt": None, "dd": None})]
    if side == "pack":
        plans += [("toml", {"api": "mixin", "fmt": "toml"}), ("dict", {"api": "codec", "fmt": "msgpack", "dd": None})]
    for base, entry in plans:
        sch = Schema()
        sch.dialects = [["list", "dict"]]
        sch.classes = [{"name": "C0", "base": base, "sup": False, "dialect": None,
                        "fields": [(f"f{j}", t) for j, t in enumerate(SIMPLE_FIELDS)]}]
        c = Case()
        c.side, c.sch, c.entry, c.top, c.focus = side, sch, entry, ("dc", 0), True
        c.src = schema_src(sch, c.top)
        NO_NONE[0] = entry["fmt"] == "toml"
        try:
            c.value_src = gen_value_src(rng, c.top, sch, 2, wire=(side == "unpack"))
        finally:
            NO_NONE[0] = False
        c.call_src = entry_call_src(entry, ty_src(c.top, sch), side)
        out.append(c)
    return out


def union_probe_fields():
    """systematic sweep: every container kind (bare and parametrised) as a union member at every position kind"""
    conts = [BARE["list"], BARE["dict"], BARE["set"], BARE["tuple"], BARE["frozenset"],
             ("seq", "list", ("atom", "int")), ("map", "dict", ("atom", "str"), ("atom", "int")),
             ("seq", "set", ("atom", "int")), ("tupv", ("atom", "int")), ("seq", "list", ("any",)),
             ("map", "dict", ("atom", "str"), ("any",))]
    fields, tvars = [], []
    for c in conts:
        fields.append(("union", canon_union((("atom", "int"), c))))                                    # field
        fields.append(("seq", "list", ("union", canon_union((("atom", "str"), c)))))                   # list item
        fields.append(("map", "dict", ("atom", "str"), ("union", canon_union((("atom", "str"), ("atom", "float"), c)))))   # dict value
        fields.append(("tup", (("union", canon_union((c, ("atom", "int")))), ("atom", "str"))))        # tuple item
        fields.append(("union", canon_union((("atom", "int"), c, ("atom", "none")))))                  # Optional of union
        tvars.append((("atom", "str"), c))
        fields.append(("union", tvars[-1], "tvar", len(tvars) - 1))                                    # TypeVar constraints
    return fields, tvars


def union_probe_cases(rng, side: str):
    fields, tvars = union_probe_fields()
    out = []
    chunk = 11
    for k in range(0, len(fields), chunk):
        for entry in ({"api": "mixin", "fmt": None}, {"api": "codec", "fmt": None, "dd": None}):
            sch = Schema()
            sch.dialects = [["list", "dict"]]
            sch.tvars = tvars
            sch.model = UNION_IN_MODEL
            sch.classes = [{"name": "C0", "base": "dict", "sup": False, "dialect": None,
                            "fields": [(f"f{j}", t) for j, t in enumerate(fields[k:k + chunk])]}]
            c = Case()
            c.side, c.sch, c.entry, c.top, c.focus = side, sch, entry, ("dc", 0), True
            c.src = schema_src(sch, c.top)
            PREFER_CONTAINER[0] = True
            try:
                c.value_src = gen_value_src(rng, c.top, sch, 2, wire=(side == "unpack"))
            finally:
                PREFER_CONTAINER[0] = False
            c.call_src = entry_call_src(entry, ty_src(c.top, sch), side)
            out.append(c)
    return out


WRAP_CONTS = [
    ("seq", "list", ("atom", "int")), ("map", "dict", ("atom", "str"), ("atom", "int")), ("seq", "set", ("atom", "str")),
    ("map", "dict", ("atom", "str"), ("seq", "list", ("atom", "int"))), ("seq", "list", ("seq", "list", ("atom", "int"))),
    BARE["list"], BARE["dict"], ("seq", "deque", ("atom", "int")), ("tupv", ("seq", "list", ("atom", "int"))),
    ("seq", "list", ("leaf", "date")), ("seq", "frozenset", ("atom", "int")), ("map", "OrderedDict", ("atom", "str"), ("atom", "float")),
    ("seq", "list", ("any",)),
]


def wrapper_probe_cases(rng, side: str):
    """systematic sweep: every unwrap-and-redispatch wrapper around every container kind, at field level and (where
    the wrapper is legal there) as list item / dict value; default dialect and a no_copy dialect; mixin and codec"""
    out = []
    plans = [(None, {"api": "mixin", "fmt": None}), (None, {"api": "codec", "fmt": None, "dd": None})]
    if side == "pack":
        plans.append((0, {"api": "mixin", "fmt": None}))
    for kind in ("final", "annotated", "newtype", "alias", "tvbound", "td"):
        for dialect, entry in plans:
            sch = Schema()
            sch.dialects = [["list", "dict", "set"]]
            fields = []
            if kind == "td":
                items = []
                for j, ct in enumerate(WRAP_CONTS):
                    req = j % 3 != 2
                    items.append((f"k{j}", add_wrapper(sch, ct, ["readonly", "tdreq" if req else "tdnotreq", "tdreq" if req else "tdnotreq"][j % 3]), req))
                items.sort(key=lambda f: not f[2])
                sch.tds.append(items)
                fields.append(("f0", ("td", 0)))
            else:
                for j, ct in enumerate(WRAP_CONTS):
                    fields.append((f"f{j}", add_wrapper(sch, ct, kind)))
                    if kind != "tvbound" and j % 3 == 0:
                        fields.append((f"o{j}", add_wrapper(sch, ("opt", ct), kind)))
                    if kind != "final":
                        inner = add_wrapper(sch, ct, kind)
                        fields.append((f"g{j}", ("seq", "list", inner) if j % 2 else ("map", "dict", ("atom", "str"), inner)))
            sch.classes = [{"name": "C0", "base": "dict", "sup": False, "dialect": dialect, "fields": fields}]
            c = Case()
            c.side, c.sch, c.entry, c.top, c.focus = side, sch, entry, ("dc", 0), True
            c.src = schema_src(sch, c.top)
            c.src_types = repr(fields) + repr(sch.tds)
            c.value_src = gen_value_src(rng, c.top, sch, 2, wire=(side == "unpack"))
            c.call_src = entry_call_src(entry, ty_src(c.top, sch), side)
            out.append(c)
    return out


def dialect_probe_cases(rng, side: str):
    """systematic sweep of dialect nesting: an outer class with / without Config.dialect (no_copy list, dict, set) and
    ADD_DIALECT_SUPPORT around a nested plain / mixin dataclass with / without its own (empty) dialect; containers whose
    copy decision depends only on the effective no_copy_collections of the class they sit in"""
    inner_fields = [("seq", "list", ("atom", "int")), ("map", "dict", ("atom", "str"), ("atom", "int")),
                    ("seq", "set", ("atom", "str")), ("seq", "list", ("seq", "list", ("atom", "int")))]
    out = []
    for outer_d, outer_sup, inner_base, inner_d, inner_sup, call in [
            (0, False, "plain", None, False, None), (0, False, "dict", 1, False, None), (None, False, "plain", 0, False, None),
            (1, True, "plain", None, True, 0), (None, True, "dict", None, False, 0), (0, True, "dict", None, True, 1)]:
        sch = Schema()
        sch.dialects = [["list", "dict", "set"], []]
        sch.classes = [
            {"name": "C0", "base": "dict", "sup": outer_sup, "dialect": outer_d,
             "fields": [("f0", ("seq", "list", ("atom", "int"))), ("g", ("dc", 1)), ("h", ("seq", "list", ("dc", 1)))]},
            {"name": "C1", "base": inner_base, "sup": inner_sup, "dialect": inner_d,
             "fields": [(f"f{j}", t) for j, t in enumerate(inner_fields)]}]
        entry = {"api": "mixin", "fmt": None}
        if call is not None:
            entry["call"] = call
        c = Case()
        c.side, c.sch, c.entry, c.top, c.focus = side, sch, entry, ("dc", 0), True
        c.src = schema_src(sch, c.top)
        c.src_types = ""
        c.value_src = gen_value_src(rng, c.top, sch, 2, wire=(side == "unpack"))
        c.call_src = entry_call_src(entry, ty_src(c.top, sch), side)
        out.append(c)
    return out


def run_case(c: Case):
    """executes the call on the real library; fills c.v (argument), c.res / c.exc, snapshots"""
    mod = materialise(c.src)
    c.mod = mod
    ns = mod.__dict__
    ns["ident"] = identity_encoder
    ns["ident1"] = lambda d: d
    c.v = eval(c.value_src, ns)
    c.before = snapshot(c.v)
    c.deep_before = copy.deepcopy(c.v)
    ns["v"] = c.v
    c.exc = None
    try:
        c.res = eval(c.call_src, ns)
    except Exception as e:       # noqa
        c.res = None
        c.exc = f"{type(e).__name__}: {e}"
    c.res2 = None
    if c.exc is None:
        try:
            c.res2 = eval(c.call_src, ns)
        except Exception:       # noqa
            c.res2 = None
    c.after = snapshot(c.v)
    return c


def replay_dict(c: Case, observed, expected):
    return {"entry": "c18", "side": c.side, "schema_source": c.src, "value_source": c.value_src,
            "call_source": c.call_src, "observed": observed, "expected": expected,
            "how": "exec(schema_source); v = eval(value_source); r = eval(call_source) with ident = lambda d, **kw: d"}


def describe(objs, c: Case):
    paths = {}
    for p, o in walk(c.v):
        paths.setdefault(id(o), p)
    return sorted(str(paths.get(id(o), "?")) for o in objs)


def oracle(ctx, c: Case):
    """the property itself on the real library.  Returns True when a failure was recorded."""
    sch = c.sch
    sig_base = {"side": c.side}
    if c.exc is not None:
        # the generator only produces conforming inputs: a crash is outside C18 (C05/C02) unless the
        # argument was changed on the way
        if c.after != c.before:
            ctx.fail(f"{c.side}: call raised {c.exc} and left the argument modified",
                     replay_dict(c, "argument changed", "argument unchanged"), {**sig_base, "kind": "mutated-input"})
            return True
        ctx.hist("outcome", "raised:" + c.exc.split(":")[0])
        return False
    failed = False
    if c.after != c.before or not (c.deep_before == c.v):
        ctx.fail(f"{c.side}: the argument was mutated by {c.call_src}",
                 replay_dict(c, "argument changed", "argument unchanged"), {**sig_base, "kind": "mutated-input"})
        return True       # the argument can no longer be trusted to conform: stop here
    vw = entry_view(c.entry, sch, use_readme=True)
    exp_roots, gaps = [], []
    if c.side == "pack":
        expected_shared(c.top, c.v, vw, SEMANTIC_CONV_FREE, exp_roots, gaps)
    else:
        expected_any(c.top, c.v, sch, exp_roots)
    exp_ids = {}
    for r in exp_roots:
        for _, o in walk(r):
            if is_mutable(o):
                exp_ids[id(o)] = o
    in_ids = {id(o): o for _, o in walk(c.v) if is_mutable(o)}
    res_ids = {id(o): o for _, o in walk(c.res) if is_mutable(o)}
    shared = {i: o for i, o in res_ids.items() if i in in_ids}
    extra = [o for i, o in shared.items() if i not in exp_ids]
    missing = [o for i, o in exp_ids.items() if i not in shared]
    if extra:
        cause = "other"
        if c.side == "pack":
            upos = []
            union_identity_positions(c.top, c.v, vw, upos)
            uids = set()
            for r in upos:
                for _, o in walk(r):
                    uids.add(id(o))
            if upos and all(id(o) in uids for o in extra):
                cause = "union-identity-class-check"
        ctx.fail(f"{c.side}: result shares mutable container(s) {describe(extra, c)[:4]} of the argument where the "
                 f"property forbids it ({c.call_src})",
                 replay_dict(c, {"shared_paths": describe(shared.values(), c)}, {"shared_paths": describe(exp_ids.values(), c)}),
                 {**sig_base, "kind": "extra-share", "cause": cause})
        failed = True
    if missing and c.side == "pack":
        # the only tolerated reason: Optional[...] elements (generator compares expression strings)
        cause = "other"
        if c.side == "pack" and gaps:
            syn_roots, _g = [], []
            expected_shared(c.top, c.v, vw, False, syn_roots, _g)
            syn_ids = set()
            for r in syn_roots:
                for _, o in walk(r):
                    if is_mutable(o):
                        syn_ids.add(id(o))
            if all(id(o) not in syn_ids for o in missing):
                cause = "literal-element" if any(mentions(g[1], "lit") for g in gaps) else "optional-element"
        ctx.fail(f"{c.side}: container(s) {describe(missing, c)[:4]} listed in no_copy_collections with conversion-free "
                 f"elements are copied, not passed by reference ({c.call_src})",
                 replay_dict(c, {"shared_paths": describe(shared.values(), c)}, {"shared_paths": describe(exp_ids.values(), c)}),
                 {**sig_base, "kind": "missed-share", "cause": cause})
        failed = True
    # no aliasing inside the result: a new mutable container occurs at one place only (otherwise mutating one
    # part of the result would silently change another)
    seen_fresh = {}
    for pth, o in walk(c.res):
        if is_mutable(o) and id(o) not in in_ids:
            if id(o) in seen_fresh and seen_fresh[id(o)] != pth and not failed:
                ctx.fail(f"{c.side}: the result of {c.call_src} holds the same new {type(o).__name__} at {seen_fresh[id(o)]} and {pth}",
                         replay_dict(c, "new container aliased inside the result", "each new container occurs once"),
                         {**sig_base, "kind": "result-internal-alias"})
                failed = True
                break
            seen_fresh.setdefault(id(o), pth)
    # two calls: their results may have nothing mutable in common but objects of the argument (a shared default
    # object or a cached container would be hidden sharing between results)
    if c.res2 is not None:
        ids2 = {id(o) for _, o in walk(c.res2) if is_mutable(o)}
        common = [o for i, o in res_ids.items() if i in ids2 and i not in in_ids]
        if common:
            ctx.fail(f"{c.side}: two calls of {c.call_src} return structures that share mutable container(s) "
                     f"{[type(o).__name__ for o in common][:4]} that are not the argument's",
                     replay_dict(c, "results of two calls share new containers", "disjoint apart from the argument's objects"),
                     {**sig_base, "kind": "results-share"})
            failed = True
    # behavioural double check: damaging what is new in the result must not reach the argument
    keep = {id(o) for _, o in walk(c.v)}
    mutate_fresh(c.res, keep)
    if snapshot(c.v) != c.before and not failed:
        ctx.fail(f"{c.side}: mutating the fresh part of the result changed the argument ({c.call_src})",
                 replay_dict(c, "argument changed after mutating the result", "argument unchanged"),
                 {**sig_base, "kind": "extra-share", "cause": "behavioural"})
        failed = True
    return failed


def expected_any(t, w, sch: Schema, out: list):
    """decode side: only Any / pass_through positions may hold input objects"""
    k = t[0]
    if k in ("any", "opq", "pass"):
        if has_identity(w):
            out.append(w)
    elif k == "opt":
        if w is not None:
            expected_any(t[1], w, sch, out)
    elif k == "seq":
        for x in w:
            expected_any(t[2], x, sch, out)
    elif k == "tupv":
        for x in w:
            expected_any(t[1], x, sch, out)
    elif k == "tup":
        for a, x in zip(t[1], w):
            expected_any(a, x, sch, out)
    elif k == "nt":
        for (_, a), x in zip(sch.nts[t[1]], w):
            expected_any(a, x, sch, out)
    elif k == "td":
        for fn, a, _ in sch.tds[t[1]]:
            if fn in w:
                expected_any(a, w[fn], sch, out)
    elif k == "map":
        for a, b in w.items():
            expected_any(t[3], b, sch, out)
    elif k == "chain":
        for m in w:
            for a, b in m.items():
                expected_any(t[2], b, sch, out)
    elif k == "union":
        # whichever member decodes the value: only that member's Any / pass_through positions may keep input
        # objects -- the union of them over the members the value fits is the upper bound the property allows
        for m in t[1]:
            if wire_fits(m, w, sch):
                expected_any(m, w, sch, out)
    elif k == "dc":
        for fn, ft in sch.classes[t[1]]["fields"]:
            if fn in w:
                expected_any(ft, w[fn], sch, out)


def wire_fits(t, w, sch: Schema) -> bool:
    """could a decoder of type t accept the wire value w (shape only)"""
    k = t[0]
    if k == "atom":
        return w is None if t[1] == "none" else isinstance(w, (bool, int, float, str))
    if k == "leaf":
        return isinstance(w, str)
    if k in ("any", "opq", "pass"):
        return True
    if k == "opt":
        return w is None or wire_fits(t[1], w, sch)
    if k == "seq":
        return isinstance(w, list) and all(wire_fits(t[2], x, sch) for x in w)
    if k == "tupv":
        return isinstance(w, list) and all(wire_fits(t[1], x, sch) for x in w)
    if k == "tup":
        return isinstance(w, list) and len(w) == len(t[1]) and all(wire_fits(a, x, sch) for a, x in zip(t[1], w))
    if k == "nt":
        return isinstance(w, list) and len(w) == len(sch.nts[t[1]]) and all(
            wire_fits(a, x, sch) for (_, a), x in zip(sch.nts[t[1]], w))
    if k == "td":
        return isinstance(w, dict)
    if k == "map":
        return isinstance(w, dict) and all(wire_fits(t[3], b, sch) for b in w.values())
    if k == "chain":
        return isinstance(w, list)
    if k == "lit":
        return w in t[1]
    if k == "union":
        return any(wire_fits(m, w, sch) for m in t[1])
    if k == "dc":
        c = sch.classes[t[1]]
        return isinstance(w, dict) and all((fn in w and wire_fits(ft, w[fn], sch)) or (fn not in w and fn in c.get("defaults", {}))
                                           for fn, ft in c["fields"])
    return False


# ---------------------------------------------------------------------------
# correspondence with the Coq model
# ---------------------------------------------------------------------------
def coq_case(c: Case, allow_exc: bool = False) -> str | None:
    """a term of type pcase (ShareWire.v) or None when the case is outside the Coq grammar"""
    sch = c.sch
    if not sch.model or (c.exc is not None and not allow_exc):
        return None
    vw = entry_view(c.entry, sch, use_readme=False)
    WIRE_SIDE_COQ[0] = c.side == "unpack"
    labels = label_input(c.v)
    if len(labels) >= N0:
        return None
    try:
        call = "None" if vw.call is None else f"(Some {coq_dialect(vw.call[1])})"
        lp = "[" + "; ".join({"date": "LDate", "decimal": "LDecimal"}[x] for x in sorted(vw.lp) if x in ("date", "decimal")) + "]"
        if c.side == "unpack":
            v_in = coq_wire(c.v, c.top, sch, labels)
        else:
            v_in = coq_value(c.v, labels)
        return ("{| pc_classes := " + coq_classes(sch) + "; pc_fmt := " + coq_dialect(vw.fmt) + "; pc_lp := " + lp +
                "; pc_call := " + call + "; pc_ntop := " + coq_origin_list(vw.N) + "; pc_ty := " + coq_ty(c.top, sch) +
                "; pc_in := " + v_in + "; pc_out := " + ("VNone" if c.exc is not None else coq_value(c.res, labels, N0)) + " |}")
    except (ValueError, KeyError):
        return None


def coq_wire(w, t, sch, labels) -> str:
    """the wire argument; mappings at dataclass positions are listed in field order"""
    k = t[0]
    if k == "dc" and isinstance(w, dict):
        lab = labels[id(w)]
        c = sch.classes[t[1]]
        kvs = "; ".join(f"((VAtom 0), {'VNone' if fn in c.get('omit', ()) and fn not in w else coq_wire(w[fn], ft, sch, labels)})"
                        for fn, ft in field_order(c))
        return f"(VMap KDict {lab} [{kvs}])"
    if k == "opt" and w is not None:
        return coq_wire(w, t[1], sch, labels)
    if k == "union":
        for m in t[1]:
            if wire_fits(m, w, sch):
                return coq_wire(w, m, sch, labels)
    if k == "seq" and isinstance(w, list):
        return f"(VSeq KList {labels[id(w)]} [" + "; ".join(coq_wire(x, t[2], sch, labels) for x in w) + "])"
    if k == "tupv" and isinstance(w, list):
        return f"(VSeq KList {labels[id(w)]} [" + "; ".join(coq_wire(x, t[1], sch, labels) for x in w) + "])"
    if k == "tup" and isinstance(w, list):
        return f"(VSeq KList {labels[id(w)]} [" + "; ".join(coq_wire(x, a, sch, labels) for a, x in zip(t[1], w)) + "])"
    if k == "nt" and isinstance(w, list):
        return f"(VSeq KList {labels[id(w)]} [" + "; ".join(
            coq_wire(x, a, sch, labels) for (_, a), x in zip(sch.nts[t[1]], w)) + "])"
    if k == "map" and isinstance(w, dict):
        return f"(VMap KDict {labels[id(w)]} [" + "; ".join(
            f"({coq_wire(a, t[2], sch, labels)}, {coq_wire(b, t[3], sch, labels)})" for a, b in w.items()) + "])"
    return coq_value(w, labels)


def in_model_grammar(c: Case) -> bool:
    """schema and top type are inside the Coq grammar (where Share.v predicts a result for every conforming input)"""
    if not c.sch.model:
        return False
    WIRE_SIDE_COQ[0] = c.side == "unpack"
    try:
        coq_ty(c.top, c.sch)
        coq_classes(c.sch)
        return True
    except (ValueError, KeyError):
        return False


class Pending:
    """collects the oracle's failures of one side until the Coq flags of the cases are known"""
    def __init__(self, ctx):
        self.ctx, self.items, self.cur = ctx, [], None

    def fail(self, what, replay, signature):
        self.items.append((self.cur, what, replay, signature))

    def hist(self, *a, **k):
        self.ctx.hist(*a, **k)


def has_union(c: Case) -> bool:
    return mentions(c.top, "union") or any(mentions(ft, "union") for k in c.sch.classes for _, ft in k["fields"])


def kernel_format_table():
    """{format: (sorted Coq origins of no_copy_collections | None, sorted pass-through leaf names)} parsed from coq/gen/K118d.v"""
    import os
    import re
    try:
        txt = open(os.path.join(vlib.COQ, "gen", "K118d.v")).read()
    except OSError:
        return None
    leafname = {"LDate": "date", "LDecimal": "decimal", "LBytearray": "bytearray"}
    out = {}
    for f in ("orjson", "msgpack", "toml"):
        m = re.search(r"Definition fmt_nocopy_%s : dialect := (None|Some \[([^\]]*)\])\." % f, txt)
        l = re.search(r"Definition fmt_leafpass_%s \(k: leafk\) : bool := (.*)\." % f, txt)
        if not m or not l:
            return None
        nc = None if m.group(1) == "None" else sorted(x.strip() for x in m.group(2).split(";") if x.strip())
        body = l.group(1)
        lp = sorted(leafname.values()) if body == "true" else sorted(leafname[x] for x in re.findall(r"L[A-Za-z]+", body))
        out[f] = (nc, lp)
    return out


def theorems_retry(ctx, target_vo: str, names, kernels=None):
    """ctx.theorems, except that a build which died WITHOUT a Coq error (coqc killed by the OOM killer, make timed out on
    a loaded machine) is repeated: only a file Coq rejected, a failed kernel translation, or three such deaths in a row fail
    the obligations"""
    import time
    v = target_vo[:-1] if target_vo.endswith(".vo") else target_vo
    br = None
    for attempt in range(3):
        br = ctx.build([target_vo], force=[v], timeout=1800)
        if br.ok or br.failed_file is not None:
            break
        ctx.hist("infrastructure", f"build of {target_vo} died without a Coq error - repeated")
        time.sleep(20 * (attempt + 1))
    kr = ctx.kernel_report
    kfail = [k for k in (kernels or []) if k in kr and not kr[k]["ok"]]
    for n in names:
        if br.ok and not kfail:
            ctx.obligation(n, True, "accepted by coqc")
        else:
            why = br.error or ""
            if kfail:
                why = "translator failed closed for " + ",".join(f"{k}: {kr[k]['error']}" for k in kfail) + " | " + why
            ctx.obligation(n, False, why)
    if not br.ok or kfail:
        ctx.not_shown(f"theorems of {target_vo}", (br.error or "") + (" kernels: " + str(kfail) if kfail else ""))
    return br


def bad_idx_retry(ctx, name, imports, gen_imports, defs, cases, ok_fun, case_type, shard=150, needs=None, jobs=4, tries=6):
    """Evaluate `bad_idx ok_fun cases` in shards like vlib.coq_bad_idx, but with at most [jobs] coqc at a time (a dozen
    parallel evaluations of 150 cases take ~10 GB) and robust against a loaded machine: a shard whose coqc died WITHOUT a Coq
    error (killed by the OOM killer / timed out: empty or truncated output) is evaluated again, alone, up to [tries] times.
    Returns (bad indices, log) or (None, log) when Coq rejected a file or a shard kept dying."""
    import time
    br = vlib.coq_make(["theories/Wire.vo", "theories/PyK.vo"] + (needs or []), timeout=1800)
    for attempt in range(2):
        if br.ok or br.failed_file is not None:
            break
        time.sleep(30)
        br = vlib.coq_make(["theories/Wire.vo", "theories/PyK.vo"] + (needs or []), timeout=1800)
    if not br.ok:
        return None, "Error: model does not build: " + (br.error or "")
    files = []
    for si in range(0, max(len(cases), 1), shard):
        chunk = cases[si:si + shard]
        txt = vlib.CASE_HEADER.format(imports=imports, gen_imports=gen_imports) + defs + "\n"
        txt += f"Definition cases : list ({case_type}) :=\n  [" + ";\n   ".join(chunk) + "].\n"
        txt += f"Eval vm_compute in (bad_idx ({ok_fun}) cases).\n"
        files.append((f"{name}_{si // shard}", txt))
    res = vlib.coq_eval_many(files, timeout=900, jobs=jobs)
    bad = []
    for n, (ok, out) in enumerate(res):
        attempt = 0
        while not ok and "Error:" not in out and attempt < tries:
            attempt += 1
            if ctx is not None:
                ctx.hist("infrastructure", "case evaluation died without a Coq error - repeated")
            time.sleep(10 * attempt)
            ok, out = vlib.coq_eval(files[n][0], files[n][1], timeout=900)
        if not ok:
            return None, out[-3000:]
        idx = vlib.parse_nat_list(out)
        if idx is None:
            return None, "unparsable coq output: " + out[-1500:]
        bad.extend(n * shard + k for k in idx)
    return bad, ""


RUN_TAG = [""]     # case files of this run: unique per process, so that two runs in one worktree never share a file


def coq_flag(name, terms, fun):
    """indices of the cases on which the boolean Coq function `fun : pcase -> bool` is true (None: Coq failed)"""
    if not terms:
        return []
    name = name + RUN_TAG[0]
    idx, log = bad_idx_retry(None, name, "Share ShareWire", "", "", terms, f"fun c => negb ({fun} c)", "pcase", shard=150,
                                needs=["theories/ShareWire.vo"])
    return idx


def correspondence(ctx, cases, side):
    name = f"c18_{side}{RUN_TAG[0]}"
    terms, idx = [], []
    for i, c in enumerate(cases):
        t = c.coq if hasattr(c, "coq") else coq_case(c)
        if t is not None:
            terms.append(t)
            idx.append(i)
    okf = "ok_pack" if side == "pack" else "ok_unpack"
    bad, log = bad_idx_retry(ctx, name, "Share ShareWire", "", "", terms, okf, "pcase", shard=150,
                                needs=["theories/ShareWire.vo"])
    cname = f"sharing-model-vs-library ({side})"
    if bad is None:
        ctx.correspondence(cname, len(terms), -1, log)
        ctx.not_shown("correspondence " + cname, log)
        return None
    det = ""
    if bad:
        c = cases[idx[bad[0]]]
        det = json.dumps({"first": {"value": c.value_src, "call": c.call_src, "schema": c.src[-1500:]}, "n_bad": len(bad)})
    ctx.correspondence(cname, len(terms), len(bad), det)
    if bad:
        ctx.not_shown("correspondence " + cname, det)
    return [cases[idx[b]] for b in bad]


# ---------------------------------------------------------------------------
def hist_case(ctx, c: Case):
    ctx.hist("entry", f"{c.side}:{c.entry['api']}:{c.entry['fmt']}:{'call' if 'call' in c.entry else 'nocall'}")
    ctx.hist("top_kind", c.top[0])
    ctx.hist("n_classes", str(len(c.sch.classes)))
    ctx.hist("in_coq_grammar", str(c.sch.model))
    if ":= " in c.value_src:
        ctx.hist("input_aliasing", c.side)
    for k in ("final", "annotated", "newtype", "alias", "tvbound", "readonly", "tdreq", "tdnotreq"):
        if f"w:{k}" in getattr(c, "src_types", ""):
            ctx.hist("wrappers", f"{c.side}:{k}")
    ctx.hist("generator", "dialect-interplay" if getattr(c, "focus", False) else "general")
    if any(fn == "back" for k in c.sch.classes for fn, _ in k["fields"]):
        ctx.hist("recursive_schema", c.side)


def shape_key(c: Case):
    return (c.side, c.call_src, c.src[len(HEADER):], c.value_src)


def run(ctx: vlib.Ctx):
    import glob
    import os
    RUN_TAG[0] = f"_s{ctx.seed}_p{os.getpid()}"
    try:
        run0(ctx)
    finally:
        for f in glob.glob(os.path.join(vlib.COQ, "cases", f"*c18_*{RUN_TAG[0]}_*")) + \
                glob.glob(os.path.join(vlib.COQ, "cases", f".*c18_*{RUN_TAG[0]}_*")):
            try:
                os.remove(f)
            except OSError:
                pass


def run0(ctx: vlib.Ctx):
    ctx.coverage["rule"] = (
        "a case = generated schema (1-4 dataclasses incl. format mixins, per-class Config.dialect / ADD_DIALECT_SUPPORT, "
        "types over atoms, date/Decimal, Any, pass_through, Optional, 8 sequence origins, tuples, named tuples, 6 mapping "
        "origins, nested dataclasses, TypedDict, ChainMap, Literal, unions, wrappers; oracle-only: bytearray, unions the "
        "encode-side union model does not take) x no_copy sets x entry "
        "point (to_dict, to_dict(dialect=), to_jsonb/to_msgpack/to_toml with identity encoder, Basic/MessagePack codecs with "
        "default_dialect; from_* likewise) x generated conforming value; distinct = distinct (schema, entry, value)")
    ctx.trusted.append("Share.v run_pack/run_unpack: label model of CPython object identity (a comprehension, .copy(), "
                       "dict/list/tuple display build a new object; a bare name evaluates to the same object) - modelled, "
                       "compared with the library on every run")
    ctx.trusted.append("harness/props/c18.py: materialisation of schemas/values as Python source and as Coq terms, id()-based labelling")
    ctx.assumptions.append("user code (hooks, serialize= callables, SerializableType) is outside the property; "
                           "Any / pass_through positions are excepted in both directions (DESIGN 3.1 note ii)")
    ctx.assumptions.append("mutation-freedom is established on the real library by snapshot/deep-equal comparison over "
                           "generated inputs; in the Coq model it holds by construction (pure functions)")
    # (T) the copy / by-reference / comprehension decision of the model is the function translated from
    # pack.py:pack_collection on this run (kernel K15)
    theorems_retry(ctx, "props/C18_kernel.vo", ["C18_seq_decision_is_source", "C18_map_decision_is_source"], kernels=["K15"])
    # (T) decode side: the container the model's unpackers build per origin is the template the if/elif chain of
    # unpack.py:unpack_collection selects (kernel K118a, translated on this run); no branch of that chain, of
    # unpack_tuple, unpack_named_tuple or unpack_typed_dict returns its input or a shallow copy of it
    ctx.trusted.append("K118a / K118b origin_facts: issubclass / `is` of each modelled origin class against the classes named in "
                       "unpack_collection, evaluated by CPython when the kernel is generated")
    theorems_retry(ctx, "props/C18_unpack_kernel.vo", UNPACK_KERNEL_THEOREMS, kernels=["K118a"])
    # (T) encode side: which origins are submitted to K15's rule, which are always rebuilt (ChainMap, tuples, named
    # tuples, TypedDict) is the if/elif chain of pack.py:pack_collection (kernel K118b); K118b + K15 = Share.cp
    theorems_retry(ctx, "props/C18_pack_kernel.vo", PACK_KERNEL_THEOREMS, kernels=["K15", "K118b"])
    # (T) the effective no_copy_collections (Share.effN: call dialect > Config.dialect > default dialect > ()) is
    # CodeBuilder.get_dialect_or_config_option (K3) as called at every site that fills ValueSpec.no_copy_collections;
    # the sites that fill / read it (K118c): packer roots fill, pack_collection's rule reads, nothing on the decode side
    theorems_retry(ctx, "props/C18_nocopy_threading.vo", ["C18_effective_nocopy_is_source", "C18_nocopy_sites", "C18_item_specs_inherit"], kernels=["K3", "K118c"])
    # (T) the default dialects of the format mixins as read from the source (K118d) are what the README promises;
    # the values the correspondence cases carry (read from the imported library) must be the kernel's
    theorems_retry(ctx, "props/C18_format_dialects.vo", ["C18_format_dialects_as_documented", "C18_format_default_decisions"],
                 kernels=["K118d"])
    # (T) the call dialect reaches a nested class exactly when the nested call names `dialect=dialect`
    # (CodeBuilder.get_pack_method_flags, C08's kernel K8): Share.cp's ICall flag
    theorems_retry(ctx, "props/C18_forwarding.vo", ["C18_dialect_forwarding_is_source"], kernels=["K8"])
    # (T) Optional / bound TypeVar / NewType / Final / Required / Literal / Any cases of Share.cp are the shapes pack.py emits
    # (K118e); an Optional item is always guarded (could_be_none=True in every item spec): never the bare name
    theorems_retry(ctx, "props/C18_wrappers.vo", ["C18_pack_wrappers_are_source", "C18_optional_item_rebuilt",
                                                  "C18_item_code_bare_name"], kernels=["K118e"])
    kd = kernel_format_table()
    live = {f: fmt_settings(f) for f in ("orjson", "msgpack", "toml")}
    live = {f: (sorted(ALL_ORIGINS[n][1] for n in (nc or [])) if nc is not None else None, sorted(lp)) for f, (nc, lp) in live.items()}
    ctx.obligation("format dialects: imported library == kernel K118d", kd == live, json.dumps({"kernel": kd, "library": live})[:600])
    if kd != live:
        ctx.not_shown("format dialects read from the library differ from kernel K118d", json.dumps({"kernel": kd, "library": live})[:600])
    br = theorems_retry(ctx, "props/C18_share.vo", THEOREMS)
    if not ctx.quick() and br.ok:
        # second opinion: the independent checker re-validates the compiled library and reports every axiom
        mods = ["VerifProps.C18_share", "VerifProps.C18_kernel", "VerifProps.C18_unpack_kernel", "VerifProps.C18_pack_kernel",
                "VerifProps.C18_nocopy_threading", "VerifProps.C18_format_dialects", "VerifProps.C18_forwarding",
                "VerifProps.C18_wrappers"]
        for attempt in range(3):
            rc, out, secs = vlib.run(["timeout", "1500", "coqchk", "-silent", "-o", "-Q", "theories", "Verif", "-Q", "gen",
                                      "VerifGen", "-Q", "props", "VerifProps"] + mods, cwd=vlib.COQ, timeout=1530)
            if rc == 0 or "rror" in out:        # a checker that died without saying why (OOM kill) is run again
                break
        import re as _re
        m = _re.search(r"\* Axioms:\s*(.*?)\n\s*\n", out, _re.S)
        axioms = " ".join(m.group(1).split()) if m else "?"
        ok = rc == 0 and axioms == "<none>"
        ctx.obligation("coqchk -o VerifProps.C18_*", ok, f"rc={rc} Axioms: {axioms} ({secs:.0f}s) modules: {' '.join(mods)}")
        ctx.trusted.append(f"coqchk -o on the eight props/C18_*.vo and their cone (incl. the generated kernels): Axioms: {axioms}")
        if not ok:
            ctx.not_shown("coqchk", out[-1500:])

    n_pack = ctx.budget(420, 3600)
    n_unpack = ctx.budget(180, 1200)
    for side, n in (("pack", n_pack), ("unpack", n_unpack)):
        cases = []
        crashes = []       # the model is total on conforming inputs of its grammar: the library must be, too
        pend = Pending(ctx)
        attempts = 0
        import random as _random
        prng = _random.Random(ctx.seed * 7919 + (18 if side == "pack" else 81))      # own stream: the main one is unchanged
        probes = fixed_cases(ctx.rng, side) + union_probe_cases(ctx.rng, side) + wrapper_probe_cases(ctx.rng, side)
        extra = dialect_probe_cases(prng, side)
        probes = extra + probes
        n = n + len(extra)          # the randomly generated part of the run stays what it was
        while len(cases) < n and attempts < n * 3:
            attempts += 1
            extras = ctx.rng.random() < 0.3
            depth = ctx.rng.choice([1, 2, 2, 3, 3] if ctx.quick() else [1, 2, 3, 3, 4])
            c = None
            try:
                c = probes.pop() if probes else build_case(ctx.rng, side, depth, extras)
                run_case(c)
            except Exception as e:      # the library rejects the schema at class creation
                ctx.hist("outcome", "schema-rejected:" + type(e).__name__)
                if c is not None and in_model_grammar(c):
                    crashes.append((c, f"class creation / codec construction raised {type(e).__name__}: {e}"))
                continue
            if c.exc is not None and in_model_grammar(c):
                crashes.append((c, "call raised " + c.exc))
                c.coq_exc = coq_case(c, allow_exc=True)
            c.coq = coq_case(c)         # before the oracle damages the result
            if mentions(c.top, "union") or any(mentions(ft, "union") for k in c.sch.classes for _, ft in k["fields"]):
                ctx.hist("union_cases", f"{side}:" + ("model+oracle" if c.coq else "oracle-only"))
            cases.append(c)
            hist_case(ctx, c)
            ctx.count(shape_key(c))
            pend.cur = c
            oracle(pend, c)
            if len(ctx.coverage["samples"]) < 4 and c.exc is None:
                ctx.sample({"side": side, "call": c.call_src, "value": c.value_src[:200],
                            "fields_root": [f"{fn}: {ty_src(ft, c.sch)}" for fn, ft in c.sch.classes[0]["fields"]]})
        bad = correspondence(ctx, cases, side)
        # Coq-side domain flags: udet (does the union dispatch land on the member the value belongs to?) and
        # accepts (does the modelled packer raise on this value?)
        udet_false = set()
        if side == "pack":
            ucases = [c for c in cases if c.coq and has_union(c)]
            ok_idx = coq_flag("c18_udet", [c.coq for c in ucases], "pack_udet")
            if ok_idx is None:
                ctx.not_shown("domain flags udet", "coq evaluation failed")
            else:
                udet_false = {id(c) for i, c in enumerate(ucases) if i not in set(ok_idx)}
                ctx.hist("union_pack_domain", "udet", len(ucases) - len(udet_false))
                ctx.hist("union_pack_domain", "outside-udet", len(udet_false))
            raised = [(c, why) for c, why in crashes if getattr(c, "coq_exc", None)]
            acc_idx = coq_flag("c18_accepts", [c.coq_exc for c, _ in raised], "pack_accepts")
            if acc_idx is not None:
                agree = {id(raised[i][0]) for i in range(len(raised)) if i not in set(acc_idx)}
                for c, why in raised:
                    if id(c) in agree:
                        ctx.hist("outcome", "union-method-raises-in-model-and-library")
                crashes = [(c, why) for c, why in crashes if id(c) not in agree]
        badset = {id(c) for c in (bad or [])}
        for c, what, rp, sig in pend.items:
            if (sig.get("kind") in ("extra-share", "missed-share") and sig.get("cause") == "other" and side == "pack"
                    and c is not None and id(c) in udet_false and id(c) not in badset):
                # the faithful model predicts exactly this result and says the union dispatch leaves the member the
                # value belongs to (C18_share_union_refuted)
                sig = {**sig, "cause": "union-dispatch"}
            ctx.fail(what, rp, sig)
        cname = f"library-total-where-model-is ({side})"
        det = ""
        if crashes:
            c0, why = crashes[0]
            det = json.dumps({"n_raised": len(crashes), "first": {"why": why[:400], "call": c0.call_src,
                                                                   "value": c0.value_src[:600], "schema": c0.src[len(HEADER):][-1500:]}})
        ctx.correspondence(cname, len(crashes), len(crashes), det)     # the agreeing cases are counted in the row above
        if crashes:
            ctx.not_shown("correspondence " + cname, det)
        for c in cases:
            drop_module(c.mod)


PACK_KERNEL_THEOREMS = ["C18_pack_source_byref_only_by_rule", "C18_pack_structs_rebuild", "C18_pack_seq_is_source",
                        "C18_pack_map_is_source", "C18_pack_chainmap_is_source", "C18_pack_tuple_is_source",
                        "C18_pack_compiler_is_source", "C18_share_source"]
UNPACK_KERNEL_THEOREMS = ["C18_unpack_source_rebuilds", "C18_unpack_structs_rebuild", "C18_unpack_seq_is_source",
                          "C18_unpack_map_is_source", "C18_unpack_tuple_is_source", "C18_unpack_compiler_is_source",
                          "C18_decode_fresh_source"]
THEOREMS = ["C18_fresh_distinct", "C18_decode_fresh_distinct", "C18_labels_arg_or_supply", "C18_two_calls_disjoint", "C18_decode_two_calls_disjoint", "C18_wrapper_transparent", "C18_share", "C18_share_unionfree", "C18_share_union_refuted",
            "C18_decode_dialect_independent", "C18_decode_fresh", "C18_default_fresh", "C18_decode_all_fresh", "C18_decode_union_fresh", "C18_no_mutation",
            "C18_decode_no_mutation", "C18_share_partial", "C18_share_full_refuted"]


def replay(rep: dict) -> int:
    c = Case()
    c.src, c.value_src, c.call_src, c.side = rep["schema_source"], rep["value_source"], rep["call_source"], rep["side"]
    run_case(c)
    print("call:", c.call_src)
    print("argument:", c.value_src)
    if c.exc:
        print("raised:", c.exc)
    in_ids = {id(o): p for p, o in walk(c.v) if is_mutable(o)}
    shared = sorted({str(in_ids[id(o)]) for _, o in walk(c.res) if id(o) in in_ids}) if c.exc is None else []
    print("shared mutable containers (paths in the argument):", shared)
    print("expected:", rep.get("expected"))
    mutated = c.after != c.before
    print("argument mutated:", mutated)
    exp = rep.get("expected")
    if isinstance(exp, dict) and "shared_paths" in exp:
        if sorted(exp["shared_paths"]) != shared or mutated:
            print("REPRODUCED")
            return 1
        print("not reproduced")
        return 0
    if mutated:
        print("REPRODUCED")
        return 1
    if c.exc is None:
        keep = {id(o) for _, o in walk(c.v)}
        mutate_fresh(c.res, keep)
        if snapshot(c.v) != c.before:
            print("REPRODUCED (argument changed after mutating the result)")
            return 1
    print("not reproduced")
    return 0
