"""C05, type level: correspondence of ErrsTy.ue (error-faithful typed unpackers) with the real
BasicDecoder(T).decode / from_dict on generated schemas of the TyModel grammar: exception CLASS, the
attributes of InvalidFieldValue / MissingField, the __context__ of a root InvalidFieldValue, and the value
on success.  Plus an independent compositional oracle: a container / NamedTuple / TypedDict / dataclass
result is made of the results of its element decoders on the corresponding input items (never a default
for an item that is present)."""
from __future__ import annotations

import copy
import dataclasses
import enum
from base64 import decodebytes

from harness import gen, tycorr, vlib
from harness.gen import T, coq_pv, coq_sty, coq_senv
from harness.vlib import coq_str, coq_z

SIMPLE = {"ValueError": "XValueError", "TypeError": "XTypeError", "AttributeError": "XAttributeError",
          "KeyError": "XKeyError", "IndexError": "XIndexError"}

HEADER = """From Coq Require Import List String Ascii ZArith Bool.
From Verif Require Import Wire Core CaseLib TyModel Errs ErrsTy.
Import ListNotations.
Open Scope string_scope.
Open Scope Z_scope.
Inductive ecase := EC (E: senv) (CF: string -> tcfg) (t: sty) (d: pv) (e: res pv) (cx: option (option exn)).
"""

OK_FUN = """Definition ok (c: ecase) : bool :=
  match c with
  | EC E CF t d e cx =>
      (match ue E Q CF d (cu true t), e with
       | Ok r, Ok x => pv_same r x
       | Exn a, Exn b => exn_eqb a b
       | _, _ => false end) &&
      (match cx with
       | None => true
       | Some want => match t with
                      | SData c => match sfind E KData c with
                                   | Some k => opt_exn_eqb (ue_cause E Q CF k d) want
                                   | None => false end
                      | _ => true end
       end)
  end.
"""


def exn_term(e: BaseException, where=None) -> str:
    """where: the mapping the exception is about (orders the unordered ExtraKeysError.extra_keys like the model does)"""
    n, mod = type(e).__name__, type(e).__module__
    if mod == "builtins" and n in SIMPLE:
        return SIMPLE[n]
    if mod == "mashumaro.exceptions":
        if n == "InvalidFieldValue":
            return f"(XInvalidFieldValue {coq_str(str(e.field_name))} {coq_pv(e.field_value)} {coq_str(e.holder_class.__name__)})"
        if n == "MissingField":
            return f"(XMissingField {coq_str(str(e.field_name))} {coq_str(e.holder_class.__name__)})"
        if n == "ExtraKeysError":
            order = list(where.keys()) if isinstance(where, dict) else []
            if not all(any(type(o) is type(k) and o == k for o in order) for k in e.extra_keys):
                # raised by a class nested below a root that is not a dataclass (no InvalidFieldValue wraps it): the mapping it
                # is about is the first one inside the input that holds all these keys
                def holders(x):
                    if isinstance(x, dict):
                        yield x
                        for v in x.values():
                            yield from holders(v)
                    elif isinstance(x, (list, tuple)):
                        for v in x:
                            yield from holders(v)
                order = next((list(m.keys()) for m in holders(where)
                              if all(any(type(o) is type(k) and o == k for o in m) for k in e.extra_keys)), order)
            ks = sorted(e.extra_keys, key=lambda k: next((i for i, o in enumerate(order) if type(o) is type(k) and o == k), len(order)))
            return f"(XExtraKeys [{'; '.join(coq_pv(k) for k in ks)}] {coq_str(e.target_type.__name__)})"
    return f"(XOther {coq_str(n)})"


def res_term(fn, *a, render=None):
    try:
        r = fn(*a)
    except Exception as e:  # noqa: BLE001
        return f"(Exn {exn_term(e, a[0] if a else None)})", e, None
    return f"(Ok {render(r) if render else coq_pv(r)})", None, r


class ETables:
    """finite tables of the stdlib primitives WITH the exception class they raise"""

    def __init__(self):
        self.parse, self.enum_of, self.b64, self.to_int, self.to_float, self.to_str = {}, {}, {}, {}, {}, {}
        self._leafdec = {}

    def leaf_decoder(self, kind, ns):
        if kind not in self._leafdec:
            from mashumaro.codecs.basic import BasicDecoder
            self._leafdec[kind] = BasicDecoder(eval(gen.LEAF_PY[kind], {"datetime": __import__("datetime"),
                                                                          "uuid": __import__("uuid"), "decimal": __import__("decimal"),
                                                                          "fractions": __import__("fractions"),
                                                                          "ipaddress": __import__("ipaddress"),
                                                                          "pathlib": __import__("pathlib"), "re": __import__("re")})).decode
        return self._leafdec[kind]

    def add_input(self, d, t: T, fam, ns):
        leaves, enums, _ = tycorr.reach(t, fam)
        for x in tycorr.subvalues(d):
            hk = coq_pv(x)
            for k in leaves:
                if (k, hk) not in self.parse:
                    self.parse[(k, hk)] = res_term(self.leaf_decoder(k, ns), copy.deepcopy(x),
                                                   render=lambda r: coq_str(gen.leaf_text(r)))[0]
            for e in enums:
                if (e, hk) not in self.enum_of:
                    self.enum_of[(e, hk)] = res_term(ns[e], x, render=lambda r: coq_str(r.name))[0]
            if hk not in self.b64:
                self.b64[hk] = res_term(lambda y: decodebytes(y.encode()), x, render=coq_str)[0]
            if type(x) not in (int, bool) and hk not in self.to_int:
                self.to_int[hk] = res_term(int, x, render=coq_z)[0]
            if type(x) is not float and hk not in self.to_float:
                self.to_float[hk] = res_term(float, x, render=gen.coq_fl)[0]
            if type(x) is not str and hk not in self.to_str:
                self.to_str[hk] = res_term(str, x, render=coq_str)[0]

    def coq(self) -> str:
        out = []
        out.append("Definition t_parse : list ((string * pv) * res string) := [" +
                   "; ".join(f"(({coq_str(k)}, {hk}), {v})" for (k, hk), v in self.parse.items()) + "].")
        out.append("Definition t_enum : list ((string * pv) * res string) := [" +
                   "; ".join(f"(({coq_str(k)}, {hk}), {v})" for (k, hk), v in self.enum_of.items()) + "].")
        out.append("Definition t_b64 : list (pv * res string) := [" + "; ".join(f"({hk}, {v})" for hk, v in self.b64.items()) + "].")
        out.append("Definition t_int : list (pv * res Z) := [" + "; ".join(f"({hk}, {v})" for hk, v in self.to_int.items()) + "].")
        out.append("Definition t_float : list (pv * res fl) := [" + "; ".join(f"({hk}, {v})" for hk, v in self.to_float.items()) + "].")
        out.append("Definition t_str : list (pv * res string) := [" + "; ".join(f"({hk}, {v})" for hk, v in self.to_str.items()) + "].")
        out.append("Definition Q : eprims := {| q_parse := tbl2 t_parse; q_enum_of := tbl2 t_enum; q_b64dec := tbl1 t_b64; "
                   "q_int := tbl1 t_int; q_float := tbl1 t_float; q_str := tbl1 t_str |}.")
        return "\n".join(out)


WHOLE_JUNK = [None, 7, 2.5, True, "", "1", "12", "abc", [], [1], ["a", 2], {}, {"k0": 1}, {0: 1, 1: "a"}, [[1]], [None]]


def make_cases(rng, n_schemas: int, per_schema: int, depth: int = 3):
    from mashumaro.codecs.basic import BasicDecoder, BasicEncoder
    cases = []
    n_indexed = max(4, n_schemas // 3)
    for si in range(n_schemas + n_indexed):
        indexed = si >= n_schemas
        sg = gen.SchemaGen(rng, gen.GenOpts(depth=depth, coq_only=True, named=True, mixin=rng.random() < 0.4,
                                            configs=rng.random() < 0.5))
        sg.tag = f"e{si}_"
        c = rng.random()
        if indexed:
            t = tycorr.indexed_schema(sg, rng)
        elif c < 0.45:
            t = sg.dataclass_type(depth - 1)
        elif c < 0.57:
            t = sg.namedtuple_type(depth - 1)
        elif c < 0.67:
            t = sg.typeddict_type(depth - 1)
        else:
            t = sg.gen_type()
        if t.kind == "none":
            t = gen.T("opt", [gen.T("int")])
        fam = sg.fam
        ns = fam.build()
        ty = gen.resolve(t, ns)
        enc, dec = BasicEncoder(ty), BasicDecoder(ty)
        vg = gen.ValueGen(rng, fam)
        mixin_top = t.kind == "data" and fam.get(t.name).mixin
        for vi in range(1 if indexed else per_schema):
            try:
                w = enc.encode(vg.value(t))
            except Exception:  # noqa: BLE001 - serialization is not this property's subject
                continue
            if indexed:
                inputs = [w] + tycorr.truncations(w)
            else:
                inputs = [w] + [tycorr.corrupt(w, rng) for _ in range(4)] + tycorr.null_variants(w, rng, 2)
                inputs += [copy.deepcopy(rng.choice(WHOLE_JUNK))]
                if isinstance(w, dict) and w:
                    # several bad fields at once / a missing key: the first one in declaration order decides
                    d2 = copy.deepcopy(w)
                    for k in rng.sample(list(d2), min(len(d2), rng.choice([1, 2, 3]))):
                        if rng.random() < 0.35:
                            del d2[k]
                        else:
                            d2[k] = copy.deepcopy(rng.choice(WHOLE_JUNK))
                    inputs.append(d2)
                    spec = fam.get(t.name) if t.kind == "data" else None
                    if spec is not None and spec.config:
                        # Config dimension: the field name where the alias is expected, an unexpected key, both
                        d3 = {}
                        for k, v in copy.deepcopy(w).items():
                            f = next((x for x in spec.fields if (x.alias or x.name) == k), None)
                            d3[f.name if (f is not None and rng.random() < 0.5) else k] = v
                        inputs.append(d3)
                        d4 = copy.deepcopy(rng.choice([w, d3]))
                        d4[rng.choice(["zz", "f0 ", "alias", 7])] = 1
                        if rng.random() < 0.5:
                            d4[rng.choice(["yy", ""])] = None
                        inputs.append(d4)
            for d in inputs:
                entry = ("from_dict", ns[t.name].from_dict) if (mixin_top and rng.random() < 0.5) else ("BasicDecoder.decode", dec.decode)
                cases.append(dict(fam=fam, t=t, ns=ns, ty=ty, input=copy.deepcopy(d), entry=entry))
    return cases


def observe(c):
    d = copy.deepcopy(c["input"])
    term, exc, r = res_term(c["entry"][1], d)
    cx = None
    if c["t"].kind == "data":
        if exc is not None and type(exc).__name__ == "InvalidFieldValue":
            cx = (f"(Some (Some {exn_term(exc.__context__, exc.field_value)}))" if exc.__context__ is not None
                  else "(Some None)")
        elif exc is not None and type(exc).__name__ in ("MissingField", "ExtraKeysError"):
            cx = "(Some None)"
    return term, exc, r, (cx or "None"), d


def eval_robust(named, timeout=900, jobs=6):
    """coq_eval_many; a shard that died without any output (killed by its wall-clock timeout on a loaded machine) is
    evaluated once more, alone, with a four times larger budget: a slow machine must not look like a failed comparison"""
    res = vlib.coq_eval_many(named, timeout=timeout, jobs=jobs)
    for i, (ok, out) in enumerate(res):
        if not ok and not out.strip():
            res[i] = vlib.coq_eval_many([named[i]], timeout=4 * timeout, jobs=1)[0]
            if not res[i][0] and not res[i][1].strip():
                res[i] = (False, f"coqc produced no output for {named[i][0]} within {4 * timeout} s (killed by timeout)")
    return res


def emit(cases, shard=120):
    files = []
    for si in range(0, len(cases), shard):
        chunk = cases[si:si + shard]
        tb = ETables()
        envs, env_defs, lines = {}, [], []

        def cf_term(fam):
            out = "no_cfg"
            for x in fam.classes:
                if x.kind == "data" and (x.config or any(f.alias for f in x.fields)):
                    al = "; ".join(f"({coq_str(f.name)}, {coq_str(f.alias)})" for f in x.fields if f.alias is not None)
                    cfg = (f"{{| tc_forbid := {'true' if x.config.get('forbid_extra_keys') else 'false'}; "
                           f"tc_nba := {'true' if x.config.get('allow_deserialization_not_by_alias') else 'false'}; "
                           f"tc_alias := [{al}] |}}")
                    out = f"(if String.eqb c {coq_str(x.name)} then {cfg} else {out})"
            return f"(fun c : string => {out})"
        for c in chunk:
            fam, t, ns = c["fam"], c["t"], c["ns"]
            if id(fam) not in envs:
                envs[id(fam)] = f"E_{len(envs)}"
                env_defs.append(f"Definition {envs[id(fam)]} : senv := "
                                f"{coq_senv(fam, [x.name for x in fam.classes if x.kind in ('data', 'nt', 'td')])}.")
                env_defs.append(f"Definition CF_{envs[id(fam)]} : string -> tcfg := {cf_term(fam)}.")
            tb.add_input(c["input"], t, fam, ns)
            lines.append(f"EC {envs[id(fam)]} CF_{envs[id(fam)]} {coq_sty(t)} {coq_pv(c['input'])} {c['term']} {c['cx']}")
        txt = HEADER + tb.coq() + "\n" + "\n".join(env_defs) + "\n" + OK_FUN
        txt += "Definition cases : list ecase :=\n  [" + ";\n   ".join(lines) + "].\n"
        txt += "Eval vm_compute in (bad_idx ok cases).\n"
        files.append(txt)
    return files


# ---------------------------------------------------------------------------
# independent compositional oracle
# ---------------------------------------------------------------------------

def compose_problems(t: T, fam, ns, d, r, decoders, path="$"):
    """r = decode(t, d) succeeded: its parts must be the element decoders' results on the corresponding parts
    of d.  Only shapes where the correspondence input part -> result part is positional / by key."""
    from mashumaro.codecs.basic import BasicDecoder

    def dec_of(tt):
        k = tt.key()
        if k not in decoders:
            try:
                decoders[k] = BasicDecoder(gen.resolve(tt, ns)).decode
            except Exception:  # noqa: BLE001 - e.g. a forward reference that only resolves inside its class
                decoders[k] = None
        return decoders[k]

    def part(tt, x, got, where):
        if dec_of(tt) is None:
            return compose_problems(tt, fam, ns, x, got, decoders, where)
        try:
            want = dec_of(tt)(copy.deepcopy(x))
        except NameError:
            # a self-reference (string annotation) that only resolves inside its class: no stand-alone decoder
            decoders[tt.key()] = None
            return compose_problems(tt, fam, ns, x, got, decoders, where)
        except Exception as e:  # noqa: BLE001
            return [f"{where}: item {x!r} is rejected by its own decoder ({type(e).__name__}) but the enclosing decode "
                    f"succeeded with {got!r} there"]
        if not gen.same(want, got):
            return [f"{where}: holds {got!r}, the item decoder gives {want!r} for input {x!r}"]
        return compose_problems(tt, fam, ns, x, got, decoders, where)

    out = []
    if t.kind == "opt":
        return [] if d is None else compose_problems(t.args[0], fam, ns, d, r, decoders, path)
    if t.kind in ("list", "tuplevar") and isinstance(d, list) and isinstance(r, (list, tuple)) and len(d) == len(r):
        for i, (x, y) in enumerate(zip(d, r)):
            out += part(t.args[0], x, y, f"{path}[{i}]")
    elif t.kind == "tuplefix" and isinstance(d, list) and isinstance(r, tuple):
        for i, (tt, x, y) in enumerate(zip(t.args, d, r)):
            out += part(tt, x, y, f"{path}[{i}]")
    elif t.kind == "dict" and isinstance(d, dict) and isinstance(r, dict) and len(d) == len(r):
        for (k, x), (k2, y) in zip(d.items(), r.items()):
            out += part(t.args[1], x, y, f"{path}[{k!r}]")
    elif t.kind == "nt" and isinstance(d, list) and isinstance(r, tuple):
        spec = fam.get(t.name)
        for i, (f, x) in enumerate(zip(spec.fields, d)):
            if i < len(r):
                out += part(f.ty, x, r[i], f"{path}[{i}]")
    elif t.kind == "td" and isinstance(d, dict) and isinstance(r, dict):
        spec = fam.get(t.name)
        for f in spec.fields:
            if f.name in d and f.name in r:
                out += part(f.ty, d[f.name], r[f.name], f"{path}[{f.name!r}]")
    elif t.kind == "data" and isinstance(d, dict) and dataclasses.is_dataclass(r):
        spec = fam.get(t.name)
        for f in spec.fields:
            key = f.alias or f.name
            if key not in d and f.alias and spec.config.get("allow_deserialization_not_by_alias") and f.name in d:
                key = f.name
            if key in d:
                x, y = d[key], getattr(r, f.name)
                if x is None and y is None:
                    continue
                out += part(f.ty, x, y, f"{path}.{f.name}")
    return out


def run(ctx: vlib.Ctx, n_schemas: int, per_schema: int):
    cases = make_cases(ctx.rng, n_schemas, per_schema)
    decoders_by_fam = {}
    for c in cases:
        c["term"], exc, r, c["cx"], d_after = observe(c)
        ctx.count(("typed", c["t"].kind, type(exc).__name__ if exc else "ok"))
        ctx.hist("typed_outcomes", type(exc).__name__ if exc else "ok")
        ctx.hist("typed_root_kind", c["t"].kind)
        fails = []
        if exc is None:
            decs = decoders_by_fam.setdefault(id(c["fam"]), {})
            fails += compose_problems(c["t"], c["fam"], c["ns"], c["input"], r, decs)[:1]
        if not gen.same(d_after, c["input"]):
            fails.append(f"input object was modified: {c['input']!r} -> {d_after!r}")
        if c["t"].kind == "data" and exc is not None and type(exc).__name__ not in (
                "ValueError", "MissingField", "InvalidFieldValue", "ExtraKeysError"):
            fails.append(f"undocumented {type(exc).__name__} escapes a dataclass root: {exc}")
        for what in fails:
            src = c["fam"].source() if hasattr(c["fam"], "source") else ""
            ctx.fail(f"{gen.py_ann(c['t'])} via {c['entry'][0]} <- {c['input']!r}: {what}"[:600],
                     {"entry": "typed:" + c["entry"][0], "schema": {"cls": c["t"].name or c["t"].kind, "source": src},
                      "type_expr": gen.py_ann(c["t"]), "input_expr": gen.py_src(c["input"]), "observed": what[:300],
                      "outcome": (type(exc).__name__ if exc is not None else gen.py_src(r))[:400],
                      "expected": "result composed of the item decoders' results / documented exception"},
                     {"kind": "typed-composition" if "item" in what or "holds" in what else "typed-other",
                      "root": c["t"].kind})
    br = vlib.coq_make(["theories/ErrsTy.vo", "theories/CaseLib.vo", "theories/Wire.vo"])
    if not br.ok:
        return cases, None, "model does not build: " + (br.error or "")
    files = emit(cases)
    res = eval_robust([(f"c05_typed_{i}", txt) for i, txt in enumerate(files)], timeout=900, jobs=6)
    bad, shard = [], 120
    for n, (ok, out) in enumerate(res):
        if not ok:
            return cases, None, out[-3000:]
        idx = vlib.parse_nat_list(out)
        if idx is None:
            return cases, None, "unparsable coq output: " + out[-1500:]
        bad.extend(n * shard + i for i in idx)
    return cases, bad, ""
