"""C19 - hooks run exactly once per instance, in order, through every entry point.

1. theorems about the trace model coq/theories/Hooks.v (props/C19_hooks.v)
2. correspondence: the model's pack/unpack traces (vm_compute) vs the hook log of the real
   library on generated (schema, value, entry point) triples
3. oracle: hook log == pre/post-order traversal of the instance tree, hooks' return values
   used, context delivered unchanged - checked directly on the real library."""
from __future__ import annotations

import hashlib
import json
import time

from harness import vlib
from harness import c19lib as L
from harness import c19sites as S

THEOREMS = ["C19_trace_partial", "C19_trace_refuted", "C19_codec_union_refuted", "C19_mixin_once", "C19_context",
            "C19_union_context_refuted", "C19_de_trace_partial", "C19_de_post_once", "C19_codec_subclass_refuted",
            "C19_subclass_context_refuted", "C19_disc_config_dispatch", "C19_disc_annotated_dispatch",
            "C19_disc_union_dispatch", "C19_disc_no_variant"]

# ---------------------------------------------------------------------------
# generators
# ---------------------------------------------------------------------------
# the tie to the source: hook call sites read from builder.py (kernel K49) = the model's method bodies
SITE_THEOREMS = ["C19_K49_to_dict_sites", "C19_K49_to_dict_is_model", "C19_K49_pack_mixin", "C19_K49_pack_codec",
                 "C19_K49_trace_mixin", "C19_K49_trace_codec", "C19_K49_from_dict_sites", "C19_K49_from_dict_is_model",
                 "C19_K49_unpack_dc", "C19_K49_from_dict_dispatcher", "C19_K49_de_trace", "C19_K49_declared_hook"]

# keyword forwarding of the nested call = the translated get_pack_method_flags (C08's kernel K8)
FLAG_THEOREMS = ["C19_K8_call_keywords", "C19_K8_context_forwarded", "C19_K8_model_keywords"]
# the union packer's / unpacker's try-each = the method the translated loops of pack_union / UnionUnpackerBuilder._add_body
# emit (C11's kernels K21, K19)
UNION_THEOREMS = ["C19_K21_emit_tries", "C19_K21_pack_union_mixin", "C19_K21_pack_union_codec",
                  "C19_K19_emit_union_dc", "C19_K19_unpack_union"]

# the variants a discriminator tries, in order = iter_all_subclasses / _get_variant_names as translated (C12's kernel K12)
DISC_THEOREMS = ["C19_K12_subclasses", "C19_K12_union_variants", "C19_K12_annotated_variants", "C19_K12_config_variants"]

KINDS = ["dict", "dict", "json", "orjson", "msgpack", "yaml", "toml", "plain"]
CODECS = ["basic", "json", "orjson", "msgpack", "yaml", "toml"]


def allowed(t, c, guarded=False):
    """type t may be used for a field of class c: only classes defined before c, or c itself under Optional/List"""
    if t[0] == "int":
        return True
    if t[0] == "dc":
        return t[1] < c or (t[1] == c and guarded)
    if t[0] == "list":
        return allowed(t[2], c, True)
    if t[0] == "opt":
        return allowed(t[1], c, True)
    return all(m < c for m in t[1])


def canon_union(schema, ms):
    """typing caches List[Union[A, B]] / Optional[...] / Dict[str, Union[...]] under an order-insensitive key, so
    within one module a later List[Union[B, A]] silently *is* the earlier List[Union[A, B]].  The generator therefore
    uses one member order per member set and schema (CPython typing semantics, not mashumaro's)."""
    uo = schema.setdefault("_uo", {})
    key = ",".join(str(m) for m in sorted(ms))
    if key not in uo:
        uo[key] = list(ms)
    return list(uo[key])


def gen_ty(rng, c, toml, schema=None):
    r = rng.random()
    lk = lambda: rng.choice(["list", "list", "tuple", "dict"])
    if c == 0:
        if r < 0.75:
            return ["int"]
        return ["opt", ["dc", 0]] if rng.random() < 0.5 else ["list", lk(), ["dc", 0]]
    d = lambda: ["dc", rng.randrange(c)]
    if r < 0.15:
        return ["int"]
    if r < 0.40:
        return d()
    if r < 0.55:
        return ["opt", d()]
    if r < 0.70:
        return ["list", lk(), d()]
    if r < 0.75:
        return ["list", lk(), ["list", lk(), d()]] if toml or rng.random() < 0.5 else ["list", lk(), ["opt", d()]]
    if r < 0.80:
        return ["opt", ["list", lk(), d()]]
    if r < 0.88:
        return ["opt", ["dc", c]] if rng.random() < 0.5 else ["list", lk(), ["dc", c]]
    if c >= 2:
        k = 2 if c == 2 or rng.random() < 0.7 else 3
        ms = canon_union(schema, rng.sample(range(c), k))
        u = ["union", ms]
        r2 = rng.random()
        if r2 < 0.7:
            return u
        if r2 < 0.9:
            return ["list", lk(), u]
        return u
    return d()


def reaches_class(schema, t, target, seen=None):
    seen = set() if seen is None else seen
    for c in L.ty_classes(t):
        if c == target:
            return True
        if c in seen:
            continue
        seen.add(c)
        for d in [c] + L.descendants(schema, c):
            if d == target or any(reaches_class(schema, L.name_ty(schema, n), target, seen) for n in L.flat_fields(schema, d)):
                return True
    return False


SER_PROFILES = [(False, False), (False, False), (True, False), (False, True), (True, True), (True, True)]


def gen_spell(rng):
    """how types are written (same type, different registry branches): PEP 604 unions, builtin generics, collections.abc
    generics, Annotated wrappers"""
    return {"pep604": rng.random() < 0.4, "builtin": rng.random() < 0.4, "abc": rng.random() < 0.25,
            "annotated": rng.random() < 0.3}


def gen_hooks(rng):
    """hook profile of a class, stratified: 'no serialize hooks' (a pure transit class), pre only, post only, both -
    independent coin flips make the hook-less opted-in class in the middle of a chain too rare"""
    pre, post = rng.choice(SER_PROFILES)
    prede, postde = rng.choice(SER_PROFILES)
    return {"pre": pre, "post": post, "prede": prede, "postde": postde}


def gen_chain_schema(rng):
    """Context/flag chains: class c holds class c-1 directly or through Optional/List/Tuple/Dict (depth 3-5), every
    class draws its own (context opt-in, other flags, hook profile); optionally a side branch.  No unions, no
    inheritance: the whole difference between two such schemas is *which* classes on the path opted in and which
    declare hooks."""
    kind = rng.choice([k for k in KINDS if k != "plain"])
    depth = rng.choice([3, 3, 4, 5])
    toml = kind == "toml"
    names, classes = {}, []
    schema = {"kind": kind, "kw_only": rng.random() < 0.5, "repl": rng.random() < 0.5, "toml_safe": toml,
              "dialect": False, "mixed_flags": True, "future_ann": rng.random() < 0.5, "chain": True,
              "names": names, "classes": classes}
    opt_defaults = toml or rng.random() < 0.5
    schema["spell"] = gen_spell(rng)

    def new_name(t, c=None):
        n = len(names)
        names[str(n)] = {"ty": t, "default": bool(t[0] == "opt" and opt_defaults), "annotated": rng.random() < 0.3}
        if c is not None and rng.random() < 0.6:
            names[str(n)]["self"] = True
        return n
    lk = lambda: rng.choice(["list", "tuple", "dict"])
    for c in range(depth):
        own = [new_name(["int"])]
        if c > 0:
            d = ["dc", c - 1]
            link = rng.choice([d, d, ["opt", d], ["list", lk(), d], ["list", lk(), d], ["opt", ["list", lk(), d]]]
                              + ([] if toml else [["list", lk(), ["opt", d]]]))
            own.append(new_name(link))
            if c >= 2 and rng.random() < 0.3:     # a second way down, skipping a level
                own.append(new_name(rng.choice([["dc", c - 2], ["opt", ["dc", c - 2]], ["list", lk(), ["dc", c - 2]]])))
            rng.shuffle(own)
        if rng.random() < 0.35:                   # self reference (class name or typing.Self)
            own.append(new_name(rng.choice([["opt", ["dc", c]], ["list", lk(), ["dc", c]], ["opt", ["list", lk(), ["dc", c]]]]), c))
            rng.shuffle(own)
        if not schema["kw_only"]:
            own = [n for n in own if not names[str(n)]["default"]] + [n for n in own if names[str(n)]["default"]]
        classes.append({"parent": None, "own_fields": own, "own_hooks": gen_hooks(rng),
                        "own_ctx": rng.random() < 0.7,
                        "flags": [f for f in ("omit_none", "by_alias", "dialect") if rng.random() < 0.35]})
    classes[-1]["own_ctx"] = classes[-1]["own_ctx"] or rng.random() < 0.8      # the call passes context= only then
    return schema


# Kinds in which discriminators without a field are generated: all of them since /repo 233f7d4 (before that fix
# variant.__mashumaro_from_dict_<fmt>__ resolved through the MRO to the base's dispatcher for the MessagePack/ORJSON/TOML
# mixins: exponential time and SuitableVariantNotFoundError; seeded/revert-233f7d4 brings it back).
NO_FORMAT_METHOD = tuple(KINDS)


def conv_disc(t, p, wf, sup):
    """the type with its dataclass node p (outside unions) turned into Annotated[Kp, Discriminator(...)]"""
    if t[0] == "dc" and t[1] == p:
        return ["disc", p, wf, sup]
    if t[0] == "list":
        return ["list", t[1], conv_disc(t[2], p, wf, sup)]
    if t[0] == "opt":
        return ["opt", conv_disc(t[1], p, wf, sup)]
    return t


def variants_safe(schema, p):
    """no subclass of p needs a value of p again (values stay finite)"""
    return not any(reaches_class(schema, L.name_ty(schema, n), p)
                   for d in L.descendants(schema, p) for n in L.flat_fields(schema, d))


def add_discriminators(rng, schema):
    """class hierarchies get discriminator tags, class-level (Config) discriminators with or without a field, and
    field-level Annotated[Base, Discriminator(...)] annotations"""
    classes, names = schema["classes"], schema["names"]
    if not any(k["parent"] is not None for k in classes):
        return
    for c, k in enumerate(classes):
        k["tag"] = rng.random() < (0.85 if k["parent"] is not None else 0.3)
    for c, k in enumerate(classes):
        if k["parent"] is None and L.descendants(schema, c) and variants_safe(schema, c):
            r = rng.random()
            if r < 0.3 and callable_variants(schema, c, L.disc_variants(schema, c, True, False)):
                k["disc"] = "field"
            elif r < 0.42 and schema["kind"] in NO_FORMAT_METHOD and callable_variants(schema, c, L.disc_variants(schema, c, False, False)):
                k["disc"] = "nofield"
            if k.get("disc"):
                k["tag"] = False
                schema["has_disc"] = True
    for n, e in names.items():
        if e.get("self"):
            continue
        for p in L.ty_classes(e["ty"]):
            if e["ty"][0] == "union" or classes[p].get("disc") or not L.descendants(schema, p) or not variants_safe(schema, p):
                continue
            if rng.random() < 0.4:
                wf, sup = rng.random() < 0.65 or schema["kind"] not in NO_FORMAT_METHOD, rng.random() < 0.35
                if callable_variants(schema, p, L.disc_variants(schema, p, wf, sup)):
                    e["ty"] = conv_disc(e["ty"], p, wf, sup)
                    schema["has_disc"] = True
                    break


def gen_union_flags_schema(rng):
    """Unions whose members differ in their keyword-adding options: 2-3 member classes, each with its own context option,
    other options and hooks (some look-alikes), a holder with u: Union[...] directly or in a container."""
    kind = rng.choice([k for k in KINDS if k != "plain"])
    toml = kind == "toml"
    names, classes = {}, []
    schema = {"kind": kind, "kw_only": rng.random() < 0.5, "repl": rng.random() < 0.5, "toml_safe": toml, "dialect": False,
              "mixed_flags": True, "future_ann": rng.random() < 0.5, "uflags": True, "spell": gen_spell(rng),
              "names": names, "classes": classes}

    def new_name(t):
        n = len(names)
        names[str(n)] = {"ty": t, "default": False, "annotated": False}
        return n
    ints = [new_name(["int"]) for _ in range(3)]
    k = rng.choice([2, 2, 3])
    for c in range(k):
        classes.append({"parent": None, "own_fields": sorted(rng.sample(ints, rng.choice([1, 1, 2]))), "own_hooks": gen_hooks(rng),
                        "own_ctx": rng.random() < 0.55,
                        "flags": [f for f in ("omit_none", "by_alias", "dialect") if rng.random() < 0.4]})
    ms = canon_union(schema, rng.sample(range(k), k))
    u = ["union", ms]
    lk = lambda: rng.choice(["list", "tuple", "dict"])
    hf = [new_name(rng.choice([u, u, ["list", lk(), u]]))]
    if rng.random() < 0.4:
        hf.append(new_name(["dc", rng.randrange(k)]))
    classes.append({"parent": None, "own_fields": hf, "own_hooks": gen_hooks(rng), "own_ctx": rng.random() < 0.85,
                    "flags": [f for f in ("omit_none", "by_alias", "dialect") if rng.random() < 0.6]})
    return schema


def gen_hier_schema(rng):
    """Class hierarchies: Base (0) with 2-4 (sub-)subclasses, a plain Leaf class nested in some of them, and a holder
    whose fields are declared with Base - plainly, behind a class-level (Config) discriminator with or without a
    field, or behind Annotated[Base, Discriminator(field?/include_supertypes?)] - directly and through
    Optional/List/Dict.  Hook profiles, tags and context options are drawn per class; siblings share field names
    (look-alikes, which matters when every variant is tried in turn)."""
    kind = rng.choice(KINDS)
    toml = kind == "toml"
    names, classes = {}, []
    schema = {"kind": kind, "kw_only": True, "repl": rng.random() < 0.5, "toml_safe": toml,
              "dialect": kind != "plain" and rng.random() < 0.25, "future_ann": rng.random() < 0.5, "hier": True,
              "spell": gen_spell(rng), "names": names, "classes": classes}

    def new_name(t, default=False):
        n = len(names)
        names[str(n)] = {"ty": t, "default": bool(default), "annotated": False}
        return n
    ints = [new_name(["int"]) for _ in range(4)]
    nsub = rng.choice([2, 3, 3, 4])
    # 0 = Leaf, 1 = Base, 2.. = subclasses, last = holder
    classes.append({"parent": None, "own_fields": [ints[0]], "own_hooks": gen_hooks(rng), "own_ctx": rng.choice([None, True, False])})
    leaf_names = [new_name(["dc", 0]), new_name(["opt", ["dc", 0]], default=True), new_name(["list", "list", ["dc", 0]])]
    base_ctx = rng.choice([None, True, True, False])
    classes.append({"parent": None, "own_fields": [ints[1]], "own_hooks": gen_hooks(rng), "own_ctx": base_ctx,
                    "tag": rng.random() < 0.4})
    for i in range(nsub):
        c = 2 + i
        parent = 1 if i == 0 or rng.random() < 0.6 else rng.randrange(2, c)
        inherited = L.flat_fields(schema, parent)
        own = [n for n in rng.sample(ints[2:] + leaf_names, rng.choice([0, 1, 1, 2])) if n not in inherited]
        hooks = gen_hooks(rng)
        if rng.random() < 0.4:
            hooks = {h: False for h in L.HOOKS}        # inherits everything
        classes.append({"parent": parent, "own_fields": own, "own_hooks": hooks,
                        "own_ctx": rng.choice([None, None, None, True] + ([] if base_ctx else [False])),
                        "tag": rng.random() < 0.85})
    # nested class-level discriminators: a subclass with subclasses of its own becomes a dispatcher too
    for c in range(2, 2 + nsub):
        if L.descendants(schema, c) and rng.random() < 0.5:
            if rng.random() < 0.5 and kind in NO_FORMAT_METHOD:
                classes[c]["disc"] = "nofield"
            elif callable_variants(schema, c, [d for d in L.descendants(schema, c) if classes[d].get("tag")]):
                classes[c]["disc"] = "field"
    r = rng.random()
    if r < 0.12 and callable_variants(schema, 1, L.disc_variants(schema, 1, True, False, True)):
        classes[1]["disc"], classes[1]["tag"], classes[1]["tagger"] = "field", False, True     # variant_tagger_fn
    elif r < 0.3 and callable_variants(schema, 1, L.disc_variants(schema, 1, True, False)):
        classes[1]["disc"], classes[1]["tag"] = "field", False
    elif r < 0.42 and kind in NO_FORMAT_METHOD:
        classes[1]["disc"], classes[1]["tag"] = "nofield", False

    def base_ty():
        if not classes[1].get("disc") and rng.random() < 0.4:
            # a discriminated union: Annotated[Union[Base, Leaf], Discriminator(...)]
            wf = rng.random() < 0.6 or kind not in NO_FORMAT_METHOD
            sb, sp_ = rng.choice([(True, False), (True, True), (False, True)])
            u = ["discu", canon_union(schema, rng.sample([0, 1], 2)), wf, sb, sp_]
            if discu_callable(schema, u):
                return u
        if classes[1].get("disc") or rng.random() < 0.3:
            return ["dc", 1]
        wf, sup = rng.random() < 0.6 or kind not in NO_FORMAT_METHOD, rng.random() < 0.4
        return ["disc", 1, wf, sup] if callable_variants(schema, 1, L.disc_variants(schema, 1, wf, sup)) else ["dc", 1]
    lk = lambda: rng.choice(["list", "tuple", "dict"])
    hf = []
    for _ in range(rng.choice([1, 2, 2, 3])):
        b = base_ty()
        t = rng.choice([b, b, ["opt", b], ["list", lk(), b], ["list", lk(), b]] + ([] if toml else [["list", lk(), ["opt", b]]]))
        hf.append(new_name(t, default=(t[0] == "opt")))
    classes.append({"parent": None, "own_fields": [ints[0]] + hf, "own_hooks": gen_hooks(rng),
                    "own_ctx": rng.choice([None, True, True, False])})
    schema["has_disc"] = True
    return schema


def callable_variants(schema, c, vs):
    """variants whose to_dict accepts every keyword the declared class c makes the caller pass (an opted-in base with a
    subclass that opted out makes to_dict raise TypeError - a crash, not a hook matter)"""
    ok = [v for v in vs if (L.ctx_on(schema, v) or not L.ctx_on(schema, c))
          and set(L.class_flags(schema, c)) <= set(L.class_flags(schema, v))]
    return ok


def discu_callable(schema, t):
    """variants of a discriminated union whose to_dict accepts the keywords of at least one member's call expression"""
    vs = L.discu_variants(schema, t[1], t[2], t[3], t[4])
    return [v for v in vs if any((L.ctx_on(schema, v) or not L.ctx_on(schema, m))
                                 and set(L.class_flags(schema, m)) <= set(L.class_flags(schema, v)) for m in t[1])]


def substitutable(schema, c):
    """subclasses whose instances may stand at a position declared with class c: same context option and the same
    other code generation options (the keyword list of the call is computed from the declared class), finite"""
    return [d for d in L.descendants(schema, c)
            if not schema["classes"][d].get("disc") and L.ctx_on(schema, d) == L.ctx_on(schema, c) and L.class_flags(schema, d) == L.class_flags(schema, c)
            and not any(reaches_class(schema, L.name_ty(schema, n), c) for n in L.flat_fields(schema, d))]


def gen_schema(rng):
    kind = rng.choice(KINDS)
    toml = kind == "toml" or rng.random() < 0.2     # toml-safe: no None inside lists, Optional fields default to None
    ncls = rng.choice([1, 2, 3, 3, 4, 4, 5, 6])
    opt_defaults = toml or rng.random() < 0.4
    inherit = rng.random() < 0.35
    kw_only = inherit or rng.random() < 0.4
    names = {}
    classes = []
    schema = {"kind": kind, "kw_only": kw_only, "repl": rng.random() < 0.6, "toml_safe": toml,
              "dialect": kind != "plain" and rng.random() < 0.3, "future_ann": rng.random() < 0.5,
              "names": names, "classes": classes}
    schema["spell"] = gen_spell(rng)
    lookalike = rng.random()
    for c in range(ncls):
        # typing.Self in a field means the *subclass* when inherited: classes with Self-spelled fields stay leaves
        pcands = [p for p in range(c) if not any(names[str(n)].get("self") for n in L.flat_fields(schema, p))]
        parent = rng.choice(pcands) if (inherit and pcands and rng.random() < 0.5) else None
        inherited = L.flat_fields(schema, parent) if parent is not None else []
        nf = rng.randint(0 if parent is not None else 1, 3)
        own = []
        for _ in range(nf):
            cands = [int(n) for n in names if allowed(names[n]["ty"], c) and int(n) not in inherited and int(n) not in own
                     and not names[n].get("self")]
            if cands and rng.random() < lookalike:
                own.append(rng.choice(cands))
            else:
                t = gen_ty(rng, c, toml, schema)
                n = len(names)
                names[str(n)] = {"ty": t, "default": bool(t[0] == "opt" and opt_defaults),
                                 "annotated": rng.random() < 0.3}
                if c in L.ty_classes(t) and rng.random() < 0.6:
                    names[str(n)]["self"] = True      # the recursion is written typing.Self instead of the class name
                own.append(n)
        if not kw_only:
            own = [n for n in own if not names[str(n)]["default"]] + [n for n in own if names[str(n)]["default"]]
        hooks = gen_hooks(rng)
        if parent is not None:
            own_ctx = rng.choice([None, None, True, True, False])
        else:
            own_ctx = rng.choice([None, True, True, True, False])
        classes.append({"parent": parent, "own_fields": own, "own_hooks": hooks, "own_ctx": own_ctx})
    # per-class code generation options other than the context (with unions too: the model knows which keywords a call
    # passes, which calls raise TypeError and which union members share a call expression)
    if kind != "plain" and not schema["dialect"] and rng.random() < 0.4:
        schema["mixed_flags"] = True
        for k in classes:
            k["flags"] = [f for f in ("omit_none", "by_alias", "dialect") if rng.random() < 0.35]
    add_discriminators(rng, schema)
    return schema


class Uid:
    def __init__(self):
        self.n = 0      # small identities: they are unary nat literals on the Coq side

    def next(self):
        self.n += 1
        return self.n


def gen_value(rng, schema, t, depth, uid, toml, maxd=4):
    if t[0] == "int":
        return ["int", rng.randrange(50)]
    if t[0] == "opt":
        if depth >= maxd or rng.random() < (0.3 if maxd == 4 else 0.15):
            return ["none"]
        return gen_value(rng, schema, t[1], depth, uid, toml, maxd)
    if t[0] == "list":
        n = 0 if depth >= maxd else rng.choice([0, 1, 1, 2, 2, 3] if depth < 2 else [0, 1, 1, 2])
        return ["list", t[1], [gen_value(rng, schema, t[2], depth + 1, uid, toml, maxd) for _ in range(n)]]
    if t[0] == "union":
        return gen_value(rng, schema, ["dc", rng.choice(t[1])], depth, uid, toml, maxd)
    if t[0] == "discu":
        vs = discu_callable(schema, t)
        return gen_value(rng, schema, ["dc!", rng.choice(vs)], depth, uid, toml, maxd)
    c = t[1]
    if t[0] == "dc!":
        pass      # exactly this class
    elif t[0] == "disc":
        c = rng.choice(callable_variants(schema, c, L.disc_variants(schema, c, t[2], t[3])))
    elif schema["classes"][c].get("disc"):
        c = rng.choice(callable_variants(schema, c, L.disc_variants(schema, c, schema["classes"][c]["disc"] != "nofield", False,
                                                                    bool(schema["classes"][c].get("tagger")))))
    elif rng.random() < 0.12:
        ds = substitutable(schema, c)      # an instance of a subclass where the parent is declared
        if ds:
            c = rng.choice(ds)
    i = uid.next()
    fs = [[n, gen_value(rng, schema, L.name_ty(schema, n), depth + 1, uid, toml, maxd)] for n in L.flat_fields(schema, c)]
    r = uid.next() if (L.has_hook(schema, c, "pre") and rng.random() < 0.35) else None
    return ["inst", c, i, r, fs]


def transit_leaves(schema, v, on_path=True, depth=0, transit=False):
    """(number of hooked opted-in instances at depth >= 2 whose token must be the caller's and which are reached through
    at least one opted-in class without serialize hooks, max depth of an instance on an all-opted-in path)"""
    n, md = 0, 0
    if v[0] == "inst":
        c = v[1]
        here = on_path and L.ctx_on(schema, c)
        hooked = L.has_hook(schema, c, "pre") or L.has_hook(schema, c, "post")
        if here:
            md = depth + 1
            if hooked and transit and depth >= 2:
                n += 1
        for _, x in v[4]:
            a, b = transit_leaves(schema, x, here, depth + 1, transit or (here and not hooked))
            n += a
            md = max(md, b)
    elif v[0] == "list":
        for x in v[2]:
            a, b = transit_leaves(schema, x, on_path, depth, transit)
            n += a
            md = max(md, b)
    return n, md


def gen_value_capped(rng, schema, t, toml, maxd=4, cap=45):
    """a value with at most `cap` instances (identities are unary numerals in the Coq case files; a 500-instance tree
    costs minutes of type checking and adds nothing a 40-instance tree does not have)"""
    best = None
    for _ in range(8):
        v = gen_value(rng, schema, t, 0, Uid(), toml, maxd)
        n = len(L.insts_of(v))
        if best is None or n < best[0]:
            best = (n, v)
        if n <= cap:
            return v
    return best[1]


def gen_root_ty(rng, schema, want_dc):
    n = len(schema["classes"])
    c = n - 1 if rng.random() < 0.6 else rng.randrange(n)
    if want_dc:
        return ["dc", c]
    r = rng.random()
    if r < 0.3:
        return ["dc", c]
    if r < 0.5:
        return ["list", rng.choice(["list", "tuple", "dict"]), ["dc", c]]
    if r < 0.6:
        return ["opt", ["dc", c]]
    if n >= 2:
        ms = canon_union(schema, rng.sample(range(n), 2 if n == 2 or rng.random() < 0.7 else 3))
        return ["union", ms] if rng.random() < 0.7 else ["list", "list", ["union", ms]]
    return ["dc", c]


def reaches_recursive(schema, t, seen=None):
    """some class reachable from t has a field whose type mentions the class itself (codecs cannot be built for those:
    BasicEncoder(Node) with `kids: List["Node"]` raises AttributeError at construction - not a C19 matter)"""
    seen = set() if seen is None else seen
    todo = []
    for c in L.ty_classes(t):
        todo.append(c)
        if schema["classes"][c].get("disc") or t[0] == "disc" or schema.get("has_disc"):
            todo += L.descendants(schema, c)      # the dispatcher builds the variants' functions too
    for c in todo:
        if c in seen:
            continue
        seen.add(c)
        for n in L.flat_fields(schema, c):
            ft = L.name_ty(schema, n)
            if c in L.ty_classes(ft) and not schema["names"][str(n)].get("self"):
                return True      # (recursion spelled typing.Self does work through codecs)
            if reaches_recursive(schema, ft, seen):
                return True
    return False


def entries_for(rng, schema, root_ty, direction, thorough, value=None):
    es = []
    kind = schema["kind"]
    toml_ok = schema["toml_safe"]
    if root_ty[0] == "dc" and kind != "plain":
        meths = (L.SER_METHODS if direction == "ser" else L.DE_METHODS)[kind]
        # the method is called on the object (serialization) resp. on the declared class (deserialization)
        rc = value[1] if (direction == "ser" and value is not None and value[0] == "inst") else root_ty[1]
        for m in meths:
            if "toml" in m and not toml_ok:
                continue
            es.append({"dir": direction, "via": "mixin", "method": m, "ctx": False})
            if direction == "ser" and L.ctx_on(schema, rc):
                es.append({"dir": direction, "via": "mixin", "method": m, "ctx": True})
            if "dialect" in L.class_flags(schema, rc):     # same calls with an (empty) call-time dialect
                es.append({"dir": direction, "via": "mixin", "method": m, "ctx": False, "dialect": True})
                if direction == "ser" and L.ctx_on(schema, rc):
                    es.append({"dir": direction, "via": "mixin", "method": m, "ctx": True, "dialect": True})
    if reaches_recursive(schema, root_ty):
        return es
    codecs = ["basic"]
    # toml codec: dict root only; not for plain classes (its omit_none dialect changes the shape of the generated
    # to_dict - incremental instead of literal - which the model derives from the fields alone)
    others = [c for c in CODECS[1:] if c != "toml" or (toml_ok and root_ty[0] == "dc" and kind != "plain")]
    codecs += others if thorough else rng.sample(others, 1)
    for c in codecs:
        es.append({"dir": direction, "via": "codec", "codec": c})
    return es


def shape_key(schema, root_ty, value, entry):
    def vs(v):
        if v[0] == "inst":
            return ("i", v[1], v[3] is not None, tuple(vs(x) for _, x in v[4]))
        if v[0] == "list":
            return ("l", tuple(vs(x) for x in v[2]))
        return v[0]
    s = json.dumps([schema["kind"], schema["kw_only"], schema["repl"], schema.get("dialect"), schema.get("mixed_flags"), schema.get("future_ann"), schema.get("spell"), schema["names"], schema["classes"], root_ty,
                    entry], sort_keys=True) + repr(vs(value))
    return hashlib.sha1(s.encode()).hexdigest()[:16]


# hand-written cases that are always present: D8, D8b and the shapes the proofs care about
def fixed_cases():
    mk = lambda pre, post, prede, postde: {"pre": pre, "post": post, "prede": prede, "postde": postde}
    out = []
    # D8: codec union, second member
    s = {"kind": "dict", "kw_only": False, "repl": False, "toml_safe": True,
         "names": {"0": {"ty": ["int"], "default": False}, "1": {"ty": ["int"], "default": False}},
         "classes": [{"parent": None, "own_fields": [0], "own_hooks": mk(True, True, True, True), "own_ctx": None},
                     {"parent": None, "own_fields": [1], "own_hooks": mk(True, True, True, True), "own_ctx": None}]}
    out.append((s, ["union", [0, 1]], ["inst", 1, 101, None, [[1, ["int", 5]]]]))
    # D8 look-alike
    s2 = json.loads(json.dumps(s))
    s2["classes"][1]["own_fields"] = [0]
    out.append((s2, ["union", [0, 1]], ["inst", 1, 101, None, [[0, ["int", 5]]]]))
    # D8b: mixin union Union[In2, In] holding In loses context
    s3 = {"kind": "dict", "kw_only": False, "repl": False, "toml_safe": True,
          "names": {"0": {"ty": ["int"], "default": False}, "1": {"ty": ["int"], "default": False},
                    "2": {"ty": ["union", [0, 1]], "default": False}},
          "classes": [{"parent": None, "own_fields": [0], "own_hooks": mk(True, True, False, False), "own_ctx": None},
                      {"parent": None, "own_fields": [1], "own_hooks": mk(True, True, False, False), "own_ctx": True},
                      {"parent": None, "own_fields": [2], "own_hooks": mk(True, True, False, False), "own_ctx": True}]}
    out.append((s3, ["dc", 2], ["inst", 2, 101, None, [[2, ["inst", 1, 102, None, [[1, ["int", 1]]]]]]]))
    # Config discriminator: Base(kind-tagged subclasses), holder with List[Base] (deserialization, oracle only)
    s4 = {"kind": "dict", "kw_only": True, "repl": True, "toml_safe": True, "has_disc": True,
          "names": {"0": {"ty": ["int"], "default": False}, "1": {"ty": ["int"], "default": False},
                    "2": {"ty": ["list", "list", ["dc", 0]], "default": False}},
          "classes": [{"parent": None, "own_fields": [0], "own_hooks": mk(True, True, True, True), "own_ctx": None, "disc": "field"},
                      {"parent": 0, "own_fields": [1], "own_hooks": mk(False, False, False, False), "own_ctx": None, "tag": True},
                      {"parent": 0, "own_fields": [], "own_hooks": mk(False, False, True, True), "own_ctx": None, "tag": True},
                      {"parent": None, "own_fields": [2], "own_hooks": mk(False, False, True, True), "own_ctx": None}]}
    out.append((s4, ["dc", 3], ["inst", 3, 101, None, [[2, ["list", "list", [
        ["inst", 1, 102, None, [[0, ["int", 1]], [1, ["int", 2]]]], ["inst", 2, 103, None, [[0, ["int", 3]]]]]]]]]))
    # subclass instance where the parent is declared: H(a: A) holding A2(A); A2 adds hooks and a field
    s5 = {"kind": "msgpack", "kw_only": True, "repl": False, "toml_safe": True,
          "names": {"0": {"ty": ["int"], "default": False}, "1": {"ty": ["int"], "default": False},
                    "2": {"ty": ["dc", 0], "default": False}},
          "classes": [{"parent": None, "own_fields": [0], "own_hooks": mk(False, False, False, False), "own_ctx": None},
                      {"parent": 0, "own_fields": [1], "own_hooks": mk(True, True, False, False), "own_ctx": None},
                      {"parent": None, "own_fields": [2], "own_hooks": mk(False, False, False, False), "own_ctx": None}]}
    out.append((s5, ["dc", 2], ["inst", 2, 101, None, [[2, ["inst", 1, 102, None, [[0, ["int", 1]], [1, ["int", 2]]]]]]]))
    # Holder (opted in) with b: Base (not opted in) holding Sub(Base) (opted in)
    s6 = {"kind": "dict", "kw_only": True, "repl": False, "toml_safe": True,
          "names": {"0": {"ty": ["int"], "default": False}, "1": {"ty": ["dc", 0], "default": False}},
          "classes": [{"parent": None, "own_fields": [0], "own_hooks": mk(False, False, False, False), "own_ctx": None},
                      {"parent": 0, "own_fields": [], "own_hooks": mk(True, True, False, False), "own_ctx": True},
                      {"parent": None, "own_fields": [1], "own_hooks": mk(True, True, False, False), "own_ctx": True}]}
    out.append((s6, ["dc", 2], ["inst", 2, 101, None, [[1, ["inst", 1, 102, None, [[0, ["int", 1]]]]]]]))
    return out


# ---------------------------------------------------------------------------
# one case = (schema, src, root_ty, value/wire, entry)
# ---------------------------------------------------------------------------

class CaseTimeout(BaseException):
    """not an Exception: must pass through the `except Exception: pass` of generated try-each code"""


CASE_TIMEOUT_S = 20     # wall clock; generous: the machine may be heavily loaded, a normal call takes milliseconds


def _on_alarm(signum, frame):
    raise CaseTimeout()


def evaluate(case, mod=None):
    """runs the real library on a case; returns (res, verdict) where verdict is None or (what, signature).
    A call that does not return within CASE_TIMEOUT_S seconds (unbounded recursion retried at every level takes
    exponential time) is reported as a failure instead of hanging the check."""
    import signal
    own = mod is None
    if own:
        mod = L.load_module(case["src"])
    old = signal.signal(signal.SIGALRM, _on_alarm)
    signal.setitimer(signal.ITIMER_REAL, CASE_TIMEOUT_S, 0.5)      # re-fires: a CaseTimeout raised at the recursion limit can get lost
    try:
        try:
            if case["entry"]["dir"] == "ser":
                res = L.run_ser(mod, case["schema"], case["root_ty"], case["value"], case["entry"])
                signal.setitimer(signal.ITIMER_REAL, 0)
                verdict = L.check_ser(case["schema"], case["root_ty"], case["value"], case["entry"], res)
            else:
                res = L.run_de(mod, case["schema"], case["root_ty"], case["wire"], case["entry"])
                signal.setitimer(signal.ITIMER_REAL, 0)
                verdict = L.check_de(case["schema"], case["root_ty"], case["wire"], case["entry"], res)
        except CaseTimeout:
            res = {"ok": False, "exc": f"no answer within {CASE_TIMEOUT_S}s", "log": [], "out": None, "result": None, "obs": []}
            verdict = (f"the call did not return within {CASE_TIMEOUT_S}s (endless recursion retried at every level?)",
                       {"direction": case["entry"]["dir"], "via": case["entry"]["via"], "kind": "timeout"})
    finally:
        signal.setitimer(signal.ITIMER_REAL, 0)
        signal.signal(signal.SIGALRM, old)
        if own:
            L.unload_module(mod)
    return res, verdict


def structural_kf(case):
    """the structural part of the two known-finding signatures (used only to label a stale model)"""
    if case["entry"]["dir"] != "ser":
        return None
    ups = []
    L.union_positions(case["schema"], case["root_ty"], case["value"], ups, False)
    for ms, v in ups:
        if len(ms) >= 2 and v[0] == "inst" and v[1] != ms[0]:
            if case["entry"]["via"] == "codec":
                return "C19/codec-union-static-dispatch"
            if len({L.ctx_on(case["schema"], m) for m in ms}) > 1:
                return "C19/union-member-flags"
    if case["entry"]["via"] == "codec":
        sub = []
        L.subclass_positions(case["schema"], case["root_ty"], case["value"], sub)
        if sub:
            return "C19/codec-subclass-static-dispatch"
    return None


def thorough_tier(ctx):
    return not ctx.quick()


def run(ctx: vlib.Ctx):
    t_start = time.time()
    ctx.coverage["rule"] = (
        "five schema families: (1) random class tables (1-6 dataclasses; stratified hook profiles, hooks declared or inherited; "
        "ADD_SERIALIZATION_CONTEXT on/off/inherited, per-class OMIT_NONE/BY_ALIAS/DIALECT options; fields int / nested class / "
        "List,Tuple,Dict / Optional / Union of dataclasses, recursion spelled by name or typing.Self; PEP 604, builtin/abc "
        "generics, Annotated; one type per field name so that look-alike classes arise); (2) context/flag chains of depth 3-5; "
        "(3) class hierarchies: subclass instances at base-typed positions, class-level (Config) discriminators with/without "
        "field, with variant_tagger_fn, nested (a variant that is itself a dispatcher), Annotated discriminators over a class "
        "(field / no field / include_supertypes) and over a Union (include_subtypes and/or include_supertypes), tags present "
        "or missing; (4) unions whose "
        "members differ in their keyword-adding options; (5) fixed cases for every known finding - x mixin kind "
        "(dict/json/orjson/msgpack/yaml/toml/plain) x hooks returning their argument or a new object x random value tree "
        "(<= 45 instances) x every entry point (mixin methods with/without context= and dialect=, 6 codecs with root shapes "
        "C/List/Tuple/Dict/Optional/Union/Annotated discriminator); distinct = distinct (schema, value shape, entry point)")
    ctx.trusted += [
        "Hooks.v pack/unpack: hand-written model of the generated to_dict/from_dict control flow restricted to hook events "
        "(checked against the real hook log on every run); Python attribute lookup/dynamic dispatch, keyword TypeError, "
        "try/except, dict.get are modelled, not verified.  The method bodies (which hook lines, their order, the context "
        "keyword, self rebound to the pre hook's result, one final return wrapped in the post hook, a Config discriminator "
        "replacing the whole from_dict) are NOT hand-modelled any more: kernel K49 re-reads them from "
        "CodeBuilder._add_pack_method_lines / _add_unpack_method_lines / get_declared_hook on every run and C19_K49_* prove "
        "that they are Hooks.body / Hooks.dbody",
        "tools/kernels/k49_hook_sites.py: path-by-path symbolic execution of the emitting statements (fail closed on any "
        "statement that mentions a hook, emits a line or returns outside the recognised forms); HookSites.run_ps/run_us: the "
        "meaning of a site list (Python evaluation order of `return self.__post_serialize__({...})`, rebinding of self); the "
        "field emission block, the kwargs-vs-literal decision (K8's) and the encoder are parameters.  K49 itself is compared "
        "on every run with the sites parsed from every method text the library exec's for the generated classes",
        "reused kernels of other properties: K8 (get_pack_method_flags: C19_K8_* - the keyword list of the nested call is "
        "the (context?, other keywords) pair the model passes) K21 (pack_union loops: C19_K21_* - the emitted union "
        "method is try_each over the distinct call expressions) and K19 (UnionUnpackerBuilder._add_body: C19_K19_* - for "
        "dataclass members one try block per distinct member, = dtry) and K12 (iter_all_subclasses, _get_variant_names, the "
        "class-level rebuild of the Discriminator: C19_K12_* - the variant lists of the model); the abstraction of a union member as "
        "UnionModel.pmember / UnionEmit.mspec (class name, expression id, is-it-TypeMatchEligible, encoder) is C11's",
        "harness/c19lib.py: class-source generator, flattening of inherited fields/hooks/Config (independent re-statement "
        "of get_declared_hook), value/wire materialiser, event canonicaliser (uids), Coq term printer",
        "format libraries json/orjson/msgpack/yaml/tomli_w/tomllib only transport the dict (outputs are decoded and compared)",
    ]
    ctx.assumptions += [
        "values are trees (no instance occurs twice); an instance has the declared class, one of the union's member classes, a "
        "variant of the discriminator, or (12% of plain positions) a subclass with the same keyword-adding options; a variant "
        "whose to_dict would not accept the keywords of the declared class (TypeError, a crash) is not generated",
        "union members are dataclasses; each field name has one type per schema; hooks do not raise (discriminators without a "
        "field are generated for every mixin kind since /repo 233f7d4 repaired the inherited per-format method)",
        "deserialization: events of union members / discriminator variants that were tried and discarded concern no instance of "
        "the result and are not violations (property text: 'every instance that ends up in a deserialization result'); the "
        "model reproduces them exactly",
        "serialization of subclass instances through format-specific mixin methods (to_msgpack/to_jsonb/to_toml) is outside the "
        "Coq model (MRO-resolved method; known finding C19/format-method-subclass-dispatch): oracle only",
    ]
    # 1. theorems
    br = S.theorems_robust(ctx, "props/C19_hooks.vo", THEOREMS)
    S.theorems_robust(ctx, "props/C19_sites.vo", SITE_THEOREMS, kernels=["K49"])
    S.theorems_robust(ctx, "props/C19_flags.vo", FLAG_THEOREMS, kernels=["K8"])
    S.theorems_robust(ctx, "props/C19_union_emit.vo", UNION_THEOREMS, kernels=["K21", "K19"])
    S.theorems_robust(ctx, "props/C19_disc_variants.vo", DISC_THEOREMS, kernels=["K12"])
    if thorough_tier(ctx) and br.ok:
        # second opinion: the standalone checker re-checks the compiled library and its whole cone
        for _attempt in range(3):
            rc, out, secs = vlib.run(["timeout", "1500", "coqchk", "-o", "-silent", "-Q", "theories", "Verif", "-Q", "gen", "VerifGen",
                                      "-Q", "props", "VerifProps", "VerifProps.C19_hooks", "VerifProps.C19_sites",
                                      "VerifProps.C19_flags", "VerifProps.C19_union_emit", "VerifProps.C19_disc_variants"],
                                     cwd=vlib.COQ, timeout=1600)
            if rc == 0 or "rror" in out or "* Axioms" in out:
                break     # a verdict of the checker; anything else = the process died (OOM killer / timeout): run it again
            S.RETRIES.append(f"coqchk died without a verdict (rc={rc}, attempt {_attempt + 1})")
            time.sleep(30)
        import re as _re
        m = _re.search(r"\* Axioms:\s*(.*?)\n\s*\n", out, _re.S)
        axioms = " ".join(m.group(1).split()) if m else "?"
        ok = rc == 0 and axioms == "<none>" and "type-in-type: <none>" in out and "unsafe (co)fixpoints: <none>" in out \
            and "positivity is assumed: <none>" in out
        ctx.obligation("coqchk -o VerifProps.C19_{hooks,sites,flags,union_emit,disc_variants}", ok, f"rc={rc} Axioms: {axioms} ({secs:.0f}s)")
        ctx.trusted.append(f"coqchk -o VerifProps.C19_hooks C19_sites C19_flags C19_union_emit C19_disc_variants: Axioms: {axioms}; no type-in-type, no unsafe fixpoints, no assumed positivity")
        if not ok:
            ctx.not_shown("coqchk VerifProps.C19_hooks", out[-1500:])

    # 2+3. cases
    rng = ctx.rng
    thorough = not ctx.quick()
    n_schemas = ctx.budget(60, 380)
    vals_per = ctx.budget(3, 4)
    ser_cases, de_cases = [], []     # (case dict, res)
    envs = []                        # coq env text per schema index
    t_lib = 0.0

    timeouts = [0]
    recorder = S.Recorder()      # every method text the CodeBuilder exec's for a class of a generated schema
    recorder.install()
    site_acc = S.Acc()

    def do_schema(si, schema, roots):
        nonlocal t_lib
        if timeouts[0] >= 4:
            return      # the library hangs on input after input: four failing inputs are recorded, stop feeding it
        src = L.class_source(schema)
        try:
            mod = L.load_module(src)
        except Exception as e:  # class creation itself failed: not a C19 matter, but never silently
            ctx.notes.append(f"schema {si} not constructible: {type(e).__name__}: {e}"[:300])
            ctx.hist("schemas", "not-constructible")
            return
        recorder.schemas[mod.__name__] = schema
        L.check_module_orders(mod, schema)
        envs.append(L.coq_env(schema))
        ei = len(envs) - 1
        ctx.hist("schemas", schema["kind"])
        ctx.hist("schema_features", "inheritance", int(any(k["parent"] is not None for k in schema["classes"])))
        ctx.hist("schema_features", "union", int(any(L.ty_has_union(x["ty"]) for x in schema["names"].values())))
        ctx.hist("schema_features", "repl-hooks", int(schema["repl"]))
        ctx.hist("schema_features", "config-discriminator", int(bool(schema.get("has_disc"))))
        ctx.hist("schema_features", "call-dialect", int(bool(schema.get("dialect"))))
        ctx.hist("schema_features", "per-class-flags", int(bool(schema.get("mixed_flags"))))
        ctx.hist("schema_features", "chain-family", int(bool(schema.get("chain"))))
        ctx.hist("schema_features", "hierarchy-family", int(bool(schema.get("hier"))))
        ctx.hist("schema_features", "union-flags-family", int(bool(schema.get("uflags"))))
        ctx.hist("schema_features", "union with members of differing options", int(any(
            x["ty"][0] == "union" and len({(L.ctx_on(schema, m), tuple(L.class_flags(schema, m))) for m in x["ty"][1]}) > 1
            for x in schema["names"].values())))
        ctx.hist("schema_features", "config-discriminator with field", int(any(k.get("disc") in ("field", True) for k in schema["classes"])))
        ctx.hist("schema_features", "config-discriminator without field", int(any(k.get("disc") == "nofield" for k in schema["classes"])))
        ctx.hist("schema_features", "discriminated Union", int(any("discu" in json.dumps(x["ty"]) for x in schema["names"].values())))
        ctx.hist("schema_features", "variant_tagger_fn", int(any(k.get("tagger") for k in schema["classes"])))
        ctx.hist("schema_features", "nested class-level discriminator", int(any(k.get("disc") and k["parent"] is not None for k in schema["classes"])))
        ctx.hist("schema_features", "Annotated discriminator", int(any("disc" in json.dumps(x["ty"]) for x in schema["names"].values())))
        ctx.hist("schema_features", "typing.Self recursion", int(any(x.get("self") for x in schema["names"].values())))
        ctx.hist("schema_features", "class-name recursion", int(any(
            (not x.get("self")) and any(n in map(str, k["own_fields"]) and ci in L.ty_classes(x["ty"])
                                        for ci, k in enumerate(schema["classes"]))
            for n, x in schema["names"].items())))
        for sk, sv in (schema.get("spell") or {}).items():
            ctx.hist("spelling", sk, int(bool(sv)))
        ctx.hist("schema_features", "postponed-annotations", int(bool(schema.get("future_ann"))))
        try:
            for root_ty, value in roots:
                for direction in ("ser", "de"):
                    for entry in entries_for(rng, schema, root_ty, direction, thorough, value):
                        case = {"schema": schema, "src": src, "root_ty": root_ty, "entry": entry, "env": ei}
                        if direction == "ser":
                            case["value"] = value
                        else:
                            case["value"] = value
                            case["wire"] = L.wire_of(schema, value, drop_default_none=(L.fmt_of(entry) == "toml" or rng.random() < 0.3))
                        t0 = time.time()
                        if timeouts[0] >= 4:
                            return
                        res, verdict = evaluate(case, mod)
                        if verdict is not None and verdict[1].get("kind") == "timeout":
                            timeouts[0] += 1
                            ctx.notes.append(f"timeout {timeouts[0]}: {entry} on schema {si}")
                        t_lib += time.time() - t0
                        ctx.count(shape_key(schema, root_ty, value, entry))
                        ctx.hist("entry_points", direction + ":" + (entry.get("method") or "codec-" + entry["codec"])
                                 + ("+context" if entry.get("ctx") else "") + ("+dialect" if entry.get("dialect") else ""))
                        ctx.hist("root_shape", root_ty[0])
                        if direction == "ser":
                            sp_ = []
                            L.subclass_positions(schema, root_ty, value, sp_)
                            ctx.hist("subclass_instances", ("with" if sp_ else "without") + " subclass instance at a parent-typed position")
                        ctx.hist("events_per_case", str(min(len(res["log"]) // 4 * 4, 40)))
                        if verdict is None:
                            # only log / ok / exc / result are needed later (correspondence); keep the process small
                            res.pop("out", None)
                            res.pop("obs", None)
                        (ser_cases if direction == "ser" else de_cases).append((case, res, verdict))
                        if verdict is not None:
                            what, sig = verdict
                            rep = {k: case[k] for k in ("schema", "src", "root_ty", "entry")}
                            rep["value" if direction == "ser" else "wire"] = case["value" if direction == "ser" else "wire"]
                            rep["observed"] = {"log": res["log"], "out": res.get("out"), "exc": res["exc"]}
                            rep["expected"] = what
                            ctx.fail(f"{direction} {entry}: {what}"[:600], rep, sig)
        finally:
            site_acc.flush(recorder)     # parse this schema's method texts into (answers, sites) pairs, drop the texts
            L.unload_module(mod)

    si = 0
    for schema, root_ty, value in fixed_cases():
        do_schema(si, schema, [(root_ty, value)])
        si += 1
    for _ in range(n_schemas):
        schema = gen_schema(rng)
        roots = []
        for vi in range(vals_per):
            root_ty = gen_root_ty(rng, schema, want_dc=(vi == 0))
            roots.append((root_ty, gen_value_capped(rng, schema, root_ty, schema["toml_safe"])))
        do_schema(si, schema, roots)
        si += 1

    # context / flag chains (depth 3-5, every class with its own opt-ins and hook profile)
    for _ in range(ctx.budget(45, 280)):
        schema = gen_chain_schema(rng)
        root_ty = ["dc", len(schema["classes"]) - 1]
        roots = [(root_ty, gen_value_capped(rng, schema, root_ty, schema["toml_safe"], maxd=12)) for _ in range(2)]
        for _, v in roots:
            nt, md = transit_leaves(schema, v)
            ctx.hist("context_chains", "hooked opted-in node behind a hook-less opted-in class", int(nt > 0))
            ctx.hist("context_chains", f"all-opted-in path depth {min(md, 5)}")
        do_schema(si, schema, roots)
        si += 1

    # class hierarchies: subclass instances under base-typed fields, class-level and Annotated discriminators
    for _ in range(ctx.budget(45, 330)):
        schema = gen_hier_schema(rng)
        n = len(schema["classes"])
        roots = []
        for vi in range(2):
            r = rng.random()
            if vi == 0 or r < 0.5:
                root_ty = ["dc", n - 1]
            elif r < 0.75:
                root_ty = rng.choice([["dc", 1], ["list", "list", ["dc", 1]], ["opt", ["dc", 1]]])
            else:
                wf, sup = rng.random() < 0.6 or schema["kind"] not in NO_FORMAT_METHOD, rng.random() < 0.4
                root_ty = ["disc", 1, wf, sup] if callable_variants(schema, 1, L.disc_variants(schema, 1, wf, sup)) and not schema["classes"][1].get("disc") else ["dc", n - 1]
            roots.append((root_ty, gen_value_capped(rng, schema, root_ty, schema["toml_safe"])))
        do_schema(si, schema, roots)
        si += 1

    # unions whose members differ in their keyword-adding options
    for _ in range(ctx.budget(30, 150)):
        schema = gen_union_flags_schema(rng)
        root_ty = ["dc", len(schema["classes"]) - 1]
        do_schema(si, schema, [(root_ty, gen_value_capped(rng, schema, root_ty, schema["toml_safe"])) for _ in range(2)])
        si += 1

    recorder.uninstall()

    # 2a. correspondence kernel K49 vs the generated code: the sites parsed from every method text the library exec'd
    #     for the classes above == K49.pack_sites / unpack_sites on the answers the builder gets for that class
    site_acc.flush(recorder)
    pk_terms, uk_terms, site_wit, site_problems, n_methods = site_acc.result()
    ctx.notes.append(f"K49 sites: {n_methods} generated methods parsed, {len(pk_terms)} distinct to_dict and "
                     f"{len(uk_terms)} distinct from_dict (answers, sites) pairs")
    ctx.hist("k49_sites", "generated methods parsed", n_methods)
    if site_problems:
        ctx.correspondence("c19_sites_parse", n_methods + len(site_problems), len(site_problems), json.dumps(site_problems[0])[:1500])
        ctx.not_shown("correspondence c19_sites_parse",
                      f"{len(site_problems)} generated methods are not of the shape K49 describes, first: {json.dumps(site_problems[0])[:1200]}")
    for nm, terms, okf, cty in (("c19_sites_pack", pk_terms, S.PACK_OK, S.PACK_TYPE),
                                ("c19_sites_unpack", uk_terms, S.UNPACK_OK, S.UNPACK_TYPE)):
        if not terms:
            ctx.correspondence(nm, 0, -1, "no generated method was recorded")
            ctx.not_shown("correspondence " + nm, "no generated method was recorded (exec hook lost?)")
            continue
        sbad, slog = S.coq_bad_idx_j(nm, "Hooks HookSites", "From VerifGen Require Import K49.", "", terms, okf, cty,
                                      needs=["theories/HookSites.vo", "gen/K49.vo"])
        if sbad is None:
            ctx.correspondence(nm, len(terms), -1, slog)
            ctx.not_shown("correspondence " + nm, slog)
        else:
            detail = ""
            if sbad:
                detail = json.dumps({"case": terms[sbad[0]], "witness": site_wit.get(terms[sbad[0]])}, default=str)[:2500]
            ctx.correspondence(nm, len(terms), len(sbad), detail)
            if sbad:
                ctx.not_shown("correspondence " + nm, f"{len(sbad)} (answers, sites) pairs differ from K49, first: {detail}")

    # 2. correspondence model vs implementation
    defs = "Local Open Scope nat_scope.\n" + "\n".join(f"Definition E{i} : env :=\n     {e}." for i, e in enumerate(envs)) + "\n"

    kf_hits = {}
    for f in ctx.failures:
        kf_hits[f.signature.get("kind")] = kf_hits.get(f.signature.get("kind"), 0) + 1

    def corr(name, cases, render, okf, ctype):
        idx, terms = [], []
        for i, (case, res, verdict) in enumerate(cases):
            t = render(case, res)
            if t is not None:
                idx.append(i)
                terms.append(t)
        bad, log = S.coq_bad_idx_j(name, "Hooks", "", defs, terms, okf, ctype, shard=ctx.budget(400, 500),
                                    needs=["theories/Hooks.vo"])
        if bad is None:
            ctx.correspondence(name, len(terms), -1, log)
            ctx.not_shown("correspondence " + name, log)
            return
        stale, real = [], []
        for b in bad:
            case, res, verdict = cases[idx[b]]
            kf = structural_kf(case)
            # the faithful model contains the known defects; if a defect was repaired, *no* case reproduces it any
            # more and the model differs exactly at its signature: stale model, the property holds there
            if kf and verdict is None and kf_hits.get(kf.split("/")[1], 0) == 0:
                stale.append(kf)
            else:
                real.append(idx[b])
        for kf in sorted(set(stale)):
            ctx.notes.append(f"model-stale: finding {kf} no longer reproduces ({stale.count(kf)} cases)")
        detail = ""
        if real:
            case, res, _ = cases[real[0]]
            detail = json.dumps({"entry": case["entry"], "root_ty": case["root_ty"], "schema": case["schema"],
                                 "value": case.get("value"), "wire": case.get("wire"), "impl_log": res["log"],
                                 "impl_ok": res["ok"], "exc": res["exc"]}, default=str)
        ctx.correspondence(name, len(terms), len(real), detail)
        if real:
            ctx.not_shown("correspondence " + name, f"{len(real)} cases, first: {detail}")

    def render_ser(case, res):
        evs = L.coq_events(res["log"])
        if evs is None:
            return None      # a context object that is neither the token nor None: the oracle reports it
        e = case["entry"]
        if L.is_format_method(case["schema"], e):
            sub = []
            L.subclass_positions(case["schema"], case["root_ty"], case["value"], sub)
            if sub:
                return None  # MRO-resolved format method of a subclass instance (known finding): not in the model
        mode = "Mixin" if e["via"] == "mixin" else "Codec"
        pc = bool(e.get("ctx"))
        # a mixin method is called on the object itself: the "declared" class of the root is its own class
        rt = ["dc", case["value"][1]] if (e["via"] == "mixin" and case["value"][0] == "inst") else case["root_ty"]
        okt = "Some " + L.coq_bool(res["ok"])
        if not res["ok"] and L.fmt_of(e) != "dict":
            okt = "None"       # may come from the format encoder (e.g. None is not TOML serializable)
        return (f"({mode}, {L.coq_bool(case['schema']['kind'] != 'plain')}, E{case['env']}, "
                f"{L.coq_val(case['schema'], case['value'])}, {L.coq_ty(rt)}, {L.coq_bool(pc)}, {L.coq_xf(['dialect'] if e.get('dialect') else [])}, "
                f"{'CTok' if pc else 'CNone'}, {okt}, {evs})")

    def render_de(case, res):
        evs = L.coq_events(res["log"])
        r = "None" if not res["ok"] else "Some " + L.coq_val(case["schema"], res["result"])
        return (f"(E{case['env']}, {L.coq_wire_typed(case['schema'], case['root_ty'], case['wire'])}, "
                f"{L.coq_ty(case['root_ty'])}, {r}, {evs})")

    t_c0 = time.time()
    corr("c19_ser", ser_cases, render_ser, "ser_ok", "ser_case")
    t_c1 = time.time()
    corr("c19_de", de_cases, render_de, "de_ok", "de_case")
    ctx.notes.append(f"generation+library {t_c0 - t_start:.1f}s, coq ser {t_c1 - t_c0:.1f}s, coq de {time.time() - t_c1:.1f}s")
    for r in S.RETRIES:
        ctx.notes.append("infrastructure retry: " + r)

    # the case files are large; nothing needs them after the evaluation
    import glob
    import os
    for f in ([] if os.environ.get("C19_KEEP_CASES") else
              glob.glob(os.path.join(vlib.CASES, "c19_*")) + glob.glob(os.path.join(vlib.CASES, ".c19_*"))):
        try:
            os.remove(f)
        except OSError:
            pass

    # evidence: samples
    for case, res, verdict in (ser_cases[:2] + de_cases[:1] + ser_cases[len(ser_cases) // 2:len(ser_cases) // 2 + 2]):
        ctx.sample({"entry": case["entry"], "root_ty": case["root_ty"], "classes": case["schema"]["classes"],
                    "names": case["schema"]["names"], "value": case.get("value"), "log": res["log"],
                    "verdict": None if verdict is None else verdict[1]})
    ctx.notes.append(f"library time {t_lib:.1f}s, total {time.time() - t_start:.1f}s, "
                     f"ser cases {len(ser_cases)}, de cases {len(de_cases)}")


def replay(rep: dict) -> int:
    case = {k: rep[k] for k in ("schema", "src", "root_ty", "entry")}
    if rep["entry"]["dir"] == "ser":
        case["value"] = rep["value"]
    else:
        case["wire"] = rep["wire"]
    res, verdict = evaluate(case)
    print("entry   :", rep["entry"], "root type:", L.py_ty(rep["root_ty"]))
    print("hook log:", res["log"])
    if verdict is None:
        print("not reproduced (property holds on this input)")
        return 0
    print("REPRODUCED:", verdict[0])
    print("signature:", verdict[1])
    return 1
