"""C08 - serialization options only project the plain output.

theorems (coq/props/C08_project.v, C08_nested.v)  ->  correspondence of the Coq model
(OptProj.to_dict_model) with the generated to_dict of real classes  ->  direct oracle:
an independent Python projection of the output of an option-free twin class.
"""
from __future__ import annotations

import itertools
import math
import sys
import types
from dataclasses import dataclass, field as dc_field, replace

from harness import vlib
from harness.vlib import coq_bool, coq_list, coq_str, coq_z

TRI = ("U", "F", "T")
_TV = {"U": None, "F": False, "T": True}
ALL_NS = [(a, b, c) for a in TRI for b in TRI for c in TRI]      # (omit_none, omit_default, by_alias)
OPTN = ("omit_none", "omit_default", "serialize_by_alias")


# ---------------------------------------------------------------------------
# schema description
# ---------------------------------------------------------------------------

@dataclass(frozen=True)
class Shape:
    key: str
    ty: str
    tynull: bool
    trivial: bool
    defaults: tuple          # of (kind, src)  kind in no|val|fac
    values: tuple            # python source of raw values (None only where the type admits it)
    fty_term: str = ""       # OptProj.fty term (the RESOLVED type); derived from ty when empty
    dty_term: str = ""       # K17Proofs.dty term (the DECLARED type); DTy <fty> when empty
    bound_var: bool = False  # declared with a type variable left unbound whose bound admits None (known finding
                             # omit-none-typevar-bound): tynull is what the property needs, fty_term what the code sees

    @property
    def dty(self) -> str:
        return self.dty_term or f"(DTy {self.fty})"

    @property
    def fty(self) -> str:
        if self.fty_term:
            return self.fty_term
        if self.ty == "Any":
            return "TyAny"
        return "TyOptional" if self.ty.startswith("Optional[") else "TyPlain"



SHAPES = [
    Shape("int", "int", False, True, (("no", None), ("val", "1"), ("val", "0"), ("fac", "lambda: 7")),
          ("1", "0", "7", "True", "False", "2")),
    Shape("float", "float", False, True, (("no", None), ("val", "0.0"), ("val", "float('nan')"), ("val", "1.5")),
          ("0", "0.0", "-0.0", "float('nan')", "1.5", "2.5", "False")),
    Shape("str", "str", False, True, (("no", None), ("val", "'x'"), ("val", "''")), ("'x'", "''", "'y'")),
    Shape("bool", "bool", False, True, (("no", None), ("val", "True")), ("True", "False", "1")),
    Shape("optint", "Optional[int]", True, True, (("no", None), ("val", "None"), ("val", "5"), ("fac", "lambda: None")),
          ("None", "5", "5.0", "3", "None")),
    Shape("any", "Any", True, True, (("no", None), ("val", "None"), ("val", "'q'")), ("None", "'q'", "1")),
    Shape("int_none", "int", False, True, (("val", "None"),), ("None", "1", "0")),
    Shape("date", "date", False, False, (("no", None), ("val", "date(2020, 1, 1)"), ("fac", "lambda: date(2021, 2, 3)")),
          ("date(2020, 1, 1)", "date(2021, 2, 3)", "date(1999, 9, 9)")),
    Shape("optdate", "Optional[date]", True, False, (("no", None), ("val", "None"), ("val", "date(2020, 1, 1)")),
          ("None", "date(2020, 1, 1)", "date(1999, 9, 9)", "None")),
    Shape("date_none", "date", False, False, (("val", "None"),), ("None", "date(2020, 1, 1)")),
    Shape("list", "List[int]", False, False, (("no", None), ("fac", "list"), ("fac", "lambda: [1, 2]")),
          ("[]", "[1, 2]", "[3]")),
    Shape("optlist", "Optional[List[int]]", True, False, (("val", "None"), ("fac", "list"), ("no", None)),
          ("None", "[]", "[3]")),
    Shape("tuple", "Tuple[int, ...]", False, False, (("val", "(1, 2, 3)"), ("no", None)), ("(1, 2, 3)", "(1,)")),
    # tuple defaults whose elements have no literal (rendered element-wise by get_field_default_literal)
    Shape("tuple_enum", "Tuple[Color, ...]", False, False,
          (("val", "(Color.RED, Color.BLUE)"), ("val", "(Color.RED,)"), ("no", None)),
          ("(Color.RED, Color.BLUE)", "(Color.RED,)", "()")),
    Shape("tuple_path", "Tuple[PurePosixPath, int]", False, False, (("val", "(PurePosixPath('/a'), 1)"), ("no", None)),
          ("(PurePosixPath('/a'), 1)", "(PurePosixPath('/b'), 2)")),
    Shape("opt_tuple_enum", "Optional[Tuple[Color, ...]]", True, False, (("val", "(Color.BLUE,)"), ("val", "None")),
          ("None", "(Color.BLUE,)", "(Color.RED, Color.BLUE)")),
    # Optional hidden behind Annotated / Final (is_field_nullable looks through them)
    Shape("ann_optint", "Annotated[Optional[int], 'meta']", True, True, (("val", "None"), ("no", None), ("val", "5")),
          ("None", "5", "3"), "(TyAnnotated TyOptional)"),
    Shape("fin_optdate", "Final[Optional[date]]", True, False, (("val", "None"), ("val", "date(2020, 1, 1)")),
          ("None", "date(2020, 1, 1)", "date(1999, 9, 9)"), "(TyFinal TyOptional)"),
    Shape("fin_ann_optint", "Final[Annotated[Optional[int], 'meta']]", True, True, (("val", "None"), ("val", "5")),
          ("None", "5", "3"), "(TyFinal (TyAnnotated TyOptional))"),
    Shape("ann_date", "Annotated[date, 'meta']", False, False, (("no", None), ("val", "date(2020, 1, 1)")),
          ("date(2020, 1, 1)", "date(1999, 9, 9)"), "(TyAnnotated TyPlain)"),
    Shape("ann_any", "Annotated[Any, 'meta']", True, True, (("no", None), ("val", "None")), ("None", "'q'", "1"),
          "(TyAnnotated TyAny)"),
    # a union of three members one of which is None: nullable like Optional (is_union and NoneType in get_args)
    Shape("wide_union", "Union[int, str, None]", True, True, (("no", None), ("val", "5"), ("val", "None")),
          ("None", "5", "'s'"), "TyUnionNone"),
    Shape("wide_union_date", "Union[int, date, None]", True, False, (("no", None), ("val", "5")),
          ("None", "5", "date(2020, 1, 1)"), "TyUnionNone"),
    Shape("optfloat", "Optional[float]", True, True, (("val", "float('nan')"), ("val", "None")),
          ("None", "float('nan')", "1.0")),
]
# the field `gv: T` of a generic dataclass, as the specialisation sees it (OptProj.fty is the RESOLVED type, K17Proofs.dty
# the declared one: the variable with its binding)
GENERIC_SHAPES = {
    "": Shape("tv_any", "T", True, True, (("no", None),), ("None", "1", "'q'"), "TyTypeVarAny"),     # bare G: T unbound
    "int": Shape("tv_int", "T", False, True, (("no", None),), ("1", "0", "7"), "TyPlain", "(DVar TyPlain)"),
    "date": Shape("tv_date", "T", False, False, (("no", None),), ("date(2020, 1, 1)", "date(1999, 9, 9)"), "TyPlain", "(DVar TyPlain)"),
    # T bound to Optional[...] / a wider union with None / Any: is_field_nullable resolves the variable first
    # (/repo 4da7e9e, was finding omit-none-typevar-optional) -> nullable like the binding
    "Optional[int]": Shape("tv_optint", "T", True, True, (("no", None),), ("None", "5", "3"), "TyOptional", "(DVar TyOptional)"),
    "Optional[date]": Shape("tv_optdate", "T", True, False, (("no", None),), ("None", "date(2020, 1, 1)", "date(1999, 9, 9)"),
                            "TyOptional", "(DVar TyOptional)"),
    "Union[int, str, None]": Shape("tv_wide", "T", True, True, (("no", None),), ("None", "5", "'s'"), "TyUnionNone", "(DVar TyUnionNone)"),
    "Any": Shape("tv_bound_any", "T", True, True, (("no", None),), ("None", "'q'", "1"), "TyAny", "(DVar TyAny)"),
}
# the second field `ga: Annotated[T, 'm']` of the same classes
GENERIC_ANN_SHAPES = {
    targ: replace(sh, key="a" + sh.key, ty="Annotated[T, 'm']", fty_term=f"(TyAnnotated {sh.fty})",
                  dty_term=f"(DAnnotated {sh.dty})") for targ, sh in GENERIC_SHAPES.items()}
# `gv: B`, B = TypeVar("B", bound=Optional[int]), in a class nobody specialises: the packer treats the field as its bound
# (None is a conforming value), is_field_nullable looks at the variable (not nullable)
BOUND_SHAPE = Shape("tvb_optint", "B", True, True, (("no", None),), ("None", "5", "3"), "TyPlain", "(DVarBound TyOptional)", True)
SHAPE = {s.key: s for s in SHAPES}
SHAPE.update({s.key: s for s in list(GENERIC_SHAPES.values()) + list(GENERIC_ANN_SHAPES.values()) + [BOUND_SHAPE]})


@dataclass(frozen=True)
class FieldSpec:
    name: str
    shape: str
    dkind: str               # no|val|fac
    dsrc: str | None
    alias: str | None        # the alias in effect (what __get_field_alias answers)
    omit: bool
    asrc: str = "meta"       # where the alias is written: "meta" = field metadata, "config" = the class-level table
                             # Config.aliases, "annot" = Annotated[<type>, Alias(...)]  (the three sources of __get_field_alias)
    cshadow: str | None = None   # a Config.aliases entry for a field whose metadata names another alias (metadata wins)

    @property
    def sh(self) -> Shape:
        return SHAPE[self.shape]

    @property
    def ty_src(self) -> str:
        return f"Annotated[{self.sh.ty}, Alias({self.alias!r})]" if (self.asrc == "annot" and self.alias is not None) else self.sh.ty

    @property
    def fty(self) -> str:
        return f"(TyAnnotated {self.sh.fty})" if (self.asrc == "annot" and self.alias is not None) else self.sh.fty

    @property
    def nullable(self) -> bool:      # as CodeBuilder.is_field_nullable sees it
        return self.sh.tynull or (self.dkind == "val" and self.dsrc == "None")

    @property
    def admits_none(self) -> bool:   # a conforming instance may hold None
        return self.nullable


@dataclass(frozen=True)
class Opts:
    call: tuple | None = None      # namespaces are triples over TRI, None = no dialect
    cfgd: tuple | None = None
    cfg: tuple = ("U", "U", "U")
    dd: tuple | None = None
    sort: bool = False
    fon: bool = False
    fba: bool = False
    fdl: bool = False
    fcx: bool = False
    lazy: bool = False
    cfg_style: int = 0             # 0: class Config(BaseConfig); 1: plain class Config; >= 2: plain Config deriving from a
                                   # plain parent class that holds the lines selected by the bits (and contradicting values
                                   # for overridden options)
    kon: bool | None = None
    kba: bool | None = None
    kcx: bool = False
    entry: str = "to_dict"         # to_dict | codec

    def levels(self, with_call=True):
        return [self.call if with_call else None, self.cfgd, self.cfg, self.dd]


def look(levels, i) -> bool:
    for ns in levels:
        if ns is not None and ns[i] != "U":
            return ns[i] == "T"
    return False


# ---------------------------------------------------------------------------
# materialisation as Python source
# ---------------------------------------------------------------------------

HEADER = """import enum
from dataclasses import dataclass, field
from datetime import date
from pathlib import PurePosixPath
from typing import Annotated, Any, Dict, Final, Generic, List, Optional, Tuple, TypeVar, Union
from mashumaro import DataClassDictMixin
from mashumaro.config import (BaseConfig, TO_DICT_ADD_OMIT_NONE_FLAG, TO_DICT_ADD_BY_ALIAS_FLAG,
                              ADD_DIALECT_SUPPORT, ADD_SERIALIZATION_CONTEXT)
from mashumaro.dialect import Dialect
from mashumaro.mixins.toml import DataClassTOMLMixin
from mashumaro.types import Alias
T = TypeVar("T")
B = TypeVar("B", bound=Optional[int])
class Color(enum.Enum):
    RED = 1
    BLUE = 2
"""


def dialect_source(name: str, ns: tuple) -> str:
    body = [f"    {OPTN[i]} = {_TV[ns[i]]}" for i in range(3) if ns[i] != "U"]
    return f"class {name}(Dialect):\n" + ("\n".join(body) if body else "    pass") + "\n"


def field_line(f: FieldSpec, plain: bool) -> str:
    args = []
    if f.dkind == "val":
        args.append(f"default={f.dsrc}")
    elif f.dkind == "fac":
        args.append(f"default_factory={f.dsrc}")
    md = {}
    if f.alias is not None and f.asrc == "meta":
        md["alias"] = f.alias
    if f.omit and not plain:
        md["serialize"] = "omit"
    if md:
        args.append(f"metadata={md!r}")
    if not args:
        return f"    {f.name}: {f.ty_src}"
    return f"    {f.name}: {f.ty_src} = field({', '.join(args)})"


def flags_src(fon, fba, fdl, fcx) -> str:
    fl = []
    if fon:
        fl.append("TO_DICT_ADD_OMIT_NONE_FLAG")
    if fba:
        fl.append("TO_DICT_ADD_BY_ALIAS_FLAG")
    if fdl:
        fl.append("ADD_DIALECT_SUPPORT")
    if fcx:
        fl.append("ADD_SERIALIZATION_CONTEXT")
    return "[" + ", ".join(fl) + "]"


def config_aliases(fields) -> dict:
    """the class-level alias table Config.aliases the field list asks for"""
    out = {}
    for f in fields:
        if isinstance(f, FieldSpec):
            if f.alias is not None and f.asrc == "config":
                out[f.name] = f.alias
            elif f.alias is not None and f.cshadow is not None:
                out[f.name] = f.cshadow
    return out


def config_lines(o: Opts, cfgd_name: str | None, aliases: dict | None = None) -> list[str]:
    cfg = []
    if aliases:
        cfg.append(f"        aliases = {aliases!r}")
    for i in range(3):
        if o.cfg[i] != "U":
            cfg.append(f"        {OPTN[i]} = {_TV[o.cfg[i]]}")
    if cfgd_name is not None:
        cfg.append(f"        dialect = {cfgd_name}")
    if o.sort:
        cfg.append("        sort_keys = True")
    if o.lazy:
        cfg.append("        lazy_compilation = True")
    if o.fon or o.fba or o.fdl or o.fcx:
        cfg.append("        code_generation_options = " + flags_src(o.fon, o.fba, o.fdl, o.fcx))
    return cfg


def class_source(name: str, fields: list, o: Opts | None, extra_lines: list[str] | None = None,
                 cfgd_name: str = "CfgD", mixin: bool = True, base: str | None = None) -> str:
    """o = None: the option-free twin (also: no Config of its own).  mixin=False: a plain dataclass (compiled by whichever
    class meets it first).  base: the dataclass it derives from (fields = own fields only)."""
    src = f"@dataclass(kw_only=True)\nclass {name}" + (f"({base})" if base else ("(DataClassDictMixin)" if mixin else "")) + ":\n"
    lines = [field_line(f, o is None) if isinstance(f, FieldSpec) else f for f in fields] + (extra_lines or [])
    src += ("\n".join(lines) if lines else "    pass") + "\n"
    if o is not None:
        cfg = config_lines(o, cfgd_name if o.cfgd is not None else None, config_aliases(fields))
        if cfg and o.cfg_style == 0:
            src += "    class Config(BaseConfig):\n" + "\n".join(cfg) + "\n"
        elif cfg and o.cfg_style == 1:
            src += "    class Config:\n" + "\n".join(cfg) + "\n"
        elif cfg:
            # inherited plain Config: what the Config class itself defines wins over its parent, the parent over BaseConfig
            parent, child = [], []
            for i, ln in enumerate(cfg):
                (parent if (o.cfg_style >> (i + 1)) & 1 else child).append(ln)
            for i, ln in enumerate(child):
                key, _, val = ln.strip().partition(" = ")
                if key in OPTN and (o.cfg_style >> (i + 8)) & 1:
                    parent.append(f"        {key} = {not eval(val)}")        # overridden by the child
            psrc = f"class {name}Opts:\n" + ("\n".join(x[4:] for x in parent) if parent else "    pass") + "\n"
            src = psrc + src + f"    class Config({name}Opts):\n" + ("\n".join(child) if child else "        pass") + "\n"
    return src


def flat_source(fields: list[FieldSpec], o: Opts) -> str:
    src = HEADER
    if o.call is not None:
        src += dialect_source("CallD", o.call)
    if o.cfgd is not None:
        src += dialect_source("CfgD", o.cfgd)
    if o.dd is not None and o.entry != "toml":
        src += dialect_source("DefD", o.dd)
    # entry "toml": the class derives from DataClassTOMLMixin, whose builder gets default_dialect=TOMLDialect
    # (omit_none = True): the fourth option level on the mixin path
    src += class_source("X", fields, o, base="DataClassTOMLMixin" if o.entry == "toml" else None)
    src += class_source("XPlain", fields, None)
    return src


_modcount = itertools.count()


def load(src: str) -> dict:
    """classes live in a registered module (lazy compilation and codecs resolve names through
    sys.modules); unload(ns) removes it again"""
    name = f"_c08_case_{next(_modcount)}"
    mod = types.ModuleType(name)
    sys.modules[name] = mod
    try:
        exec(compile(src, name, "exec"), mod.__dict__)
    except BaseException:
        sys.modules.pop(name, None)
        raise
    return mod.__dict__


def unload(ns: dict):
    sys.modules.pop(ns.get("__name__", ""), None)


def call_kwargs(o: Opts, ns: dict) -> dict:
    kw = {}
    if o.kon is not None:
        kw["omit_none"] = o.kon
    if o.kba is not None:
        kw["by_alias"] = o.kba
    if o.call is not None:
        kw["dialect"] = ns["CallD"]
    if o.kcx:
        kw["context"] = {"c": 1}
    return kw


def kwargs_src(o: Opts) -> str:
    parts = []
    if o.kon is not None:
        parts.append(f"omit_none={o.kon}")
    if o.kba is not None:
        parts.append(f"by_alias={o.kba}")
    if o.call is not None:
        parts.append("dialect=CallD")
    if o.kcx:
        parts.append("context={'c': 1}")
    return ", ".join(parts)


def run_entry(o: Opts, ns: dict, cls: str, inst):
    if o.entry == "codec":
        from mashumaro.codecs.basic import BasicEncoder
        enc = BasicEncoder(ns[cls], default_dialect=ns["DefD"] if o.dd is not None else None)
        return enc.encode(inst)
    if o.entry == "toml":
        import tomllib
        return tomllib.loads(inst.to_toml(**call_kwargs(o, ns)))
    return inst.to_dict(**call_kwargs(o, ns))


def typed(v):
    """type-sensitive canonical form of an output (True != 1, order of keys kept)"""
    if isinstance(v, dict):
        return ("dict", tuple((k, typed(x)) for k, x in v.items()))
    if isinstance(v, (list, tuple)):
        return (type(v).__name__, tuple(typed(x) for x in v))
    if isinstance(v, float) and math.isnan(v):
        return ("float", "nan")
    return (type(v).__name__, repr(v))


# ---------------------------------------------------------------------------
# the reference projection (independent of the Coq development)
# ---------------------------------------------------------------------------

def effective(o: Opts) -> dict:
    """keyword argument > call dialect > Config.dialect > Config > default dialect > False"""
    lv = o.levels()
    return {"on": o.kon if o.kon is not None else look(lv, 0),
            "od": look(lv, 1),
            "ba": o.kba if o.kba is not None else look(lv, 2),
            "sort": o.sort}


def effective_d14(o: Opts) -> dict:
    """what the known finding call-dialect-vs-flag-defaults yields: with the keyword feature the
    default method forwards its own keyword default (computed without the call dialect)"""
    e = effective(o)
    if o.fon and o.kon is None:
        e["on"] = look(o.levels(with_call=False), 0)
    if o.fba and o.kba is None:
        e["ba"] = look(o.levels(with_call=False), 2)
    return e


def d14_signature(o: Opts) -> bool:
    """DESIGN 3.1: ADD_DIALECT_SUPPORT and a keyword feature; the call passes dialect=D and not the
    keyword; D sets the option to a value different from the default method's keyword default."""
    if not (o.fdl and o.call is not None):
        return False
    a = o.fon and o.kon is None and look(o.levels(), 0) != look(o.levels(with_call=False), 0)
    b = o.fba and o.kba is None and look(o.levels(), 2) != look(o.levels(with_call=False), 2)
    return bool(a or b)


def equals_default(raw, d) -> bool:
    if isinstance(d, float) and math.isnan(d):
        return isinstance(raw, float) and math.isnan(raw)
    return bool(raw == d)


def project(e: dict, fields: list[FieldSpec], defaults: dict, inst, plain: dict, sub=None, keep_none=()) -> dict:
    names = [f.name for f in fields]
    assert list(plain.keys()) == names, (list(plain.keys()), names)
    by = {f.name: f for f in fields}
    if e["sort"]:
        names = sorted(names)
    out = {}
    for n in names:
        f = by[n]
        v = plain[n] if sub is None or n not in sub else sub[n]
        if f.omit:
            continue
        if e["on"] and plain[n] is None and n not in keep_none:
            continue
        if e["od"] and n in defaults and equals_default(getattr(inst, n), defaults[n]):
            continue
        out[f.alias if (e["ba"] and f.alias is not None) else n] = v
    return out


def field_defaults(fields: list[FieldSpec], ns: dict) -> dict:
    out = {}
    for f in fields:
        if f.dkind == "val":
            out[f.name] = eval(f.dsrc, ns)
        elif f.dkind == "fac":
            out[f.name] = eval(f.dsrc, ns)()
    return out


# ---------------------------------------------------------------------------
# generators
# ---------------------------------------------------------------------------

NAMES = ["zeta", "b", "alpha", "m", "a", "yy", "k2", "B", "c_", "x"]
ALIASES = ["A", "zz", "b_alias", "0k", "Key", "aa", "it's", "q"]


TOML_SHAPES = ("int", "float", "str", "bool", "optint", "any", "int_none", "list", "optlist", "ann_optint",
               "fin_ann_optint", "ann_any", "wide_union")       # values identical in to_dict and after a TOML round trip


def gen_fields(rng, nmax=6, collide=0.08, shapes=None, cfg_alias=0.0) -> list[FieldSpec]:
    """cfg_alias: probability that the class writes its aliases into Config.aliases (per class; then per field: the table,
    the field metadata, Annotated[..., Alias()], or the table shadowed by one of the other two); 0: metadata only"""
    table = rng.random() < cfg_alias if cfg_alias else False
    n = rng.randint(1, nmax)
    names = rng.sample(NAMES, n)
    aliases = rng.sample(ALIASES, len(ALIASES))
    fields = []
    for i, nm in enumerate(names):
        sh = rng.choice(SHAPES if shapes is None else [x for x in SHAPES if x.key in shapes])
        dk, ds = rng.choice(sh.defaults)
        al = None
        if rng.random() < 0.5:
            al = aliases[i % len(aliases)]
            if rng.random() < collide:       # an alias equal to another field's name / alias: keys merge
                al = rng.choice(names + [aliases[0]])
        omit = rng.random() < 0.12
        asrc, shadow = "meta", None
        if cfg_alias and al is not None:
            r = rng.random()
            can_annot = not sh.ty.startswith("Final[")
            if table:
                if r < 0.5:
                    asrc = "config"
                elif r < 0.65:
                    shadow = aliases[(i + 3) % len(aliases)]                  # metadata wins over the table
                elif r < 0.8 and can_annot:
                    asrc, shadow = "annot", aliases[(i + 3) % len(aliases)]   # Annotated Alias wins over the table
            elif r < 0.25 and can_annot:
                asrc = "annot"
        fields.append(FieldSpec(nm, sh.key, dk, ds, al, omit, asrc, shadow))
    return fields


def gen_ns(rng, p_none=0.35):
    if rng.random() < p_none:
        return None
    return (rng.choice(TRI), rng.choice(TRI), rng.choice(TRI))


def gen_cfg_style(rng) -> int:
    r = rng.random()
    return 0 if r < 0.6 else (1 if r < 0.72 else rng.randrange(2, 1 << 12))


def gen_opts(rng, entry="to_dict") -> Opts:
    if entry == "codec":
        return Opts(call=None, cfgd=gen_ns(rng), cfg=gen_ns(rng, 0.0), dd=gen_ns(rng, 0.15), sort=rng.random() < 0.4,
                    fon=rng.random() < 0.3, fba=rng.random() < 0.3, fdl=rng.random() < 0.3, fcx=rng.random() < 0.2,
                    entry="codec", cfg_style=gen_cfg_style(rng))
    fon, fba, fdl, fcx = (rng.random() < 0.5 for _ in range(4))
    call = gen_ns(rng, 0.3) if fdl else None
    return Opts(call=call, cfgd=gen_ns(rng), cfg=gen_ns(rng, 0.0), dd=None, sort=rng.random() < 0.4,
                fon=fon, fba=fba, fdl=fdl, fcx=fcx, lazy=rng.random() < 0.25,
                kon=rng.choice([None, True, False]) if fon else None,
                kba=rng.choice([None, True, False]) if fba else None,
                kcx=fcx and rng.random() < 0.5, cfg_style=gen_cfg_style(rng))


def kw_variants(o: Opts, rng, k: int) -> list[Opts]:
    """several calls on the same class: different keyword arguments"""
    out = [o]
    for _ in range(k):
        out.append(replace(o, kon=rng.choice([None, True, False]) if o.fon else None,
                           kba=rng.choice([None, True, False]) if o.fba else None,
                           call=o.call if rng.random() < 0.7 else None,
                           kcx=o.fcx and rng.random() < 0.5))
    return out


def gen_values(rng, fields: list[FieldSpec]) -> list[str]:
    vals = []
    for f in fields:
        cands = [v for v in f.sh.values if v != "None" or f.admits_none]
        r = rng.random()
        if f.dkind != "no" and r < 0.3:
            # the default itself (for a factory: a fresh call)
            vals.append(f.dsrc if f.dkind == "val" else f"({f.dsrc})()")
        elif f.admits_none and r < 0.5:
            vals.append("None")
        else:
            vals.append(rng.choice(cands))
    return vals


def inst_src(cls: str, fields: list[FieldSpec], vals: list[str]) -> str:
    return f"{cls}(" + ", ".join(f"{f.name}={v}" for f, v in zip(fields, vals)) + ")"


# ---------------------------------------------------------------------------
# Coq terms
# ---------------------------------------------------------------------------

class PvEnc:
    """Python value -> OptProj.pv; other objects are numbered up to (type, repr)."""

    def __init__(self):
        self.ids: dict = {}

    def __call__(self, v) -> str:
        if v is None:
            return "PNone"
        if isinstance(v, bool):
            return f"(PBool {coq_bool(v)})"
        if isinstance(v, int):
            return f"(PInt {coq_z(v)})"
        if isinstance(v, float):
            if math.isnan(v):
                return "PNaN"
            if not math.isinf(v) and v == int(v):
                return f"(PFlt {coq_z(int(v))})"
            key = ("float", repr(v))
            if key not in self.ids:
                self.ids[key] = len(self.ids)
            return f"(PFltX {self.ids[key]})"
        if isinstance(v, str):
            return f"(PStr {coq_str(v)})"
        key = (type(v).__name__, repr(v))
        if key not in self.ids:
            self.ids[key] = len(self.ids)
        return f"(POpq {self.ids[key]})"


COQ_DEFS = """
Definition N a b c := {| n_on := a; n_od := b; n_ba := c |}.
Definition O call cfgd cfg dd srt fon fba fdl fcx kon kba :=
  {| o_call := call; o_cfgd := cfgd; o_cfg := cfg; o_dd := dd; o_sort := srt; o_fon := fon; o_fba := fba;
     o_fdl := fdl; o_fcx := fcx; o_kon := kon; o_kba := kba |}.
Definition P n a ty tr d om := {| p_name := n; p_alias := a; p_ty := ty; p_trivial := tr; p_default := d; p_omit := om |}.
Fixpoint bools_eqb (a b: list bool) : bool :=
  match a, b with [], [] => true | x :: r, y :: t => Bool.eqb x y && bools_eqb r t | _, _ => false end.
Definition case_ok (c: opts * list fplan * list fval * option (list (string * pv)) * (bool * list bool)) : bool :=
  match c with (o, fs, vs, expected, (py_d14, py_nullable)) =>
    match to_dict_model o fs vs, expected with
    | Some l, Some e => pairs_eqb (dict_of l) e
    | None, None => true          (* TypeError *)
    | _, _ => false end
    && Bool.eqb (negb (flag_defaults_ok o)) py_d14 && kw_ok o && vals_ok fs vs
    && match py_nullable with [] => true | _ => bools_eqb (map nullable fs) py_nullable end end.
"""


def coq_ns(ns) -> str:
    return "None" if ns is None else f"(Some (N {ns[0]} {ns[1]} {ns[2]}))"


def coq_ob(b) -> str:
    return "None" if b is None else f"(Some {coq_bool(b)})"


def coq_opts(o: Opts) -> str:
    cfg = f"(N {o.cfg[0]} {o.cfg[1]} {o.cfg[2]})"
    return (f"(O {coq_ns(o.call)} {coq_ns(o.cfgd)} {cfg} {coq_ns(o.dd)} {coq_bool(o.sort)} {coq_bool(o.fon)} "
            f"{coq_bool(o.fba)} {coq_bool(o.fdl)} {coq_bool(o.fcx)} {coq_ob(o.kon)} {coq_ob(o.kba)})")


def coq_field(f: FieldSpec, defaults: dict, enc: PvEnc) -> str:
    al = "None" if f.alias is None else f"(Some {coq_str(f.alias)})"
    if f.dkind == "no":
        d = "DNo"
    elif f.dkind == "val":
        d = f"(DVal {enc(defaults[f.name])})"
    else:
        d = f"(DFac {enc(defaults[f.name])})"
    return f"(P {coq_str(f.name)} {al} {f.fty} {coq_bool(f.sh.trivial)} {d} {coq_bool(f.omit)})"


def coq_case(o: Opts, fields, defaults, inst, plain: dict, observed, real_nullable=None) -> str:
    """observed: the mapping, or None when the call raised TypeError"""
    enc = PvEnc()
    fs = coq_list(coq_field(f, defaults, enc) for f in fields)
    vs = coq_list(f"({enc(getattr(inst, f.name))}, {enc(plain[f.name])})" for f in fields)
    if observed is None:
        exp = "None"
    else:
        exp = "(Some " + coq_list(f"({coq_str(k)}, {enc(v)})" for k, v in observed.items()) + ")"
    return (f"({coq_opts(o)}, {fs}, {vs}, {exp}, ({coq_bool(d14_signature(o))}, "
            f"{coq_list(coq_bool(b) for b in (real_nullable or []))}))")


def real_nullables(ns: dict, cls: str, fields, type_args: tuple = ()) -> list:
    """CodeBuilder.is_field_nullable of the REAL class (specialised with type_args) for every field: tie of the harness's
    shape table and of the model's `nullable` to the implementation.  Fails closed: if the builder cannot be asked, the
    answer has the wrong length and every comparison with it is a mismatch."""
    try:
        from mashumaro.core.meta.code.builder import CodeBuilder
        b = CodeBuilder(ns[cls], type_args)
        b.reset()                # resolved_type_params (get_real_type needs them)
        ft = b.get_field_types(include_extras=True)
        return [bool(b.is_field_nullable(f.name, ft[f.name])) for f in fields]
    except Exception:
        return [True] * (len(fields) + 1)


EMIT_DEFS = """
(* the text the TRANSLATED emitters (kernel K108a) produce = the text the real ones wrote on the real class *)
Definition ecase_ok (c: kv * string * bool * bool * string * option string * bool * bool * list string) : bool :=
  match c with (dv, lit, isnan, sba, fname, al, baf, od, expected) =>
    match set_value dv (KStr lit) (KBool isnan) (KBool sba) (KStr fname) (match al with Some a => KStr a | None => KNone end)
                    (KBool baf) (KStr "<packed>") (KBool od) with
    | Ok l => strs_eqb (render 6 "" l) expected
    | _ => false end end.
"""


LOOP_DEFS = """
(* the text of the whole `kwargs = {}` loop of the REAL _add_pack_method_lines = the concatenation, field by field, of the
   text the TRANSLATED loop body (kernel K108a, pack_field_lines) produces from the per-field data of the real builder *)
Definition fcase := (kv * string * bool * option string * bool * bool * string * string)%type.
Definition field_text (sba fv od on fon fba: bool) (f: fcase) : option (list string) :=
  match f with (dv, lit, isnan, al, nullable, trivial, fname, packer) =>
    match pack_field_lines dv (KStr lit) (KBool isnan) (KBool sba) (match al with Some a => KStr a | None => KNone end)
                           (KBool nullable) (KBool trivial) (KBool fv) (KBool od) (KBool on) (KBool fon) (KBool fba)
                           (KStr fname) (KStr packer) with
    | Ok l => Some (render 8 "" l)
    | _ => None end end.
Fixpoint all_text (sba fv od on fon fba: bool) (fs: list fcase) : option (list string) :=
  match fs with
  | [] => Some []
  | f :: r => match field_text sba fv od on fon fba f, all_text sba fv od on fon fba r with
              | Some a, Some b => Some (a ++ b)%list | _, _ => None end end.
Definition lcase_ok (c: (bool * bool * bool * bool * bool * bool) * list fcase * list string) : bool :=
  match c with ((sba, fv, od, on, fon, fba), fs, expected) =>
    match all_text sba fv od on fon fba fs with Some t => strs_eqb t expected | None => false end end.
"""


def loop_case(ns: dict, cls: str, dialect, lcases: dict):
    """the whole per-field part of the method text a REAL builder of the class writes (kwargs form only), next to the
    per-field data the translated loop body gets.  Fails closed (a case that never holds)."""
    from dataclasses import MISSING
    try:
        from mashumaro.core.meta.code.builder import CodeBuilder
        from mashumaro.config import TO_DICT_ADD_BY_ALIAS_FLAG, TO_DICT_ADD_OMIT_NONE_FLAG
        b = CodeBuilder(ns[cls], dialect=dialect, allow_postponed_evaluation=False)
        b.reset()
        config = b.get_config()
        sba = bool(b.get_dialect_or_config_option("serialize_by_alias", False))
        od = bool(b.get_dialect_or_config_option("omit_default", False))
        on = bool(b.get_dialect_or_config_option("omit_none", False))
        fon = bool(b.is_code_generation_option_enabled(TO_DICT_ADD_OMIT_NONE_FLAG))
        fba = bool(b.is_code_generation_option_enabled(TO_DICT_ADD_BY_ALIAS_FLAG))
        fv = od                                                   # force_value = omit_default
        items = list(b.get_field_types(include_extras=True).items())
        if config.sort_keys:
            items = sorted(items, key=lambda x: x[0])
        literal_of = b.get_field_default_literal
        lits, dflt = {}, {}
        for fname, ftype in items:
            default = b.get_field_default(fname, call_factory=True)
            dflt[fname] = default
            lits[fname] = literal_of(default) if default is not MISSING else ""
        # the literal of a default without a Python literal is a fresh name on every call (so are the names of union
        # packers): pin the literal per field, record what _get_field_packer returns DURING the real emission
        real_set = b._pack_method_set_value
        real_packer = b._get_field_packer
        cur, seen = {}, []

        def get_field_packer(fname, ftype, config, force_value):
            r = real_packer(fname, ftype, config, force_value)
            seen.append((fname, force_value) + tuple(r))
            return r
        b._get_field_packer = get_field_packer

        def set_value(**kw):
            cur["f"] = kw["fname"]
            return real_set(**kw)
        b._pack_method_set_value = set_value
        b.get_field_default_literal = lambda v: lits[cur["f"]]
        b.lines.reset()
        b._add_pack_method_lines("m")
        text = b.lines.as_text().split("\n")
        if "kwargs = {}" not in text:
            return                                            # dict literal form: no per-field statements
        i = text.index("kwargs = {}")
        if not text[-1].startswith("return "):
            raise ValueError("no return line")
        body = text[i + 1:-1]
        fcs = []
        for fname, force_value, packer, alias, could_be_none in seen:
            if not repr_simple(fname) or (alias is not None and not repr_simple(alias)) or force_value != fv:
                return
            default = dflt[fname]
            dv = "KMissing" if default is MISSING else ("KNone" if default is None else "(KObj 7)")
            isnan = isinstance(default, float) and math.isnan(default)
            al = "None" if alias is None else f"(Some {coq_str(alias)})"
            fcs.append(f"({dv}, {coq_str(lits[fname])}, {coq_bool(isnan)}, {al}, {coq_bool(bool(could_be_none))}, "
                       f"{coq_bool(packer == 'value')}, {coq_str(fname)}, {coq_str(packer)})")
        lcases[f"(({coq_bool(sba)}, {coq_bool(fv)}, {coq_bool(od)}, {coq_bool(on)}, {coq_bool(fon)}, {coq_bool(fba)}), "
               f"{coq_list(fcs)}, {coq_list(coq_str(t) for t in body)})"] = None
    except Exception as ex:
        lcases[f"((false, false, false, false, false, false), [], [\"{type(ex).__name__}\"])"] = None


def repr_simple(s: str) -> bool:
    """str whose repr OptEmit.py_repr renders: printable ASCII, no backslash, not both kinds of quotes"""
    return all(32 <= ord(c) < 127 and c != "\\" for c in s) and not ("'" in s and '"' in s)


def emitted_cases(ns: dict, cls: str, fields, dialect, ecases: dict):
    """_pack_method_set_value of a REAL builder of the class for every field x by_alias feature x omit_default: the lines
    it writes, next to the arguments the translated emitter gets.  Fails closed (a case that never holds)."""
    from dataclasses import MISSING
    try:
        from mashumaro.core.meta.code.builder import CodeBuilder
        b = CodeBuilder(ns[cls], dialect=dialect)
        b.reset()
        sba = bool(b.get_dialect_or_config_option("serialize_by_alias", False))
        literal_of = b.get_field_default_literal
        for f in fields:
            if not repr_simple(f.name) or (f.alias is not None and not repr_simple(f.alias)):
                continue
            default = b.get_field_default(f.name, call_factory=True)
            has = default is not MISSING
            lit = literal_of(default) if has else ""
            # the literal of a default without a Python literal is a fresh name on every call: the emitter under test gets the
            # one computed here (the abstraction a_default_literal of kernel K108a)
            b.get_field_default_literal = lambda v, _l=lit: _l
            isnan = isinstance(default, float) and math.isnan(default)
            for baf in (False, True):
                for od in (False, True):
                    b.lines.reset()
                    b._pack_method_set_value(f.name, f.alias, baf, "<packed>", od)
                    text = b.lines.as_text().split("\n")
                    al = "None" if f.alias is None else f"(Some {coq_str(f.alias)})"
                    ecases[f"({'(KObj 7)' if has else 'KMissing'}, {coq_str(lit)}, {coq_bool(isnan)}, {coq_bool(sba)}, "
                           f"{coq_str(f.name)}, {al}, {coq_bool(baf)}, {coq_bool(od)}, {coq_list(coq_str(t) for t in text)})"] = None
    except Exception as ex:
        ecases[f"(KMissing, \"\", false, false, \"\", None, false, false, []) (* {type(ex).__name__} *)"] = None


# ---------------------------------------------------------------------------
# one flat evaluation: real classes, oracle, case for the correspondence
# ---------------------------------------------------------------------------

@dataclass
class Eval:
    src: str
    o: Opts
    fields: list
    vals: list
    ok: bool
    what: str = ""
    observed: object = None
    expected: object = None
    plain: object = None
    coq: str | None = None
    kind: str = ""


def flat_replay_dict(ev: Eval) -> dict:
    return {"kind_of_case": "flat", "source": ev.src, "cls": "X", "twin": "XPlain",
            "instance": inst_src("X", ev.fields, ev.vals), "twin_instance": inst_src("XPlain", ev.fields, ev.vals),
            "entry": ev.o.entry, "kwargs": kwargs_src(ev.o), "default_dialect": "DefD" if ev.o.dd is not None else None,
            "observed": repr(ev.observed), "expected": repr(ev.expected), "plain": repr(ev.plain),
            "options": repr(ev.o)}


def eval_flat(ns: dict, src: str, fields, o: Opts, vals, want_coq=True) -> Eval:
    ev = Eval(src, o, fields, vals, True)
    defaults = field_defaults(fields, ns)
    inst = eval(inst_src("X", fields, vals), ns)
    twin = eval(inst_src("XPlain", fields, vals), ns)
    try:
        plain = twin.to_dict()
    except Exception as ex:   # the option-free class itself does not serialize: nothing to project
        ev.ok = False
        ev.kind = "plain-raised-" + type(ex).__name__
        ev.observed = ev.expected = None
        ev.what = f"the option-free twin raised {type(ex).__name__}: {ex}"
        return ev
    ev.plain = plain
    e = effective(o)
    expected = project(e, fields, defaults, inst, plain)
    ev.expected = expected
    if o.entry == "toml" and any(v is None for v in expected.values()):
        ev.kind = "toml-unrepresentable"       # TOML has no null: outside (tomli_w raises TypeError)
        return ev
    try:
        observed = run_entry(o, ns, "X", inst)
    except Exception as ex:  # the property promises a mapping
        ev.ok = False
        ev.observed = f"{type(ex).__name__}: {ex}"
        ev.what = (f"to_dict({kwargs_src(o)}) raised {type(ex).__name__}: {ex}; projection of the plain output "
                   f"{plain!r} is {expected!r}")
        ev.kind = "raised-" + type(ex).__name__
        if o.entry == "toml" and isinstance(ex, TypeError) and "not TOML serializable" in str(ex):
            # the encoder met a None: the mapping handed to it kept a None-valued key.  Under the signature of
            # call-dialect-vs-flag-defaults that is the listed finding (the mapping predicted for it contains None)
            if d14_signature(o) and any(v is None for v in project(effective_d14(o), fields, defaults, inst, plain).values()):
                ev.kind = "call-dialect-vs-flag-defaults"
        elif isinstance(ex, TypeError):
            if want_coq:
                ev.coq = coq_case(o, fields, defaults, inst, plain, None, real_nullables(ns, "X", fields))
        return ev
    ev.observed = observed
    if want_coq and isinstance(observed, dict):
        ev.coq = coq_case(o, fields, defaults, inst, plain, observed, real_nullables(ns, "X", fields))
    if typed(observed) != typed(expected):
        ev.ok = False
        ev.kind = "projection-mismatch"
        if d14_signature(o) and typed(observed) == typed(project(effective_d14(o), fields, defaults, inst, plain)):
            ev.kind = "call-dialect-vs-flag-defaults"
        ev.what = f"to_dict({kwargs_src(o)}) = {observed!r}, projection of the plain output {plain!r} is {expected!r}"
    return ev


def flat_signature(ev: Eval) -> dict:
    return {"kind": ev.kind, "entry": ev.o.entry}


def flat_key(fields, o: Opts, vals):
    return (tuple((f.shape, f.dkind, f.dsrc, f.alias is not None, f.omit) for f in fields),
            (o.call, o.cfgd, o.cfg, o.dd, o.sort, o.fon, o.fba, o.fdl, o.fcx, o.lazy, o.kon, o.kba, o.entry, o.cfg_style), tuple(vals))


# ---------------------------------------------------------------------------
# fixed family for the exhaustive lattice sweep (thorough tier)
# ---------------------------------------------------------------------------

FAMILY = [
    FieldSpec("zeta", "int", "val", "1", "A", False),
    FieldSpec("b", "optdate", "val", "None", None, False),
    FieldSpec("alpha", "date", "no", None, "zz", False),
    FieldSpec("m", "optint", "val", "5", "Key", False),
    FieldSpec("a", "list", "fac", "list", None, False),
    FieldSpec("k2", "int_none", "val", "None", "0k", False),
]
FAMILY_VALUES = [
    ["1", "None", "date(2020, 1, 1)", "None", "[]", "None"],
    ["True", "date(1999, 9, 9)", "date(2020, 1, 1)", "5.0", "[3]", "1"],
]


def family_source(cfgd, cfg, fon, fba, sort) -> tuple[str, Opts]:
    o = Opts(call=None, cfgd=cfgd, cfg=cfg, sort=sort, fon=fon, fba=fba, fdl=True)
    src = HEADER
    for i, ns in enumerate(ALL_NS):
        src += dialect_source(f"Call{i}", ns)
    if cfgd is not None:
        src += dialect_source("CfgD", cfgd)
    src += class_source("X", FAMILY, o)
    src += class_source("XPlain", FAMILY, None)
    return src, o


# ---------------------------------------------------------------------------
# nested classes (mixin path): class tables, instance trees, hereditary reference
# ---------------------------------------------------------------------------

@dataclass(frozen=True)
class DcField:
    name: str
    members: tuple            # class ids; len 1: field of that class, >1: Union
    optional: bool
    alias: str | None
    omit: bool
    many: bool = False        # List[<class>] with default_factory=list
    mapping: bool = False     # Dict[str, <class>] with default_factory=dict

    def ty(self, prefix: str, table=None) -> str:
        def ref(m):       # a generic class is referenced as C<m>[<its type argument>] (bare when it has none)
            c = table[m] if table is not None else None
            return prefix + str(m) + (f"[{c.targ}]" if c is not None and c.generic and c.targ else "")
        t = ref(self.members[0]) if len(self.members) == 1 else "Union[" + ", ".join(ref(m) for m in self.members) + "]"
        if self.many:
            return f"List[{t}]"
        if self.mapping:
            return f"Dict[str, {t}]"
        return f"Optional[{t}]" if self.optional else t


@dataclass(frozen=True)
class NCls:
    o: Opts                   # class-level part only (cfgd, cfg, sort, flags, lazy)
    fields: tuple             # of FieldSpec | DcField
    mixin: bool = True        # False: plain @dataclass (with a Config of its own iff o sets anything)
    parent: int | None = None # derives from that class: the first n_inh fields and (unless own_cfg) o are inherited
    n_inh: int = 0
    own_cfg: bool = True
    cfg_owner: int = -1       # class whose CfgD<id> dialect class o.cfgd refers to
    generic: bool = False     # class C(Generic[T]) with the fields `gv: T` [, `ga: Annotated[T, 'm']`]; every reference uses the same targ
    targ: str = ""
    tvar: str = "T"           # "B": Generic[B] with `gv: B` (bounded variable; never specialised)


LEAF_NESTED = [("optint", "val", "None"), ("int", "val", "1"), ("date", "no", None), ("optdate", "val", "None"),
               ("any", "val", "None"), ("int_none", "val", "None")]


def gen_table(rng, unions: bool = True, inherit: bool = True, generics: float = 0.3) -> list[NCls]:
    """class 0 is a mixin root; the others are mixin subclasses, plain dataclasses with a Config, or plain
    dataclasses without any Config; class i only refers to classes j > i"""
    n = rng.randint(2, 5)
    table: list[NCls] = [None] * n
    for cid in range(n - 1, -1, -1):
        r = rng.random()
        mixin = cid == 0 or r < 0.45
        bare = (not mixin) and r > 0.7                    # plain dataclass, no Config at all
        if bare:
            o = Opts()
        else:
            fon, fba, fdl, fcx = (rng.random() < 0.5 for _ in range(4))
            o = Opts(cfgd=gen_ns(rng, 0.45), cfg=gen_ns(rng, 0.3) or ("U", "U", "U"), sort=rng.random() < 0.3,
                     fon=fon, fba=fba, fdl=fdl, fcx=fcx, lazy=mixin and rng.random() < 0.2, cfg_style=gen_cfg_style(rng))
        later = list(range(cid + 1, n))
        bases = [j for j in later if not table[j].generic]       # a generic class is specialised by its users, not derived from
        parent = rng.choice(bases) if (inherit and bases and rng.random() < 0.3) else None
        if parent is not None and len(table[parent].fields) > len(NAMES) - 3:
            parent = None                                # no free field names left for a further subclass
        inherited: tuple = ()
        own_cfg, cfg_owner = True, cid
        if parent is not None:
            pc = table[parent]
            mixin, inherited = pc.mixin, pc.fields
            if bare or rng.random() < 0.5:           # no Config of its own: the parent's Config is inherited
                o, own_cfg, cfg_owner = pc.o, False, pc.cfg_owner
            else:                                    # own Config; it keeps at least the parent's keyword flags
                o = replace(o, fon=o.fon or pc.o.fon, fba=o.fba or pc.o.fba, fdl=o.fdl or pc.o.fdl, fcx=o.fcx or pc.o.fcx,
                            lazy=o.lazy and mixin)
                if not config_lines(o, "D" if o.cfgd is not None else None):
                    # an option vector that sets nothing writes no Config class at all: the parent's Config is inherited
                    o, own_cfg, cfg_owner = pc.o, False, pc.cfg_owner
        taken = {f.name for f in inherited}
        names = rng.sample([x for x in NAMES if x not in taken], rng.randint(1, 3 if inherited else 4))   # >= 3 names are free
        aliases = rng.sample(ALIASES, len(ALIASES))
        fields = []
        for i, nm in enumerate(names):
            al = aliases[i] if rng.random() < 0.4 else None
            if later and (rng.random() < 0.55 or (cid == 0 and i == 0)):
                k = rng.random()
                if unions and len(later) >= 2 and k < 0.3:
                    mem = rng.sample(later, rng.randint(2, min(3, len(later))))
                    # a specialised generic class is no union member: its method has a name of its own
                    # (__mashumaro_to_dict_<hash of the type arguments>__), so (a) after another member, that member's call
                    # `value.__mashumaro_to_dict__()` succeeds on the generic instance with the UNSPECIALISED method -- already
                    # in the option-free twin (the plain output itself is off: a defect of union packing, not of the options;
                    # reported, outside this property) -- and (b) as first member its call never succeeds on instances of the
                    # other members, which the first-accepting-member rule of the model (OptNested.pick) does not describe
                    mem = tuple(m for m in mem if not (table[m].generic and table[m].targ)) or (rng.choice(later),)
                    if len(mem) >= 2:
                        fields.append(DcField(nm, mem, False, al, False))
                    else:
                        fields.append(DcField(nm, mem, rng.random() < 0.4, al, False))
                elif k < 0.45:
                    fields.append(DcField(nm, (rng.choice(later),), False, al, rng.random() < 0.05, many=True))
                elif k < 0.58:
                    fields.append(DcField(nm, (rng.choice(later),), False, al, rng.random() < 0.05, mapping=True))
                else:
                    fields.append(DcField(nm, (rng.choice(later),), rng.random() < 0.4, al, rng.random() < 0.05))
            else:
                sh, dk, ds = rng.choice(LEAF_NESTED)
                fields.append(FieldSpec(nm, sh, dk, ds, al, rng.random() < 0.08))
        generic, targ = False, ""
        if parent is None and rng.random() < generics:
            # class C<cid>(Generic[T]) with the field `gv: T`; every user refers to it as C<cid>[targ] (bare for "")
            generic, targ = True, rng.choice(list(GENERIC_SHAPES))
            fields.insert(rng.randrange(len(fields) + 1),
                          FieldSpec("gv", GENERIC_SHAPES[targ].key, "no", None, "GV" if rng.random() < 0.4 else None, False))
            if rng.random() < 0.4:
                fields.insert(rng.randrange(len(fields) + 1), FieldSpec("ga", GENERIC_ANN_SHAPES[targ].key, "no", None, None, False))
        table[cid] = NCls(o, tuple(inherited) + tuple(fields), mixin, parent, len(inherited), own_cfg, cfg_owner, generic, targ)
    return table


def descendants(table, m: int) -> list[int]:
    out = [m]
    for cid in range(len(table) - 1, -1, -1):
        if table[cid].parent in out and cid not in out:
            out.append(cid)
    return out


def refs(c: NCls) -> set:
    return {m for f in c.fields if isinstance(f, DcField) for m in f.members} | ({c.parent} if c.parent is not None else set())


def reachable(table, cid: int) -> set:
    seen, todo = set(), [cid]
    while todo:
        c = todo.pop()
        if c not in seen:
            seen.add(c)
            todo.extend(refs(table[c]))
    return seen


def definition_order(rng, table) -> list[int]:
    """a random order in which every class is defined after the classes it refers to: which owner
    compiles a shared plain nested class first depends on it"""
    done: list[int] = []
    todo = set(range(len(table)))
    while todo:
        ready = sorted(c for c in todo if refs(table[c]) <= set(done))
        pick = rng.choice(ready)
        done.append(pick)
        todo.discard(pick)
    return done


def nfield_line(f, plain: bool, table=None) -> str:
    if isinstance(f, FieldSpec):
        return field_line(f, plain)
    args = []
    if f.many:
        args.append("default_factory=list")
    elif f.mapping:
        args.append("default_factory=dict")
    elif f.optional:
        args.append("default=None")
    md = {}
    if f.alias is not None:
        md["alias"] = f.alias
    if f.omit and not plain:
        md["serialize"] = "omit"
    if md:
        args.append(f"metadata={md!r}")
    ty = f.ty("P" if plain else "C", table)
    return f"    {f.name}: {ty}" + (f" = field({', '.join(args)})" if args else "")


def table_source(table: list[NCls], call, order: list[int]) -> str:
    src = HEADER
    if call is not None:
        src += dialect_source("CallD", call)
    for cid in order:
        c = table[cid]
        if c.own_cfg and c.o.cfgd is not None:
            src += dialect_source(f"CfgD{cid}", c.o.cfgd)
        src += class_source(f"C{cid}", [nfield_line(f, False, table) for f in c.fields[c.n_inh:]], c.o if c.own_cfg else None,
                            cfgd_name=f"CfgD{cid}", mixin=c.mixin, base=class_base(c, "C"))
    for cid in order:
        c = table[cid]
        src += class_source(f"P{cid}", [nfield_line(f, True, table) for f in c.fields[c.n_inh:]], None, mixin=c.mixin,
                            base=class_base(c, "P"))
    return src


def class_base(c: NCls, prefix: str) -> str | None:
    if c.parent is not None:
        return f"{prefix}{c.parent}"
    if c.generic:
        return f"DataClassDictMixin, Generic[{c.tvar}]" if c.mixin else f"Generic[{c.tvar}]"
    return None


def cls_ref(c: NCls, cid: int, prefix: str) -> str:
    """the type expression users (fields, codecs) name the class by"""
    return f"{prefix}{cid}" + (f"[{c.targ}]" if c.generic and c.targ else "")


def bare_root_ok(c: NCls) -> bool:
    """<instance>.to_dict() runs the method of the UNSPECIALISED class: for a generic class whose users bind T the field
    `gv` has another resolved type there (an unconstrained variable), which the table's single plan does not describe"""
    return c.mixin and not (c.generic and c.targ)


def gen_tree(rng, table, cid: int, subs: bool = True, depth: int = 0):
    """(cid, [child]) where child = python source of a leaf value | None | (cid, [...]) | [ (cid, [...]), ... ]"""
    ch = []
    for f in table[cid].fields:
        if isinstance(f, FieldSpec):
            cands = [v for v in f.sh.values if v != "None" or f.nullable]
            ch.append("None" if (f.nullable and rng.random() < 0.5) else rng.choice(cands))
        elif f.many:
            ch.append([gen_tree(rng, table, pick_cls(rng, table, f.members[0], subs and depth < 3), subs, depth + 1) for _ in range(rng.choice([0, 1, 1, 2]))])
        elif f.mapping:
            ch.append({f"k{i}": gen_tree(rng, table, pick_cls(rng, table, f.members[0], subs and depth < 3), subs, depth + 1)
                       for i in range(rng.choice([0, 1, 1, 2]))})
        elif f.optional and rng.random() < 0.3:
            ch.append("None")
        else:
            ch.append(gen_tree(rng, table, pick_cls(rng, table, rng.choice(f.members), subs and depth < 3), subs, depth + 1))
    return (cid, ch)


def pick_cls(rng, table, m: int, subs: bool) -> int:
    """the class of the value of a field declared with class m: m itself or (subs) one of its subclasses"""
    # only for mixin classes: a plain subclass has no method of its own unless some field declares it, so its
    # instances in a parent-typed field are serialized as the parent (also in the option-free twin)
    return rng.choice(descendants(table, m)) if subs and table[m].mixin and rng.random() < 0.4 else m


def tree_src(table, t, prefix: str) -> str:
    cid, ch = t
    parts = []
    for f, x in zip(table[cid].fields, ch):
        if isinstance(x, str):
            v = x
        elif isinstance(x, list):
            v = "[" + ", ".join(tree_src(table, y, prefix) for y in x) + "]"
        elif isinstance(x, dict):
            v = "{" + ", ".join(f"{k!r}: {tree_src(table, y, prefix)}" for k, y in x.items()) + "}"
        else:
            v = tree_src(table, x, prefix)
        parts.append(f"{f.name}={v}")
    return f"{prefix}{cid}(" + ", ".join(parts) + ")"


def cls_flags(c: NCls):
    return (c.o.fon, c.o.fba, c.o.fdl, c.o.fcx)


def both_flags(a, b):
    return tuple(x and y for x, y in zip(a, b))


def walk(table, ns, t, inst, plain, members, outer, avail, mode: str, hits: dict, codec=None):
    """hereditary reference (mode 'spec') / prediction under the two known findings (mode 'kf'):
    the mapping expected for the instance `inst` of tree `t`; avail = (omit_none, by_alias, dialect ns)
    values of the caller's keyword parameters; hits records where D14 / D8b corners are met."""
    cid, ch = t
    c = table[cid]
    fl_spec = both_flags(outer, cls_flags(c))
    fl = fl_spec
    if codec is None:
        # the generated call names the flags of the DECLARED member (first one whose call the value's class accepts)
        fl_impl = None
        for m in members:
            cand = both_flags(outer, cls_flags(table[m]))
            if all((not x) or y for x, y in zip(cand, cls_flags(c))):
                fl_impl = cand
                break
        if fl_impl != fl_spec:
            hits["sub" if cid not in members else "d8b"] = True
            if mode == "kf":
                fl = fl_impl
    o = replace(c.o, kon=avail[0] if fl[0] else None, kba=avail[1] if fl[1] else None, call=avail[2] if fl[2] else None)
    if codec is not None:
        # codec path: static call without keywords; every class sits on the codec's default dialect
        o = replace(c.o, kon=None, kba=None, call=None, dd=codec[0])
    if d14_signature(o):
        hits["d14"] = True
    e = effective_d14(o) if mode == "kf" else effective(o)
    avail2 = (e["on"], e["ba"], o.call)
    fields = list(c.fields)
    defaults = {}
    for f in fields:
        if isinstance(f, FieldSpec):
            if f.dkind == "val":
                defaults[f.name] = eval(f.dsrc, ns)
            elif f.dkind == "fac":
                defaults[f.name] = eval(f.dsrc, ns)()
        elif f.many:
            defaults[f.name] = []
        elif f.mapping:
            defaults[f.name] = {}
        elif f.optional:
            defaults[f.name] = None
    sub = {}
    for f, x in zip(fields, ch):
        if isinstance(x, list):
            sub[f.name] = [walk(table, ns, y, iy, py, f.members, cls_flags(c), avail2, mode, hits, codec)
                           for y, iy, py in zip(x, getattr(inst, f.name), plain[f.name])]
        elif isinstance(x, dict):
            sub[f.name] = {k: walk(table, ns, y, getattr(inst, f.name)[k], plain[f.name][k], f.members, cls_flags(c), avail2,
                                   mode, hits, codec) for k, y in x.items()}
        elif isinstance(f, DcField) and not isinstance(x, str):
            sub[f.name] = walk(table, ns, x, getattr(inst, f.name), plain[f.name], f.members, cls_flags(c), avail2, mode, hits, codec)
    if codec is None and c.generic and c.targ and o.call is not None:
        # known finding dialect-drops-type-args: the dialect-specific method of a specialised generic class is compiled (and
        # cached per dialect) WITHOUT the type arguments: `gv: T` is packed as an unconstrained variable (the raw object)
        raw = {f.name: getattr(inst, f.name) for f in fields if isinstance(f, FieldSpec) and f.name in ("gv", "ga")
               and not f.sh.trivial and getattr(inst, f.name) is not None}
        if raw:
            hits["gdl"] = True
            if mode == "kf":
                sub.update(raw)
    bound_none = [f.name for f in fields if isinstance(f, FieldSpec) and f.sh.bound_var and plain[f.name] is None]
    if bound_none:
        hits["tvb"] = True       # outside the model's domain (vals_ok: None in a field the code does not hold for nullable)
    return project(e, fields, defaults, inst, plain, sub, keep_none=bound_none if mode == "kf" else ())


# ---- Coq terms for the nested correspondence ----

NESTED_DEFS = COQ_DEFS.split("Definition case_ok")[0] + """
Definition G a b c d := {| g_on := a; g_ba := b; g_dl := c; g_cx := d |}.
Definition C mx cfgd cfg srt fl fs par := {| c_mixin := mx; c_cfgd := cfgd; c_cfg := cfg; c_sort := srt; c_flags := fl; c_fields := fs; c_parent := par |}.
Definition K a b c := {| kw_on := a; kw_ba := b; kw_dl := c |}.
Definition ncase_ok (c: list cls * (nat * node) * kwv * option pv * bool) : bool :=
  match c with (ct, (root, n), k, expected, py_in_domain) =>
    match to_dict_h ct false n root k, expected with
    | Some a, Some b => pv_eqb a b
    | None, None => true
    | _, _ => false end
    && Bool.eqb (ok_h ct true n [root] root_flags k None) py_in_domain end.
Definition ccase_ok (c: list cls * (nat * node) * option ns * option pv * bool) : bool :=
  match c with (ct, (root, n), dd, expected, py_in_domain) =>
    match to_dict_codec ct false n root dd, expected with
    | Some a, Some b => pv_eqb a b
    | None, None => true
    | _, _ => false end
    && Bool.eqb (ok_h ct false n [root] root_flags no_kw dd) py_in_domain end.
"""


def coq_dcfield(f: DcField) -> str:
    al = "None" if f.alias is None else f"(Some {coq_str(f.alias)})"
    d = "(DFac (POpq 1))" if (f.many or f.mapping) else ("(DVal PNone)" if f.optional else "DNo")   # [] is POpq (1 + 0)
    return f"(P {coq_str(f.name)} {al} {'TyOptional' if f.optional else 'TyPlain'} false {d} {coq_bool(f.omit)})"


def coq_table(table, ns, enc) -> str:
    out = []
    for c in table:
        fs = []
        for f in c.fields:
            if isinstance(f, FieldSpec):
                d = field_defaults([f], ns)
                fs.append(f"({coq_field(f, d, enc)}, [])")
            else:
                fs.append(f"({coq_dcfield(f)}, [" + "; ".join(f"{m}%nat" for m in f.members) + "])")
        o = c.o
        out.append(f"(C {coq_bool(c.mixin)} {coq_ns(o.cfgd)} (N {o.cfg[0]} {o.cfg[1]} {o.cfg[2]}) {coq_bool(o.sort)} "
                   f"(G {coq_bool(o.fon)} {coq_bool(o.fba)} {coq_bool(o.fdl)} {coq_bool(o.fcx)}) {coq_list(fs)} "
                   + ("None" if c.parent is None else f"(Some {c.parent}%nat)") + ")")
    return coq_list(out)


def coq_node(table, t, inst, plain, enc) -> str:
    cid, ch = t
    parts = []
    for f, x in zip(table[cid].fields, ch):
        if isinstance(x, str):
            parts.append(f"(NLeaf {enc(getattr(inst, f.name))} {enc(plain[f.name])})")
        elif isinstance(x, list):
            parts.append("(NList " + coq_list(coq_node(table, y, iy, py, enc)
                                              for y, iy, py in zip(x, getattr(inst, f.name), plain[f.name])) + ")")
        elif isinstance(x, dict):
            parts.append("(NDict " + coq_list(f"({coq_str(k)}, {coq_node(table, y, getattr(inst, f.name)[k], plain[f.name][k], enc)})"
                                              for k, y in x.items()) + ")")
        else:
            parts.append(coq_node(table, x, getattr(inst, f.name), plain[f.name], enc))
    return f"(NObj {cid} {coq_list(parts)})"


def coq_tree_value(v, enc) -> str:
    if isinstance(v, list):          # nested tables have no list-typed leaf shapes: every list is a List[<dataclass>] field
        return "(PList " + coq_list(coq_tree_value(x, enc) for x in v) + ")"
    if isinstance(v, dict):
        return "(PDict " + coq_list(f"({coq_str(k)}, {coq_tree_value(x, enc)})" for k, x in v.items()) + ")"
    return enc(v)


ALL_FLAGS = (True, True, True, True)


def eval_nested(ctx: vlib.Ctx, table, order, src, ns, rid: int, t, kon, kba, rcall, ncases, ninfo, stream="nested"):
    """one call <instance of class rid>.to_dict(...) against the hereditary reference; appends the Coq case"""
    root = table[rid]
    ro = replace(root.o, kon=kon, kba=kba, call=rcall)
    rep = {"kind_of_case": "nested", "source": src, "cls": f"C{rid}", "twin": f"P{rid}",
           "instance": tree_src(table, t, "C"), "twin_instance": tree_src(table, t, "P"), "entry": "to_dict",
           "kwargs": kwargs_src(ro), "default_dialect": None}
    inst = eval(rep["instance"], ns)
    twin = eval(rep["twin_instance"], ns)
    try:
        plain = twin.to_dict()
    except Exception as ex:
        rep["expected"] = "a mapping"
        ctx.fail(f"nested: the option-free twin raised {type(ex).__name__}: {ex}"[:300], rep,
                 {"kind": "plain-raised-" + type(ex).__name__, "entry": stream})
        return
    hits: dict = {}
    avail = (kon, kba, rcall)
    expected = walk(table, ns, t, inst, plain, (rid,), ALL_FLAGS, avail, "spec", hits)
    rep["expected"] = repr(expected)
    rep["plain"] = repr(plain)
    ctx.count((stream, repr(table), tuple(order), rid, repr(t), kon, kba, rcall))
    ctx.hist("entry", stream)
    try:
        observed = inst.to_dict(**call_kwargs(ro, ns))
    except Exception as ex:
        rep["observed"] = f"{type(ex).__name__}: {ex}"
        ctx.fail(f"nested {rep['instance']}.to_dict({kwargs_src(ro)}) raised {type(ex).__name__}: {ex}"[:400], rep,
                 {"kind": "raised-" + type(ex).__name__, "entry": stream})
        return
    rep["observed"] = repr(observed)
    enc = PvEnc()
    in_domain = not hits
    if "gdl" not in hits:      # that corner is a property of the call path (dialect or not), not of the class plan: oracle only
        ncases.append(f"({coq_table(table, ns, enc)}, ({rid}%nat, {coq_node(table, t, inst, plain, enc)}), "
                      f"(K {coq_ob(kon)} {coq_ob(kba)} {coq_ns(rcall)}), (Some {coq_tree_value(observed, enc)}), {coq_bool(in_domain)})")
        ninfo.append(rep)
    rep["_ok"] = typed(observed) == typed(expected)
    rep["_kf_zone"] = bool(hits)
    if typed(observed) != typed(expected):
        kind = "nested-projection-mismatch"
        if hits:
            h2: dict = {}
            predicted = walk(table, ns, t, inst, plain, (rid,), ALL_FLAGS, avail, "kf", h2)
            if typed(predicted) == typed(observed):
                kind = ("dialect-drops-type-args" if hits.get("gdl") else
                        "subclass-instance-flags" if hits.get("sub") else
                        "union-member-flags" if hits.get("d8b") else
                        "omit-none-typevar-bound" if hits.get("tvb") else "call-dialect-vs-flag-defaults")
        ctx.fail(f"nested {rep['instance']}.to_dict({kwargs_src(ro)}) = {observed!r}, hereditary projection of the plain "
                 f"output is {expected!r}"[:500], rep, {"kind": kind, "entry": stream})
    ctx.hist("form", "nested-kf-zone" if hits else "nested-in-domain")


def run_nested(ctx: vlib.Ctx, ncases: list[str], ninfo: list, dcases: dict | None = None):
    rng = ctx.rng
    for _ in range(ctx.budget(150, 1500)):
        table = gen_table(rng)
        order = definition_order(rng, table)
        roots = [cid for cid in range(len(table)) if bare_root_ok(table[cid])]
        rng.shuffle(roots)                       # call order: lazily compiled owners meet shared classes in this order
        call = gen_ns(rng, 0.2) if (any(table[r].o.fdl for r in roots) and rng.random() < 0.4) else None
        src = table_source(table, call, order)
        ns = load(src)
        ctx.hist("nested_classes", str(len(table)))
        for c in table[1:]:
            ctx.hist("nested_kind", "mixin" if c.mixin else ("plain+Config" if c.o != Opts() else "plain"))
            if c.generic:
                ctx.hist("generic_binding", c.targ or "<bare>")
        if dcases is not None and any(c.generic for c in table):
            declared_cases(table, ns, dcases)
        for rid in roots[:3]:
            root = table[rid]
            ctx.hist("nested_root", "class0" if rid == 0 else "inner-mixin-as-root")
            for _ in range(2 if rid == 0 else 1):
                kon = rng.choice([None, True, False]) if root.o.fon else None
                kba = rng.choice([None, True, False]) if root.o.fba else None
                rcall = call if root.o.fdl else None
                eval_nested(ctx, table, order, src, ns, rid, gen_tree(rng, table, rid), kon, kba, rcall, ncases, ninfo)
        unload(ns)


def eval_codec_nested(ctx: vlib.Ctx, table, src, ns, rid: int, t, dd, use_json: bool, ccases, cinfo, stream="codec-nested"):
    """one BasicEncoder / JSONEncoder(<class rid as its users name it>, default_dialect=dd).encode(x) against the hereditary
    reference; appends the Coq case"""
    import json as _json
    from mashumaro.codecs.basic import BasicEncoder
    from mashumaro.codecs.json import JSONEncoder
    rep = {"kind_of_case": "codec-nested", "source": src, "cls": cls_ref(table[rid], rid, "C"), "twin": cls_ref(table[rid], rid, "P"),
           "instance": tree_src(table, t, "C"), "twin_instance": tree_src(table, t, "P"),
           "entry": "json-codec" if use_json else "codec", "kwargs": "", "default_dialect": "DefD" if dd is not None else None}
    inst = eval(rep["instance"], ns)
    twin = eval(rep["twin_instance"], ns)
    try:
        plain = BasicEncoder(eval(cls_ref(table[rid], rid, "P"), ns)).encode(twin)
    except Exception as ex:
        rep["expected"] = "a mapping"
        ctx.fail(f"codec: the option-free twin raised {type(ex).__name__}: {ex}"[:300], rep,
                 {"kind": "plain-raised-" + type(ex).__name__, "entry": "codec-nested"})
        return
    hits: dict = {}
    expected = walk(table, ns, t, inst, plain, (rid,), ALL_FLAGS, (None, None, None), "spec", hits, codec=(dd,))
    rep["expected"] = repr(expected)
    rep["plain"] = repr(plain)
    ctx.count((stream, repr(table), rid, repr(t), dd, use_json))
    ctx.hist("entry", stream)
    ctx.hist("codec_root", ("mixin" if table[rid].mixin else "plain") + ("/specialised-generic" if table[rid].generic and table[rid].targ else ""))
    try:
        ddc = ns["DefD"] if dd is not None else None
        if use_json:
            observed = _json.loads(JSONEncoder(eval(rep["cls"], ns), default_dialect=ddc).encode(inst))
        else:
            observed = BasicEncoder(eval(rep["cls"], ns), default_dialect=ddc).encode(inst)
    except Exception as ex:
        rep["observed"] = f"{type(ex).__name__}: {ex}"
        ctx.fail(f"codec {rep['instance']} (default_dialect={dd}) raised {type(ex).__name__}: {ex}"[:400], rep,
                 {"kind": "raised-" + type(ex).__name__, "entry": "codec-nested"})
        return
    rep["observed"] = repr(observed)
    enc = PvEnc()
    ccases.append(f"({coq_table(table, ns, enc)}, ({rid}%nat, {coq_node(table, t, inst, plain, enc)}), "
                  f"{coq_ns(dd)}, (Some {coq_tree_value(observed, enc)}), {coq_bool(not hits)})")
    cinfo.append(rep)
    rep["_ok"] = typed(observed) == typed(expected)
    rep["_kf_zone"] = bool(hits)
    if typed(observed) != typed(expected):
        kind = "codec-nested-projection-mismatch"
        if hits.get("tvb"):
            predicted = walk(table, ns, t, inst, plain, (rid,), ALL_FLAGS, (None, None, None), "kf", {}, codec=(dd,))
            if typed(predicted) == typed(observed):
                kind = "omit-none-typevar-bound"
        ctx.fail(f"codec {rep['instance']} with default_dialect={dd} encodes to {observed!r}, hereditary projection of the "
                 f"plain output is {expected!r}"[:500], rep, {"kind": kind, "entry": "codec-nested"})


def run_codec_nested(ctx: vlib.Ctx, ccases: list[str], cinfo: list):
    """codec path over nested classes: BasicEncoder / JSONEncoder(<any class of the table>, default_dialect=D).encode(x);
    every class (mixin or plain) is compiled by the codec's own builders with D as lowest option level and is called
    statically without keywords; the twin is encoded by BasicEncoder without default dialect"""
    import json as _json
    from mashumaro.codecs.basic import BasicEncoder
    from mashumaro.codecs.json import JSONEncoder
    rng = ctx.rng
    for _ in range(ctx.budget(90, 900)):
        table = gen_table(rng, unions=False)
        order = definition_order(rng, table)
        dd = gen_ns(rng, 0.15)
        src = table_source(table, None, order) + (dialect_source("DefD", dd) if dd is not None else "")
        ns = load(src)
        for rid in rng.sample(range(len(table)), min(2, len(table))):
            eval_codec_nested(ctx, table, src, ns, rid, gen_tree(rng, table, rid, subs=False), dd, rng.random() < 0.3, ccases, cinfo)
        unload(ns)


def run_history(ctx: vlib.Ctx, ncases: list[str], ninfo: list):
    """systematic (every run, every seed): compile-history family.  An owner (lazy or not, with ADD_DIALECT_SUPPORT,
    options from Config.dialect) holding a nested class (plain / plain with Config / mixin) through a direct,
    Optional, List or Union field; the FIRST call on fresh classes passes dialect= or not, then the other one."""
    rng = ctx.rng
    leaf = FieldSpec("x", "optint", "val", "None", "xx", False)
    leaf2 = FieldSpec("y", "int", "val", "1", None, False)
    inner_kinds = [
        NCls(Opts(), (leaf, leaf2), False),
        NCls(Opts(cfg=("T", "U", "U"), fdl=True), (leaf, leaf2), False),
        NCls(Opts(cfgd=("U", "T", "T"), fon=True, fdl=True), (leaf, leaf2), True),
    ]
    other = NCls(Opts(), (FieldSpec("z", "optint", "val", "None", None, False),), False)
    shapes = [("direct", DcField("i", (1,), False, "in", False)), ("optional", DcField("i", (1,), True, None, False)),
              ("list", DcField("i", (1,), False, None, False, many=True)), ("union", DcField("i", (2, 1), False, None, False))]
    calls = [("T", "T", "T"), ("F", "U", "U")]
    for inner in inner_kinds:
        for sname, f in shapes:
            for lazy in (True, False):
                for first_with_dialect in (True, False):
                    outer = NCls(Opts(cfgd=("T", "T", "U"), cfg=("U", "U", "U"), fdl=True, lazy=lazy,
                                      fon=rng.random() < 0.3), (f, FieldSpec("w", "optint", "val", "None", "W", False)), True)
                    table = [outer, inner, other]
                    order = [2, 1, 0]
                    call = rng.choice(calls)
                    src = table_source(table, call, order)
                    ns = load(src)
                    ctx.hist("history", f"{sname}/{'mixin' if inner.mixin else 'plain'}/lazy={lazy}/first_dialect={first_with_dialect}")
                    for with_dialect in ((True, False, True) if first_with_dialect else (False, True)):
                        t = gen_tree(rng, table, 0)
                        eval_nested(ctx, table, order, src, ns, 0, t, None, None, call if with_dialect else None,
                                    ncases, ninfo, stream="history")
                    unload(ns)


DECLARED_DEFS = """
Definition P0 t d := {| p_name := "f"; p_alias := None; p_ty := t; p_trivial := true; p_default := d; p_omit := false |}.
(* the TRANSLATED is_field_nullable on the declared type = the real one on the real class; the computed domain = the
   harness's; inside the domain the model's `nullable` of the plan with the RESOLVED type = the real one *)
Definition dcase_ok (c: dty * dflt * bool * bool) : bool :=
  match c with (d, df, py, in_dom) =>
    Bool.eqb (dty_ok d) in_dom &&
    match is_field_nullable (enc_default df) (enc_dty d) with Ok (KBool b) => Bool.eqb b py | _ => false end &&
    (negb (dty_ok d) || Bool.eqb (nullable (P0 (resolve d) df)) py) end.
"""


def declared_cases(table, ns, dcases: dict):
    """for every class of the table: (declared type, default, is_field_nullable of the REAL class as its users specialise
    it, in the domain of K17_nullable_declared_partial) per leaf field"""
    for cid, c in enumerate(table):
        fs = [f for f in c.fields if isinstance(f, FieldSpec)]
        targs = (eval(c.targ, ns),) if (c.generic and c.targ) else ()
        py = real_nullables(ns, f"C{cid}", fs, targs)
        if len(py) != len(fs):                       # the builder could not be asked: a case that never holds
            dcases[f"(DTy TyPlain, DNo, true, true) (* C{cid}: is_field_nullable not callable *)"] = None
            continue
        for f, b in zip(fs, py):
            d = "DNo" if f.dkind == "no" else ("(DFac (POpq 0))" if f.dkind == "fac" else
                                               "(DVal PNone)" if f.dsrc == "None" else "(DVal (POpq 0))")
            dcases[f"({f.sh.dty}, {d}, {coq_bool(b)}, {coq_bool(not f.sh.bound_var)})"] = None


def run_generic(ctx: vlib.Ctx, ncases: list[str], ninfo: list, ccases: list[str], cinfo: list, dcases: dict):
    """systematic (every run, every seed): a generic dataclass G(Generic[T]) with `gv: T` under every binding of
    GENERIC_SHAPES (bare, int, date, Optional[...], a wider union with None, Any) -- mixin / plain with Config / plain
    without Config -- with omit_none coming from its Config, its Config.dialect, the owner's forwarded keyword or the codec's
    default dialect, referenced through a direct, Optional, List, Dict and Union field; gv holds None and not None"""
    rng = ctx.rng
    other = NCls(Opts(), (FieldSpec("z", "optint", "val", "None", None, False),), False)
    shapes = [DcField("i", (1,), False, "in", False), DcField("i", (1,), True, None, False),
              DcField("i", (1,), False, None, False, many=True), DcField("i", (1,), False, None, False, mapping=True),
              DcField("i", (1, 2), False, None, False)]
    for targ, gsh in list(GENERIC_SHAPES.items()) + [("<B>", BOUND_SHAPE)]:
        gv = FieldSpec("gv", gsh.key, "no", None, "GV", False)
        leaf = FieldSpec("y", "optint", "val", "None", None, False)
        if gsh is BOUND_SHAPE:
            gk = dict(generic=True, targ="", tvar="B")
            ga = FieldSpec("ga", "int_none", "val", "None", None, False)
        else:
            gk = dict(generic=True, targ=targ)
            ga = FieldSpec("ga", GENERIC_ANN_SHAPES[targ].key, "no", None, "GA", False)
        inner_kinds = [
            NCls(Opts(cfg=("T", "U", "U"), fdl=True), (gv, leaf, ga), True, **gk),
            NCls(Opts(cfgd=("T", "U", "T"), fon=True), (leaf, ga, gv), True, **gk),
            NCls(Opts(cfg=("T", "U", "U")), (gv, leaf), False, **gk),
            NCls(Opts(), (ga, gv, leaf), False, **gk),
        ]
        for ik, inner in enumerate(inner_kinds):
            f = shapes[(ik + rng.randrange(len(shapes))) % (len(shapes) if not gk["targ"] else len(shapes) - 1)]    # no unions of specialisations
            outer = NCls(Opts(cfg=(rng.choice(TRI), "U", "U"), fon=ik == 1 or rng.random() < 0.3, fdl=ik == 0),
                         (f, FieldSpec("w", "int", "val", "1", "W", False)), True)
            table = [outer, inner, other]
            order = [2, 1, 0]
            dd = ("T", "U", "U")
            call = ("F", "U", "T")
            src = table_source(table, call, order) + dialect_source("DefD", dd)
            ns = load(src)
            ctx.hist("generic_binding", targ or "<bare>")
            declared_cases(table, ns, dcases)
            for gval in gsh.values[:2]:          # the first value is None where the binding admits it
                t = gen_tree(rng, table, 0)
                t = force_gv(table, t, gval)
                for kon in ((None, True, False) if outer.o.fon else (None,)):
                    eval_nested(ctx, table, order, src, ns, 0, t, kon, None, None, ncases, ninfo, stream="generic")
                if outer.o.fdl:          # the call dialect reaches the (specialised) generic class
                    eval_nested(ctx, table, order, src, ns, 0, t, None, None, call, ncases, ninfo, stream="generic")
                # the specialised class itself as a codec type, omit_none from the codec's default dialect
                t1 = (1, [gval if isinstance(x, FieldSpec) and x.name in ("gv", "ga") else "None" for x in inner.fields])
                eval_codec_nested(ctx, table, src, ns, 1, t1, dd if ik != 1 else None, False, ccases, cinfo, stream="generic-codec")
            unload(ns)


def force_gv(table, t, gval: str):
    """the tree t with the `gv` leaf of every generic node set to gval"""
    cid, ch = t
    out = []
    for f, x in zip(table[cid].fields, ch):
        if isinstance(f, FieldSpec):
            out.append(gval if (f.name in ("gv", "ga") and table[cid].generic) else x)
        elif isinstance(x, list):
            out.append([force_gv(table, y, gval) for y in x] or [force_gv(table, gen_min_tree(table, f.members[0]), gval)])
        elif isinstance(x, dict):
            out.append({k: force_gv(table, y, gval) for k, y in x.items()} or {"k0": force_gv(table, gen_min_tree(table, f.members[0]), gval)})
        elif isinstance(x, str):
            out.append(force_gv(table, gen_min_tree(table, f.members[0]), gval))     # an Optional field holding None: fill it
        else:
            out.append(force_gv(table, x, gval))
    return (cid, out)


def gen_min_tree(table, cid: int):
    ch = []
    for f in table[cid].fields:
        if isinstance(f, FieldSpec):
            ch.append(f.sh.values[-1])
        elif f.many:
            ch.append([])
        elif f.mapping:
            ch.append({})
        elif f.optional:
            ch.append("None")
        else:
            ch.append(gen_min_tree(table, f.members[0]))
    return (cid, ch)


# ---------------------------------------------------------------------------
# run
# ---------------------------------------------------------------------------

def record_failure(ctx, ev: Eval, rep: dict, sig: dict):
    ctx.fail(ev.what[:300], rep, sig)


def run_flat(ctx: vlib.Ctx, cases: list[str], case_info: list, ecases: dict | None = None, lcases: dict | None = None):
    rng = ctx.rng
    n_classes = ctx.budget(260, 2600)
    for ci in range(n_classes):
        r = rng.random()
        entry = "codec" if r < 0.2 else ("toml" if r < 0.32 else "to_dict")
        fields = gen_fields(rng, shapes=TOML_SHAPES if entry == "toml" else None, cfg_alias=0.45)
        o0 = gen_opts(rng, "to_dict" if entry == "toml" else entry)
        if entry == "toml":
            o0 = replace(o0, entry="toml", dd=("T", "U", "U"), lazy=False)
        src = flat_source(fields, o0)
        try:
            ns = load(src)
        except Exception as ex:      # the class (with its options) cannot even be created; the option-free twin can?
            vals = gen_values(rng, fields)
            ev = Eval(src, o0, fields, vals, False, kind="class-creation-raised-" + type(ex).__name__,
                      observed=f"{type(ex).__name__}: {ex}", expected="a mapping (class X must compile)")
            ev.what = f"creating the class raised {type(ex).__name__}: {ex}"
            ctx.count(flat_key(fields, o0, vals))
            record_failure(ctx, ev, flat_replay_dict(ev), flat_signature(ev))
            continue
        if ecases is not None and entry != "codec" and ci % 3 == 0:
            emitted_cases(ns, "X", fields, ns["CallD"] if o0.call is not None else None, ecases)
        if lcases is not None and entry != "codec":
            loop_case(ns, "X", ns["CallD"] if (o0.call is not None and ci % 2) else None, lcases)
        variants = [o0] if entry == "codec" else kw_variants(o0, rng, 2)
        for o in variants:
            for _ in range(2):
                vals = gen_values(rng, fields)
                ev = eval_flat(ns, src, fields, o, vals)
                ctx.count(flat_key(fields, o, vals))
                ctx.hist("entry", o.entry)
                ctx.hist("form", "d14-zone" if d14_signature(o) else "in-domain")
                ctx.hist("n_fields", str(len(fields)))
                for f in fields:
                    ctx.hist("shape", f.shape)
                if ev.coq is not None:
                    cases.append(ev.coq)
                    case_info.append(ev)
                if not ev.ok:
                    record_failure(ctx, ev, flat_replay_dict(ev), flat_signature(ev))
                elif len(ctx.coverage["samples"]) < 3 and len(fields) >= 3:
                    ctx.sample({"class": src.split("@dataclass")[1][:400], "call": f"to_dict({kwargs_src(o)})",
                                "instance": inst_src("X", fields, vals), "plain": repr(ev.plain), "observed": repr(ev.observed)})
        unload(ns)


def run_lattice(ctx: vlib.Ctx, cases: list[str], case_info: list):
    """every (call dialect, Config.dialect, Config) in ({unset} + {U,F,T}^3)^2 x {U,F,T}^3 for a fixed family;
    thorough: all of it; quick: a random slice."""
    rng = ctx.rng
    cfgds = [None] + ALL_NS
    pairs = [(cd, c) for cd in cfgds for c in ALL_NS]
    if ctx.quick():
        pairs = rng.sample(pairs, 12)
    calls = list(range(len(ALL_NS)))
    for (cfgd, cfg) in pairs:
        fon, fba = (False, False) if rng.random() < 0.67 else (rng.random() < 0.5, rng.random() < 0.5)
        sort = rng.random() < 0.5
        src, o0 = family_source(cfgd, cfg, fon, fba, sort)
        ns = load(src)
        ns_call = dict(ns)
        for ci in ([None] + calls if not ctx.quick() else [None] + rng.sample(calls, 6)):
            o = replace(o0, call=None if ci is None else ALL_NS[ci])
            if ci is not None:
                ns_call["CallD"] = ns[f"Call{ci}"]
            vals = FAMILY_VALUES[rng.randrange(len(FAMILY_VALUES))]
            src_case = src if ci is None else src + f"CallD = Call{ci}\n"
            ev = eval_flat(ns_call, src_case, FAMILY, o, vals)
            ctx.count(("lattice", o.call, cfgd, cfg, fon, fba, sort, tuple(vals)))
            ctx.hist("entry", "lattice")
            if ev.coq is not None:
                cases.append(ev.coq)
                case_info.append(ev)
            if not ev.ok:
                record_failure(ctx, ev, flat_replay_dict(ev), flat_signature(ev))
        unload(ns)


EDGE_FIELDS = [
    FieldSpec("nf", "optfloat", "val", "float('nan')", "NF", False),
    FieldSpec("na", "any", "val", "float('nan')", None, False),
    FieldSpec("pf", "float", "val", "float('nan')", None, False),
    FieldSpec("te", "tuple_enum", "val", "(Color.RED,)", "TE", False),
    FieldSpec("tp", "tuple_path", "val", "(PurePosixPath('/a'), 1)", None, False),
    FieldSpec("ot", "opt_tuple_enum", "val", "(Color.BLUE,)", None, False),
    FieldSpec("fz", "float", "val", "0.0", None, False),
    FieldSpec("b1", "bool", "val", "True", "B1", False),
]
EDGE_VALUES = {
    "nf": ["None", "float('nan')", "1.0"], "na": ["None", "'q'", "float('nan')", "1"], "pf": ["float('nan')", "0", "2.5"],
    "te": ["(Color.RED,)", "(Color.RED, Color.BLUE)", "()"], "tp": ["(PurePosixPath('/a'), 1)", "(PurePosixPath('/b'), 2)"],
    "ot": ["None", "(Color.BLUE,)", "(Color.RED, Color.BLUE)"], "fz": ["0", "-0.0", "False", "1.5"], "b1": ["1", "True", "False", "1.0"],
}


def run_edge(ctx: vlib.Ctx, cases: list[str], case_info: list):
    """systematic (every run, every seed): defaults with a special comparison -- NaN (holding None / str / NaN /
    numbers), tuples of enum members and paths (element-wise literal), 0.0 / True against ==-equal values of other
    types -- under omit_default coming from Config, Config.dialect and the call dialect, crossed with omit_none,
    the keyword features and sort_keys."""
    rng = ctx.rng
    vectors = []
    for src_od in ("cfg", "cfgd", "call", "off"):
        for on in ("U", "T"):
            for feat in (False, True):
                vectors.append((src_od, on, feat))
    for src_od, on, feat in vectors:
        od = ("U", "T", "U")
        o = Opts(call=od if src_od == "call" else None, cfgd=od if src_od == "cfgd" else None,
                 cfg=(on, "T" if src_od == "cfg" else "U", "U"), sort=feat, fon=feat, fba=feat, fdl=src_od == "call",
                 lazy=(src_od == "cfgd" and feat))
        fields = list(EDGE_FIELDS)
        rng.shuffle(fields)
        src = flat_source(fields, o)
        try:
            ns = load(src)
        except Exception as ex:
            vals = [EDGE_VALUES[f.name][0] for f in fields]
            ev = Eval(src, o, fields, vals, False, kind="class-creation-raised-" + type(ex).__name__,
                      observed=f"{type(ex).__name__}: {ex}", expected="a mapping (class X must compile)")
            ev.what = f"creating the class raised {type(ex).__name__}: {ex}"
            record_failure(ctx, ev, flat_replay_dict(ev), flat_signature(ev))
            continue
        for k in range(4):
            vals = [EDGE_VALUES[f.name][(k + i) % len(EDGE_VALUES[f.name])] if k < 3 else rng.choice(EDGE_VALUES[f.name])
                    for i, f in enumerate(fields)]
            oo = replace(o, kon=rng.choice([None, True, False]) if o.fon else None)
            ev = eval_flat(ns, src, fields, oo, vals)
            ctx.count(("edge",) + flat_key(fields, oo, vals))
            ctx.hist("entry", "edge-defaults")
            if ev.coq is not None:
                cases.append(ev.coq)
                case_info.append(ev)
            if not ev.ok:
                record_failure(ctx, ev, flat_replay_dict(ev), flat_signature(ev))
        unload(ns)


def run(ctx: vlib.Ctx):
    ctx.coverage["rule"] = (
        "flat: random dataclasses of 1-6 fields over 17 field shapes (nullable by type / by default None, trivial / "
        "non-trivial packer, default value / factory / none, alias incl. colliding keys, serialize=omit) x option vector "
        "(call dialect, Config.dialect, Config in {unset,F,T}^3 each -- Config written as BaseConfig subclass, plain class, or "
        "plain class inheriting part of its options from a plain parent --, default dialect via BasicEncoder, sort_keys, lazy, "
        "4 code generation flags, keyword arguments) x values (None / the default / ==-equal of another type / other); "
        "lattice: fixed 6-field family x every (call, Config.dialect, Config) namespace triple (thorough: all 21168, "
        "quick: slice); nested: class tables of 2-5 classes (mixin subclasses, plain dataclasses with a Config, plain "
        "dataclasses without Config) with independent option vectors (Config, Config.dialect, flags, lazy) defined in a "
        "random dependency-respecting order, direct / Optional / Union[...] / List[...] / Dict[str, ...] dataclass fields, EVERY mixin "
        "class used as root in random call order (a shared plain class meets its first builder through different "
        "owners), random instance trees, root keyword arguments incl. call dialect; the nested part of every output is "
        "compared with the nested class's own projection (own plain serialization when it set nothing); history: "
        "systematic owner(lazy?) x nested kind x field kind x first call with/without dialect=; edge: systematic special "
        "defaults (NaN, tuples of enum members / paths, 0.0, True) x source of omit_default x omit_none x features; "
        "generic: classes C(Generic[T]) with gv: T / ga: Annotated[T, ...] inside the nested tables (30 %) and systematically "
        "under every binding (bare, int, date, Optional[int], Optional[date], Union[int, str, None], Any, a bounded variable "
        "left unbound) x mixin / plain / plain+Config x direct / Optional / List / Dict / Union field x keyword / call dialect / "
        "codec of the specialised class; declared: (declared type, default) of every leaf field of those tables against "
        "is_field_nullable of the real (specialised) builder; emitted: the lines _pack_method_set_value of a real builder writes "
        "for every field of every third flat class x by_alias feature x omit_default. "
        "distinct = (schema shape, option vector, values)")
    ctx.trusted += [
        "OptProj.v: hand-written model of the generated to_dict body (kwargs-vs-literal form, nullable / omit_default / "
        "by_alias / omit_none branches, default-method -> dialect-method dispatch with forwarded keyword defaults), "
        "parametric in the packed value of each non-dataclass field; compared with real classes on every generated "
        "case: list(to_dict(**kw).items()) == dict_of(model), type-sensitive, TypeError <-> None",
        "OptNested.v: nested dataclasses (mixin or plain, own Config or none), List[...] and unions of dataclasses under a "
        "mixin root (dynamic dispatch, flags = K8 both, pack_union first accepting member, default dialect handed down to "
        "a plain class = K14 pass_dd); the model has no compile state: that the first compiling owner does not matter is "
        "a consequence of K14 and is exercised by the harness (definition order, root order, lazy owners)",
        "pv: Python values seen by the body are None/bool/int/float/NaN/str/opaque; equality of opaque objects is "
        "decided by the harness ((type, repr) classes of date/list/tuple values)",
        "tools/kernels/k9_nested_builder.py: builder attributes abstracted as namespaces, statements before the nested "
        "builder call translated with it",
        "tools/kernels/k17_nullable.py: field types encoded as kernel values (fty grammar), helper predicates "
        "is_annotated/is_final/is_optional/is_type_var_any as tag tests (is_optional's source text is checked), the "
        "`while True` unwrapping loop as bounded iteration with fuel 1 + nesting depth; k18_pack_bookkeeping.py: "
        "_get_field_packer abstracted as its three results (could_be_none = is_field_nullable is checked textually)",
        "tools/kernels/k108a_set_value.py + OptEmit.v: _pack_method_set_value / __pack_method_set_value translated as functions "
        "returning the emitted lines as structured values (f-string pieces, blocks); OptEmit.run_lines is the hand-written READING "
        "of those shapes (if by_alias / else, if value != <literal>, the NaN test, kwargs[key] = packed); get_field_default, "
        "get_field_default_literal, the NaN test on the default and the serialize_by_alias lookup (K3) are parameters; the text "
        "rendered from the translated lines is compared with the text the real emitter writes on every run",
        "K17Proofs.dty: declared types with type variables (bound by the specialisation / left unbound with a bound); "
        "get_real_type is translated as PyK_c08.ty_real (substitution at the top of the type only -- what is_field_nullable "
        "inspects); compared with the real builder of the specialised class on every run",
        "tools/kernels/k8_packflags.py: is_code_generation_option_enabled abstracted as a namespace lookup (source "
        "text of the method is checked), pass_encoder=False slice of get_pack_method_flags; K3 abstraction of "
        "self.dialect / Config.dialect / Config / default_dialect as four namespaces (tools/gen_kernels.py)",
        "harness: nullable / trivial-packer / default classification of the 14 field shapes, materialisation of "
        "option vectors as Config / Dialect classes, the twin class generator",
    ]
    ctx.assumptions += [
        "instances conform to the field types: a key of the plain output is None only for a nullable field holding "
        "None (vals_ok/none_ok); custom serialization strategies returning None are outside",
        "value equals default: Python == on the attribute value; a NaN default is matched by NaN",
        "excluded corners, each proved refuted in Coq and listed as a known finding: call dialect vs forwarded keyword "
        "defaults (flag_defaults_ok), union member flags (ok_h: flags_eqb), a bounded type variable left unbound "
        "(K17_bound_refuted; vals_ok excludes its None); oracle-only known finding: dialect-specific method of a specialised "
        "generic class (dialect-drops-type-args; such calls are kept out of the Coq cases)",
        "a specialised generic class is not a Union member (after another member the option-free twin itself serializes "
        "it with the unspecialised method: union packing, outside this property; as first member its specially named "
        "method never accepts the other members' instances, which OptNested.pick does not describe)",
        "nested: mixin roots (codec path forwards no flags and hands its default dialect to every class by design); "
        "dataclass-typed fields have no default other than None / default_factory=list",
        "hooks, context values, format encoders (to_json ...) and lazy compilation do not change the mapping: exercised "
        "by the oracle (lazy, context flag), not part of the model",
    ]
    thm = ["C08_project_partial", "C08_project_refuted", "C08_project_actual",
           "C08_spec_sorted", "C08_spec_values"]
    ctx.theorems("props/C08_kernel_K3.vo", ["K3_order", "K3_look"], kernels=["K3"])
    ctx.theorems("props/C08_kernel_K8.vo", ["K8_forward", "K8_use_kwargs"], kernels=["K8"])
    ctx.theorems("props/C08_kernel_K13F.vo", ["K13F_defaults", "C08_ctx_kw_defaults"], kernels=["K13F", "K3"])
    ctx.theorems("props/C08_kernel_K14.vo", ["K14_passdown", "K14_pass_dd"], kernels=["K14"])
    ctx.theorems("props/C08_kernel_K17.vo", ["K17_nullable", "K17_nullable_declared_partial", "K17_bound_refuted"], kernels=["K17"])
    ctx.theorems("props/C08_kernel_K18.vo", ["K18_bookkeeping", "K18_use_kwargs"], kernels=["K18", "K8"])
    ctx.theorems("props/C08_kernel_K108a.vo", ["K108a_set_value", "K108a_emit_kw", "K108a_field"], kernels=["K108a"])
    ctx.theorems("props/C08_kernel_K108b.vo", ["K108b_key", "K108b_order", "K108b_body", "C08_alias_sources", "C08_alias_key"],
                 kernels=["K108b", "K4"])
    ctx.theorems("props/C08_kernel_K108c.vo", ["K108c_literal_part", "K108c_table_one"], kernels=["K108c", "K18"])
    ctx.theorems("props/C08_project.vo", thm)
    ctx.theorems("props/C08_fix.vo", ["C08_project_fixed_full"])
    ctx.theorems("props/C08_nested.vo", ["C08_nested_partial", "C08_union_flags_refuted", "C08_subclass_flags_refuted", "C08_forwarded_exactly", "C08_no_leak",
                                            "C08_option_free_is_plain", "C08_list_elementwise", "C08_dict_elementwise",
                                            "C08_codec_partial", "C08_codec_obj", "C08_codec_no_leak"])

    if not ctx.quick():
        # second opinion: the independent checker on the compiled property files
        with vlib.Lock("build"):
            rc, out, _ = vlib.run(["timeout", "600", "coqchk", "-silent", "-o", "-Q", "theories", "Verif", "-Q", "gen", "VerifGen",
                                   "-Q", "props", "VerifProps", "VerifProps.C08_project", "VerifProps.C08_nested",
                                   "VerifProps.C08_kernel_K3", "VerifProps.C08_kernel_K8", "VerifProps.C08_kernel_K14", "VerifProps.C08_kernel_K17", "VerifProps.C08_kernel_K18", "VerifProps.C08_kernel_K13F", "VerifProps.C08_kernel_K108a", "VerifProps.C08_kernel_K108b", "VerifProps.C08_kernel_K108c", "VerifProps.C08_fix"], cwd=vlib.COQ, timeout=640)
        ok = rc == 0 and "Axioms: <none>" in out
        ctx.obligation("coqchk -o (C08_project, C08_nested, C08_fix, C08_kernel_K3/K8/K13F/K14/K17/K18/K108a/K108b/K108c): no axioms", ok, out[-600:])
        if not ok:
            ctx.not_shown("coqchk", out[-1500:])

    cases: list[str] = []
    info: list = []
    ecases: dict = {}
    lcases: dict = {}
    run_flat(ctx, cases, info, ecases, lcases)
    run_lattice(ctx, cases, info)
    run_edge(ctx, cases, info)

    ncases: list[str] = []
    ninfo: list = []
    ccases: list[str] = []
    cinfo: list = []
    run_history(ctx, ncases, ninfo)
    dcases: dict = {}
    run_generic(ctx, ncases, ninfo, ccases, cinfo, dcases)
    run_nested(ctx, ncases, ninfo, dcases)

    name = "to_dict-model-vs-generated-code"
    bad, log = vlib.coq_bad_idx("c08_flat", "OptProj", "", COQ_DEFS, cases, "case_ok",
                                "opts * list fplan * list fval * option (list (string * pv)) * (bool * list bool)", shard=400,
                                needs=["theories/OptProj.vo"])
    if bad is None:
        ctx.correspondence(name, len(cases), -1, log)
        ctx.not_shown("correspondence " + name, log)
    else:
        # a listed finding that no longer reproduces: the faithful model still contains the defect, the
        # implementation now satisfies the property on that case -> model-stale note, not a violation
        stale = [i for i in bad if info[i].ok and d14_signature(info[i].o)]
        bad = [i for i in bad if i not in set(stale)]
        if stale:
            ctx.notes.append(f"model-stale: {len(stale)} correspondence cases inside the signatures of listed findings "
                             f"(call-dialect-vs-flag-defaults) now satisfy the property; "
                             f"the finding no longer reproduces there")
        detail = ""
        if bad:
            ev = info[bad[0]]
            detail = f"{len(bad)} cases, first: options {ev.o!r} instance {inst_src('X', ev.fields, ev.vals)} observed {ev.observed!r}\n{ev.src}"
        ctx.correspondence(name, len(cases), len(bad), detail)
        if bad:
            ctx.not_shown("correspondence " + name, detail)

    run_codec_nested(ctx, ccases, cinfo)
    name = "codec-nested-model-vs-generated-code"
    bad, log = vlib.coq_bad_idx("c08_codec", "OptProj OptNested", "", NESTED_DEFS, ccases, "ccase_ok",
                                "list cls * (nat * node) * option ns * option pv * bool", shard=300,
                                needs=["theories/OptNested.vo"])
    if bad is None:
        ctx.correspondence(name, len(ccases), -1, log)
        ctx.not_shown("correspondence " + name, log)
    else:
        stale = [i for i in bad if cinfo[i]["_ok"] and cinfo[i]["_kf_zone"]]
        bad = [i for i in bad if i not in set(stale)]
        if stale:
            ctx.notes.append(f"model-stale: {len(stale)} codec correspondence cases inside the signatures of listed findings "
                             f"(omit-none-typevar-bound) now satisfy the property")
        detail = ""
        if bad:
            r = cinfo[bad[0]]
            detail = f"{len(bad)} cases, first: {r['entry']} {r['instance']} default_dialect {r['default_dialect']} observed {r['observed']}\n{r['source']}"
        ctx.correspondence(name, len(ccases), len(bad), detail)
        if bad:
            ctx.not_shown("correspondence " + name, detail)

    name = "emitted-text-K108a-vs-_pack_method_set_value"
    elist = list(ecases)
    bad, log = vlib.coq_bad_idx("c08_emit", "OptProj PyK_c08 OptEmit", "From VerifGen Require Import K108a.", EMIT_DEFS, elist,
                                "ecase_ok", "kv * string * bool * bool * string * option string * bool * bool * list string",
                                shard=400, needs=["theories/OptEmit.vo"])
    if bad is None:
        ctx.correspondence(name, len(elist), -1, log)
        ctx.not_shown("correspondence " + name, log)
    else:
        detail = f"{len(bad)} cases, first: {elist[bad[0]][:600]}" if bad else ""
        ctx.correspondence(name, len(elist), len(bad), detail)
        if bad:
            ctx.not_shown("correspondence " + name, detail)

    name = "loop-text-K108a-vs-_add_pack_method_lines"
    llist = list(lcases)
    bad, log = vlib.coq_bad_idx("c08_loop", "OptProj PyK_c08 OptEmit", "From VerifGen Require Import K108a.", LOOP_DEFS, llist,
                                "lcase_ok", "(bool * bool * bool * bool * bool * bool) * list fcase * list string",
                                shard=200, needs=["theories/OptEmit.vo"])
    if bad is None:
        ctx.correspondence(name, len(llist), -1, log)
        ctx.not_shown("correspondence " + name, log)
    else:
        detail = f"{len(bad)} cases, first: {llist[bad[0]][:900]}" if bad else ""
        ctx.correspondence(name, len(llist), len(bad), detail)
        if bad:
            ctx.not_shown("correspondence " + name, detail)

    name = "declared-type-nullable-vs-is_field_nullable"
    dlist = list(dcases)
    bad, log = vlib.coq_bad_idx("c08_declared", "OptProj PyK_c08 K17Proofs", "From VerifGen Require Import K17.", DECLARED_DEFS, dlist,
                                "dcase_ok", "dty * dflt * bool * bool", shard=400, needs=["theories/K17Proofs.vo"])
    if bad is None:
        ctx.correspondence(name, len(dlist), -1, log)
        ctx.not_shown("correspondence " + name, log)
    else:
        detail = f"{len(bad)} cases, first: {dlist[bad[0]]}" if bad else ""
        ctx.correspondence(name, len(dlist), len(bad), detail)
        if bad:
            ctx.not_shown("correspondence " + name, detail)

    name = "nested-model-vs-generated-code"
    bad, log = vlib.coq_bad_idx("c08_nested", "OptProj OptNested", "", NESTED_DEFS, ncases, "ncase_ok",
                                "list cls * (nat * node) * kwv * option pv * bool", shard=300,
                                needs=["theories/OptNested.vo"])
    if bad is None:
        ctx.correspondence(name, len(ncases), -1, log)
        ctx.not_shown("correspondence " + name, log)
    else:
        stale = [i for i in bad if ninfo[i]["_ok"] and ninfo[i]["_kf_zone"]]
        bad = [i for i in bad if i not in set(stale)]
        if stale:
            ctx.notes.append(f"model-stale: {len(stale)} nested correspondence cases inside the signatures of listed findings "
                             f"(union-member-flags / call-dialect-vs-flag-defaults) now satisfy the property")
        detail = ""
        if bad:
            r = ninfo[bad[0]]
            detail = f"{len(bad)} cases, first: {r['instance']}.to_dict({r['kwargs']}) observed {r['observed']}\n{r['source']}"
        ctx.correspondence(name, len(ncases), len(bad), detail)
        if bad:
            ctx.not_shown("correspondence " + name, detail)


def replay(rep: dict) -> int:
    if rep.get("kind") == "no-failing-input-found":
        print("no failing input was found; broken obligations / correspondence:")
        for u in rep.get("not_shown", []):
            print(" -", u["name"], ":", u["detail"][:400])
        return 2
    try:
        ns = load(rep["source"])
    except Exception as ex:
        print("class source:\n" + rep["source"])
        print("creating the classes raised", f"{type(ex).__name__}: {ex}")
        print("expected :", rep["expected"])
        print("REPRODUCED")
        return 1
    inst = eval(rep["instance"], ns)
    twin = eval(rep["twin_instance"], ns)
    try:
        if rep.get("kind_of_case") == "codec-nested":
            from mashumaro.codecs.basic import BasicEncoder
            plain = BasicEncoder(eval(rep["twin"], ns)).encode(twin)
        else:
            plain = twin.to_dict()
    except Exception as ex:
        plain = f"{type(ex).__name__}: {ex}"
    try:
        if rep.get("entry") == "json-codec":
            import json as _json
            from mashumaro.codecs.json import JSONEncoder
            dd = ns[rep["default_dialect"]] if rep.get("default_dialect") else None
            got = _json.loads(JSONEncoder(eval(rep["cls"], ns), default_dialect=dd).encode(inst))
        elif rep.get("entry") == "toml":
            import tomllib
            got = tomllib.loads(eval(f"_x.to_toml({rep['kwargs']})", dict(ns, _x=inst)))
        elif rep.get("entry") == "codec":
            from mashumaro.codecs.basic import BasicEncoder
            dd = ns[rep["default_dialect"]] if rep.get("default_dialect") else None
            got = BasicEncoder(eval(rep["cls"], ns), default_dialect=dd).encode(inst)
        else:
            got = eval(f"_x.to_dict({rep['kwargs']})", dict(ns, _x=inst))
    except Exception as ex:
        got = f"{type(ex).__name__}: {ex}"
    print("class source:\n" + rep["source"])
    print("instance :", rep["instance"])
    print("call     :", f"to_dict({rep['kwargs']})" if rep.get("entry") != "codec" else "BasicEncoder(...).encode")
    print("plain    :", plain)
    print("observed :", got)
    print("expected :", rep["expected"])
    unload(ns)
    if repr(got) != rep["expected"]:
        print("REPRODUCED")
        return 1
    print("not reproduced")
    return 0
