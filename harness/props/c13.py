"""C13 - Dialects are isolated per call and honoured uniformly by every codec."""
from __future__ import annotations

import base64
import copy
import datetime
import itertools
import json
import os
import sys
import types

from harness import vlib
from harness.vlib import coq_str
from harness.props import c13_fam as F
from harness.props import c13_codec as CD
from harness.props import c13_doc as DOC
from harness.props import c13_layer as LAYER

PROPS = [
    ("props/C13_isolation.vo", ["C13_isolation", "C13_default_unaltered", "C13_shared_cache_refuted"], []),
    ("props/C13_deep.vo", ["C13_isolation_deep", "C13_call_tree_correct"], []),
    ("props/C13_merge.vo", ["C13_merge_total", "C13_merge_covers_all_options", "C13_merge_strategies", "C13_codec_option_uniform"],
     ["K2", "K3", "K13"]),
    ("props/C13_twin.vo", ["C13_twin_partial", "C13_call_dialect_refuted", "C13_union_partial", "C13_union_member_flags_refuted",
                           "C13_options_only_via_resolution", "C13_every_option_read", "C13_option_defaults_consistent",
                           "C13_flag_keyword_default", "C13_twin_strategy_sources"], ["K2", "K3", "K5", "K13", "K13F"]),
    ("props/C13_forward.vo", ["C13_unpack_flags", "C13_self_forwards_dialect", "C13_flag_sites"], ["K13U"]),
    ("props/C13_document.vo", ["C13_codec_plans", "C13_merge_is_model", "C13_same_document_silent", "C13_silent_formats",
                               "C13_same_document_toml", "C13_codec_user_option_wins", "C13_same_document_partial",
                               "C13_same_document_full_refuted", "C13_cache_names_injective", "C13_method_names_separate"],
     ["K2", "K11", "K13", "K13C"]),
    ("props/C13_decode.vo", ["C13_format_dialects_leave_namedtuple_mode", "C13_merge_namedtuple_mode", "C13_decode_keys_and_nt_mode",
                             "C13_same_decode_plan_partial", "C13_same_decode_plan_full_refuted", "C13_format_no_copy_table",
                             "C13_no_copy_user_wins", "C13_no_copy_format_default"], ["K2", "K13", "K13C"]),
    ("props/C13_union.vo", ["C13_union4_partial", "C13_union4_total", "C13_union4_refuted"], []),
    ("props/C13_layer.vo", ["C13_layered_twin_partial", "C13_layered_twin_full_refuted", "C13_layered_strategy_partial",
                            "C13_layered_strategy_full_refuted", "C13_layered_call_dialect_wins", "C13_layered_sources_are_code",
                            "C13_merged_sources_are_code", "C13_first_hit_is_code", "C13_layered_code_end_to_end",
                            "C13_merge_strategies_is_code", "C13_layered_code_end_to_end_K"], ["K2", "K3", "K5", "K13", "K113a"]),
]

BOOL_OPTS = ("omit_none", "omit_default", "serialize_by_alias", "namedtuple_as_dict")
FIVE = ("serialize_by_alias", "namedtuple_as_dict", "omit_none", "omit_default", "no_copy_collections")
CID = {"P": 0, "C": 1, "G": 2, "S": 3, "Inner": 4, "Plain": 5}
HIER = "[(1, [0]); (2, [1; 0]); (3, [0])]"
TSETS = {frozenset(["t_P"]): "P", frozenset(["t_P", "t_C"]): "C", frozenset(["t_P", "t_C", "t_G"]): "G",
         frozenset(["t_P", "t_S"]): "S", frozenset(["t_Inner"]): "Inner", frozenset(["t_Plain"]): "Plain"}


# ---------------------------------------------------------------------------
# (T) K2: translated option loop vs the real Dialect.merge
# ---------------------------------------------------------------------------

def _kv(v) -> str:
    from mashumaro.core.const import Sentinel
    if v is Sentinel.MISSING:
        return "KMissing"
    if v is True:
        return "(KBool true)"
    if v is False:
        return "(KBool false)"
    if isinstance(v, tuple):
        ids = {list: 1, dict: 2, set: 3, tuple: 4}
        return "(KTuple [" + "; ".join(f"KObj {ids[t]}%nat" for t in v) + "])"
    raise ValueError(v)


def k2_validation(ctx: vlib.Ctx):
    from mashumaro.dialect import Dialect
    from mashumaro.core.const import Sentinel
    attrs = [a for a in Dialect.__dict__ if not a.startswith("__") and a not in ("merge", "serialization_strategy")]
    r = ctx.rng
    nocopy = [Sentinel.MISSING, (), (list,), (list, dict), (dict, set)]
    cases, descr = [], []
    n = ctx.budget(150, 1200)
    for i in range(n):
        def one():
            d = {}
            for a in attrs:
                if a == "no_copy_collections":
                    d[a] = r.choice(nocopy)
                else:
                    d[a] = r.choice([Sentinel.MISSING, True, False])
            return d
        a, b = one(), one()
        if i < len(attrs) * 2:   # each option alone: set only in cls / only in other
            a = {k: Sentinel.MISSING for k in attrs}
            b = dict(a)
            which = attrs[i // 2]
            (a if i % 2 == 0 else b)[which] = (list,) if which == "no_copy_collections" else True
        A = type("A", (Dialect,), dict(a))
        B = type("B", (Dialect,), dict(b))
        M = A.merge(B)
        exp = {k: getattr(M, k) for k in attrs}
        ns = lambda d: "[" + "; ".join(f'("{k}", {_kv(v)})' for k, v in d.items()) + "]"  # noqa: E731
        cases.append(f"({ns(a)}, {ns(b)}, {ns(exp)})")
        descr.append((a, b))
    ctx.count(n=len(cases))
    if not ctx.kernel_report.get("K2", {}).get("ok"):
        ctx.not_shown("translation validation K2", "K2 did not translate")
        return
    bad, log = vlib.coq_bad_idx("c13_k2", "DialectMerge", "From VerifGen Require Import K2 K13.", "", cases,
                                "k2_case_ok", "k2_case", shard=600, needs=["theories/DialectMerge.vo"])
    if bad is None:
        ctx.correspondence("K2-translation-vs-python", len(cases), -1, log)
        ctx.not_shown("translation validation K2", log)
    else:
        ctx.correspondence("K2-translation-vs-python", len(cases), len(bad), str([str(descr[i]) for i in bad[:3]]))
        if bad:
            ctx.not_shown("translation validation K2", f"{len(bad)} namespaces differ, e.g. {descr[bad[0]]}")


# ---------------------------------------------------------------------------
# (M) strategy-map part of Dialect.merge vs merge_strategies
# ---------------------------------------------------------------------------

def strategy_corr(ctx: vlib.Ctx):
    from mashumaro.dialect import Dialect
    from mashumaro.types import SerializationStrategy

    class St(SerializationStrategy):
        def serialize(self, v):
            return v

        def deserialize(self, v):
            return v

    r = ctx.rng
    types_pool = [int, str, bytes, float, datetime.date, datetime.datetime]
    n = ctx.budget(150, 1500)
    cases, descr = [], []
    for _ in range(n):
        objs: dict[int, int] = {}       # id(obj) -> small number
        keep = []

        def num(o):
            if id(o) not in objs:
                objs[id(o)] = len(objs) + 1
                keep.append(o)
            return objs[id(o)]

        def rand_map():
            m = {}
            for t in r.sample(types_pool, r.randint(0, 4)):
                kind = r.randrange(4)
                if kind == 0:
                    m[t] = St()
                else:
                    d = {}
                    names = r.choice([["serialize"], ["deserialize"], ["serialize", "deserialize"], ["deserialize", "serialize"], []])
                    for nm in names:
                        d[nm] = (lambda v: v) if r.random() < 0.8 else str
                    m[t] = d
            return m

        def enc(m):
            parts = []
            for t, v in m.items():
                ti = types_pool.index(t)
                if isinstance(v, SerializationStrategy):
                    parts.append(f"({ti}, SStrat {num(v)})")
                else:
                    parts.append(f"({ti}, SDict [" + "; ".join(f'("{k}", {num(f)})' for k, f in v.items()) + "])")
            return "[" + "; ".join(parts) + "]"

        ca, cb = rand_map(), rand_map()
        A = type("A", (Dialect,), {"serialization_strategy": ca})
        B = type("B", (Dialect,), {"serialization_strategy": cb})
        ea, eb = enc(ca), enc(cb)          # number the inputs first
        snap = lambda m: {t: ([(k, id(f)) for k, f in v.items()] if isinstance(v, dict) else id(v)) for t, v in m.items()}  # noqa: E731
        snapshot = (snap(ca), snap(cb))
        M = A.merge(B)
        em = enc(M.serialization_strategy)
        cases.append(f"({ea}, {eb}, {em})")
        descr.append(f"{ea} + {eb}")
        # merge must not mutate its inputs (dict values of cls are copied)
        after = (snap(ca), snap(cb))
        ctx.count(("strat", ea, eb))
        if after != snapshot:
            ctx.fail("Dialect.merge mutates the strategy map of one of its arguments (a later codec built from the same "
                     "format dialect would inherit this user's strategies)",
                     {"entry": "merge-mutation", "cls_map": ea, "other_map": eb}, {"kind": "merge-mutates-input"})
    bad, log = vlib.coq_bad_idx("c13_strat", "DialectMerge", "", "Open Scope nat_scope.\n", cases,
                                "fun c => smap_eqb (merge_strategies (fst (fst c)) (snd (fst c))) (snd c)",
                                "smap * smap * smap", shard=500, needs=["theories/DialectMerge.vo"])
    if bad is None:
        ctx.correspondence("merge_strategies-model-vs-Dialect.merge", len(cases), -1, log)
        ctx.not_shown("correspondence merge_strategies", log)
    else:
        ctx.correspondence("merge_strategies-model-vs-Dialect.merge", len(cases), len(bad), str([descr[i] for i in bad[:3]]))
        if bad:
            ctx.not_shown("correspondence merge_strategies", f"{len(bad)} maps differ, e.g. {descr[bad[0]]}")
    # (T) the strategy loops of Dialect.merge as translated on this run (kernel K113a), on the same maps
    bad, log = vlib.coq_bad_idx("c13_k113a", "DialectMerge DialectLayer DialectLayerK5 DialectMergeK", "From VerifGen Require Import K113a.",
                                "Open Scope nat_scope.\n", cases, "k113a_case_ok", "smap * smap * smap", shard=500,
                                needs=["theories/DialectMergeK.vo"])
    name = "K113a-translated-merge-loops-vs-Dialect.merge"
    if bad is None:
        ctx.correspondence(name, len(cases), -1, log)
        ctx.not_shown("correspondence " + name, log)
    else:
        ctx.correspondence(name, len(cases), len(bad), str([descr[i] for i in bad[:3]]))
        if bad:
            ctx.not_shown("correspondence " + name, f"{len(bad)} maps differ, e.g. {descr[bad[0]]}")


# ---------------------------------------------------------------------------
# histories on class families
# ---------------------------------------------------------------------------

KINDS = ["opt", "int", "alias", "nt", "list", "str", "optstr", "bytes", "selfopt", "selflist"]


def gen_spec(r) -> dict:
    k = r.randint(2, 4)
    dialects = {}
    for i in range(1, k + 1):
        s = {o: r.choice([None, None, True, False]) for o in BOOL_OPTS}
        s["no_copy_collections"] = r.choice([None, None, "empty", "list", "listdict"])
        s["int"] = r.choice([None, None, "dict", "strat", "ser", "de"])
        s["bytes"] = r.choice([None, None, "de"])
        s["str"] = r.random() < 0.3
        dialects[str(i)] = s
    base = None
    if r.random() < 0.3:
        # the classes have a default dialect of their own: a dialect that says no more than dialect j
        j = r.randint(1, k)
        b = {o: (v if r.random() < 0.6 else (None if o != "str" else False)) for o, v in dialects[str(j)].items()}
        base = k + 1
        dialects[str(base)] = b
    flags = ["dialect"]
    if r.random() < 0.3:
        flags += r.choice([["omit_none"], ["by_alias"], ["omit_none", "by_alias"]])
        if base is not None:
            # keyword flags whose default must come from the classes' default dialect
            if "omit_none" in flags and r.random() < 0.7:
                dialects[str(base)]["omit_none"] = True
            if "by_alias" in flags and r.random() < 0.7:
                dialects[str(base)]["serialize_by_alias"] = True

    def cfg():
        c = {"flags": list(flags)}
        for o in BOOL_OPTS:
            if r.random() < 0.2:
                c[o] = r.choice([True, True, False])
        return c

    cnt = itertools.count()

    def flds(prefix, lo, hi, inner_p):
        out = [[f"{prefix}{next(cnt)}", kd] for kd in r.sample(KINDS, r.randint(lo, hi))]
        if r.random() < inner_p:
            out.append([f"{prefix}in", "inner"])
        if r.random() < (inner_p * 0.7 if inner_p else 0.15):
            out.append([f"{prefix}pl", "plain"])      # a plain (non-mixin) dataclass: compiled on demand
        return out

    mixin = r.choice(["DataClassMessagePackMixin", "DataClassMessagePackMixin", "DataClassORJSONMixin", "DataClassTOMLMixin"]) \
        if r.random() < 0.45 else None
    if mixin == "DataClassTOMLMixin":
        # TOML has no null: omit_none stays on (TOMLDialect) -- no source may switch it off
        for dsp in dialects.values():
            if dsp.get("omit_none") is False:
                dsp["omit_none"] = None
    classes = {
        "Inner": {"base": None, "mixin": mixin, "fields": [["n", "opt"], ["w", "int"]], "config": cfg()},
        "Plain": {"base": None, "plain_dataclass": True, "fields": [["q", "opt"]], "config": cfg()},
        "P": {"base": None, "mixin": mixin, "fields": flds("p", 3, 5, 0.0), "config": cfg()},
        "C": {"base": "P", "fields": flds("c", 1, 3, 0.5), "config": cfg() if r.random() < 0.25 else None},
        "G": {"base": "C", "fields": flds("g", 1, 2, 0.0), "config": cfg() if r.random() < 0.25 else None},
        "S": {"base": "P", "fields": flds("s", 1, 2, 0.4), "config": cfg() if r.random() < 0.25 else None},
    }
    for nm in ("Inner", "Plain"):
        if r.random() < 0.25:
            # a nested class that does not take dialects: the call dialect must stop there
            classes[nm]["config"]["flags"] = [f for f in classes[nm]["config"]["flags"] if f != "dialect"]
    if mixin == "DataClassTOMLMixin":
        for c in classes.values():
            if c.get("config") is not None and c["config"].get("omit_none") is False:
                c["config"]["omit_none"] = None
    if r.random() < 0.3:
        classes["P"]["fields"].append(["pbn", "byname"])      # self-reference by name: compilation of P is postponed
    return {"dialects": dialects, "classes": classes, "order": ["Inner", "Plain", "P", "C", "G", "S"], "flags": flags, "lazy": r.random() < 0.3,
            "base_dialect": base, "mixin": mixin, "cfg_int": r.random() < 0.4}


def uniform_flag_options(spec: dict) -> bool:
    """A keyword flag is forwarded to nested dataclasses and then overrides THEIR Config value, so 'a flag only adds
    a keyword' is claimed only for families whose classes agree on the Config value of the flag-steered options."""
    if spec.get("base_dialect") is not None and any(
            c.get("config") is not None and "dialect" not in c["config"].get("flags", ["dialect"]) for c in spec["classes"].values()):
        return False      # the classes' own default dialect reaches only the classes with dialect support
    for flag, opt in (("omit_none", "omit_none"), ("by_alias", "serialize_by_alias")):
        if flag in spec.get("flags", []):
            vals = {json.dumps(c["config"].get(opt)) for c in spec["classes"].values() if c.get("config") is not None}
            if len(vals) > 1:
                return False
    return True


def covers(spec: dict, di) -> bool:
    """Does the call dialect say something wherever the classes' own default dialect does (DialectTwin.covers)?
    Only then is `dialect=D` comparable with the twin whose default dialect is D: a call dialect is layered
    over Config.dialect, it does not replace it."""
    b = spec.get("base_dialect")
    if b is None:
        return True
    if di is None:
        return True                      # plain call: the twin is the family itself
    bs, ds = spec["dialects"][str(b)], spec["dialects"][str(di)]
    dirs = {None: set(), "dict": {"s", "d"}, "strat": {"s", "d"}, "ser": {"s"}, "de": {"d"}}
    for o in ("int", "bytes"):
        if not dirs[bs.get(o)] <= dirs[ds.get(o)]:
            return False
    for o, v in bs.items():
        if o in ("int", "bytes"):
            continue
        if v not in (None, False) or (v is False and o != "str"):
            dv = ds.get(o)
            if dv is None or (o == "str" and not dv):
                return False
    return True


def layer_ok_spec(spec: dict, di) -> bool:
    """DialectLayer.layer_ok in both directions: Dialect.merge replaces a strategy OBJECT of the classes' own default
    dialect whole when D brings a dict for the same type, whereas the layered lookup still reaches that object for the
    direction D's dict lacks (C13_layered_strategy_full_refuted)."""
    bs, ds = spec["dialects"][str(spec["base_dialect"])], spec["dialects"][str(di)]
    return not (bs.get("int") == "strat" and ds.get("int") in ("ser", "de"))


def twin_key(spec: dict, di):
    """Which twin family `dialect=D<di>` is compared with: the family whose default dialect is D; where the classes have
    a default dialect B of their own that D does not cover, the family whose default dialect is the REAL B.merge(D)
    (C13_layered_twin_partial / C13_layered_strategy_partial), resp. D layered over B by hand where merge is not the
    layering."""
    if di is None or covers(spec, di):
        return di
    return ("merge", di) if layer_ok_spec(spec, di) else ("layer", di)


def gen_vals(r, fam: F.Family, cname: str, depth: int = 0) -> dict:
    vals = {}
    for f, kind in fam.all_fields(cname):
        if kind == "byname":
            if depth < 2 and r.random() < (0.7 if depth == 0 else 0.35):
                vals[f] = gen_vals(r, fam, "P", depth + 1)
            continue
        if kind in ("selfopt", "selflist"):
            # recursive positions: nested nodes of the same class, two or three levels deep
            if depth < 2 and r.random() < (0.75 if depth == 0 else 0.4):
                if kind == "selfopt":
                    vals[f] = gen_vals(r, fam, cname, depth + 1)
                else:
                    vals[f] = [gen_vals(r, fam, cname, depth + 1) for _ in range(r.randint(1, 2))]
            continue
        if r.random() < 0.25:
            continue                                   # leave the default
        vals[f] = {"opt": lambda: r.choice([None, 3, 0]), "int": lambda: r.choice([5, 6, 0]),
                   "alias": lambda: r.choice([7, 8]), "nt": lambda: r.choice([[1, 2], [3, 4]]),
                   "list": lambda: r.choice([[], [1, 2], [5]]), "str": lambda: r.choice(["s", "abc"]),
                   "optstr": lambda: r.choice([None, "x"]), "bytes": lambda: r.choice(["6162", "00ff10", ""]),
                   "inner": lambda: {"n": r.choice([None, 4]), "w": r.choice([5, 9])},
                   "plain": lambda: {"q": r.choice([None, 2])}}[kind]()
    return vals


def gen_history(r, spec: dict, n_ops: int) -> list:
    k = len(spec["dialects"]) - (1 if spec.get("base_dialect") is not None else 0)   # the classes' own default dialect is not passed to calls
    ops = [["define", "Inner"], ["define", "Plain"], ["define", "P"]]
    defined = ["P"]
    pending = ["C", "S"]
    hot = [r.randint(1, k)]
    for _ in range(n_ops):
        if pending and r.random() < 0.3:
            c = pending.pop(r.randrange(len(pending)))
            ops.append(["define", c])
            defined.append(c)
            if c == "C":
                pending.append("G")
            continue
        c = r.choice(defined + (["Inner"] if r.random() < 0.15 else []))
        d = r.choice([None] + hot + hot + list(range(1, k + 1)))
        if c == "Inner" and "dialect" not in spec["classes"]["Inner"]["config"]["flags"]:
            d = None
        if d is not None and d not in hot:
            hot.append(d)
        dirs = ["to", "to", "from"] + (["mto", "mto", "mfrom"] if spec.get("mixin") else [])
        ops.append(["call", c, r.choice(dirs), d, None])   # vals filled at run time
    return ops


def has_kind(fam: F.Family, cname: str, kind: str) -> bool:
    return any(k == kind for _f, k in fam.all_fields(cname))


def is_deferred(fam: F.Family, cname: str) -> bool:
    """Is the real compilation of the class's methods put off to the first call: lazy_compilation, or a forward
    reference that cannot be resolved at class creation (P referring to itself by name)."""
    return bool(fam.spec.get("lazy")) or (cname == "P" and has_kind(fam, "P", "byname"))


def has_inner(fam: F.Family, cname: str):
    for f, kind in fam.all_fields(cname):
        if kind == "inner":
            return f
    return None


def decode_to(out):
    """Which (class, dialect) compile produced this to_dict result."""
    if not isinstance(out, dict):
        return None
    ts = {k: v for k, v in out.items() if isinstance(k, str) and k.startswith("t_")}
    name = TSETS.get(frozenset(ts))
    vals = set(ts.values())
    if name is None or len(vals) != 1:
        return None
    m = vals.pop()
    if not isinstance(m, int) or isinstance(m, bool):
        return None
    return (CID[name], m)


def decode_from(res):
    if res is None:
        return None
    ts = {}
    for a in dir(res):
        if a.startswith("t_"):
            t = getattr(res, a)
            m = getattr(t, "m", None)
            if isinstance(m, int) and m >= 0:
                ts[a] = m
    name = TSETS.get(frozenset(ts))
    vals = set(ts.values())
    if name is None or len(vals) != 1 or type(res).__name__ not in CID:
        return None
    # the unpacker used is the one whose t-fields were decoded; the instance class is `cls`
    return (CID[name], vals.pop())


def nested_to(raw):
    """(class name or None, decoded tag) of every nested dataclass document, in the order the nested
    to_dict calls happen (pre-order, field order)."""
    out = []

    def visit(v):
        if isinstance(v, dict):
            if any(isinstance(k, str) and k.startswith("t_") for k in v):
                tag = decode_to(v)
                ts = frozenset(k for k in v if isinstance(k, str) and k.startswith("t_"))
                out.append((TSETS.get(ts), tag))
                walk(v)
            else:
                for x in v.values():
                    visit(x)
        elif isinstance(v, (list, tuple)):
            for x in v:
                visit(x)

    def walk(d):
        for x in d.values():
            visit(x)

    if isinstance(raw, dict):
        walk(raw)
    return out


def nested_to_guided(fam: F.Family, cname: str, raw):
    """like nested_to, but in FIELD order of the classes (the order of the nested calls) instead of the key order of
    the returned mapping: a format library may reorder keys (tomli_w writes scalars before tables)."""
    out = []

    def visit(cn, d):
        if not isinstance(d, dict):
            return
        for f, kind in fam.all_fields(cn):
            if f not in d:
                continue
            child = {"inner": "Inner", "plain": "Plain", "byname": "P", "selfopt": cn, "selflist": cn}.get(kind)
            if child is None:
                continue
            vs = d[f] if kind == "selflist" else [d[f]]
            for v in (vs if isinstance(vs, list) else []):
                if isinstance(v, dict):
                    out.append((child, decode_to(v)))
                    visit(child, v)

    visit(cname, raw)
    return out


def nested_from(res):
    """the same for from_dict: nested dataclass instances that were actually unpacked (a defaulted
    nested instance has undecoded tags)."""
    import dataclasses
    out = []

    def visit(v):
        if dataclasses.is_dataclass(v) and not isinstance(v, type):
            marks = [getattr(getattr(v, a), "m", -1) for a in dir(v) if a.startswith("t_")]
            if any(isinstance(m, int) and m >= 0 for m in marks):
                out.append((type(v).__name__, decode_from(v)))
                walk(v)
        elif isinstance(v, (list, tuple)) and not hasattr(v, "_fields"):
            for x in v:
                visit(x)

    def walk(inst):
        for f in dataclasses.fields(inst):
            visit(getattr(inst, f.name))

    if res is not None and dataclasses.is_dataclass(res):
        walk(res)
    return out


def coq_tag(t, base=None):
    if t is None:
        return "None"
    c, m = t
    return f"Some ({c}, {'None' if m in (0, base) else f'Some {m}'})"


def coq_tree(t) -> str:
    return f"(Node {t[0]} [" + "; ".join(coq_tree(k) for k in t[1]) + "])"


def coq_op(o):
    if o[0] == "define":
        return f"DDefine {o[1]}"
    return f"DCall {coq_tree(o[1])} ({'None' if o[2] is None else f'Some {o[2]}'})"


def value_tree(fam: F.Family, cname: str, vals: dict):
    """The instance as a tree of class identities (pre-order = the order of the nested calls): derived from
    the value specification, not from anything the library returns."""
    kids = []
    for f, kind in fam.all_fields(cname):
        v = vals.get(f)
        if kind == "inner":
            kids.append(value_tree(fam, "Inner", v or {}))
        elif kind == "plain":
            kids.append(value_tree(fam, "Plain", v or {}))
        elif kind == "byname" and v is not None:
            kids.append(value_tree(fam, "P", v))
        elif kind == "selfopt" and v is not None:
            kids.append(value_tree(fam, cname, v))
        elif kind == "selflist" and v:
            kids.extend(value_tree(fam, cname, x) for x in v)
    return (CID[cname], kids)


release_builders = F.release_builders


class HistoryRun:
    """Runs one history on a fresh family; collects oracle verdicts and the model case."""

    def __init__(self, spec, ops, r=None, also_layer=False, keep_trace=False):
        self.spec, self.ops, self.r = spec, ops, r
        # also_layer: a call compared with the REAL-merge twin is compared with the hand-layered twin too
        self.also_layer, self.trace = also_layer, ([] if keep_trace else None)
        self.fam = F.Family(spec, None, define_all=False)
        self.twins: dict = {}
        self.dirs = ("to", "from", "mto", "mfrom") if spec.get("mixin") else ("to", "from")
        self.model = {d: ([], []) for d in self.dirs}     # (format, direction) -> (ops, expected outs)
        self.mismatch = None
        self.stats = []
        self.uncovered = 0

    def twin(self, key):
        if key not in self.twins:
            self.twins[key] = F.Family(self.spec, None if key is None else (("idx", key) if isinstance(key, int) else key))
        return self.twins[key]

    def unflagged(self):
        if "noflags" not in self.twins:
            sp = copy.deepcopy(self.spec)
            sp["flags"] = ["dialect"]
            for c in sp["classes"].values():
                if c.get("config") is not None:
                    c["config"]["flags"] = [f for f in c["config"]["flags"] if f == "dialect"]
            self.twins["noflags"] = F.Family(sp, None)
        return self.twins["noflags"]

    def close(self):
        self.fam.close()
        for t in self.twins.values():
            t.close()
        release_builders()

    def run(self):
        fam = self.fam
        for idx, op in enumerate(self.ops):
            if op[0] == "define":
                fam.define(op[1])
                if op[1] == "Plain":
                    continue          # a plain dataclass: nothing is compiled until a class that uses it is
                for d in self.dirs:
                    if has_kind(fam, op[1], "plain") and not is_deferred(fam, op[1]):
                        # eager class creation compiles the plain nested class on demand (dialect None)
                        self.model[d][0].append(["define", CID["Plain"]])
                        self.model[d][1].append([])
                    self.model[d][0].append(["define", CID[op[1]]])
                    self.model[d][1].append([])
                continue
            _, c, direction, di, vals = op
            if vals is None:
                vals = gen_vals(self.r, fam, c)
                op[4] = vals
            tw = self.twin(twin_key(self.spec, di))
            mops, mouts = self.model[direction]
            if is_deferred(fam, c) and has_kind(fam, c, "plain"):
                # lazy_compilation / postponed: the first call in this (format, direction) compiles the class, and with it
                # the plain nested class (default method, own cache) -- repeated definitions are idempotent
                mops.append(["define", CID["Plain"]])
                mouts.append([])
            mp = direction in ("mto", "mfrom")
            if direction in ("to", "mto"):
                got, gid, raw = F.call_to_dict(fam, c, vals, di, mp)
                exp, eid, _ = F.call_to_dict(tw, c, vals, None, mp)
                mops.append(["call", value_tree(fam, c, vals), di])
                mouts.append([decode_to(raw)] + [tag for _n, tag in nested_to_guided(fam, c, raw)])
                ok = (got == exp and gid == eid)
                observed, expected = [got, gid], [exp, eid]
                if ok and self.also_layer and isinstance(twin_key(self.spec, di), tuple) and twin_key(self.spec, di)[0] == "merge":
                    exp, eid, _ = F.call_to_dict(self.twin(("layer", di)), c, vals, None, mp)
                    ok = (got == exp and gid == eid)
                    expected = [exp, eid]
                if self.trace is not None:
                    self.trace.append((c, direction, di, vals, raw))
                flags = self.spec.get("flags", ["dialect"])
                if ok and di is None and len(flags) > 1 and self.mismatch is None and uniform_flag_options(self.spec):
                    # a keyword flag only adds a keyword: without that keyword the result is the one of the same
                    # family without the flag options (whatever supplies the option: Config, Config.dialect, format)
                    nf = self.unflagged()
                    exp2, eid2, _ = F.call_to_dict(nf, c, vals, None, mp)
                    if [got, gid] != [exp2, eid2]:
                        self.mismatch = {"index": idx, "op": [c, direction, di, vals], "observed": [got, gid],
                                         "expected": [exp2, eid2], "kind": "keyword-flag-changes-default-output"}
                        break
            else:
                _, _, doc = F.call_to_dict(tw, c, vals, None, mp)      # a document of dialect di (layered over the classes' own)
                got, res = F.call_from_dict(fam, c, doc, di, mp)
                exp, _ = F.call_from_dict(tw, c, doc, None, mp)
                mops.append(["call", value_tree(fam, c, vals), di])
                mouts.append([decode_from(res)] + [tag for _n, tag in nested_from(res)])
                ok = got == exp
                observed, expected = got, exp
                if ok and self.also_layer and isinstance(twin_key(self.spec, di), tuple) and twin_key(self.spec, di)[0] == "merge":
                    exp, _ = F.call_from_dict(self.twin(("layer", di)), c, doc, None, mp)
                    ok = got == exp
                    expected = exp
                if self.trace is not None:
                    self.trace.append((c, direction, di, doc, res))
            self.stats.append((c, direction, di))
            if not covers(self.spec, di):
                self.uncovered += 1          # compared with the merged / layered twin
            if not ok and self.mismatch is None:
                self.mismatch = {"index": idx, "op": [c, direction, di, vals], "observed": observed, "expected": expected}
                break
        return self.mismatch

    def cache_case(self, direction) -> str:
        mops, mouts = self.model[direction]
        keys = []
        for name in ("P", "C", "G", "S", "Inner", "Plain"):
            ks = F.own_cache_keys(self.fam, name, direction)
            keys.append("None" if ks is None else "Some [" + "; ".join(map(str, ks)) + "]")
        base = self.spec.get("base_dialect")
        nosup = [str(CID[n]) for n, c in self.spec["classes"].items()
                 if c.get("config") is not None and "dialect" not in c["config"].get("flags", ["dialect"])]
        outs = "; ".join("[" + "; ".join(coq_tag(t, base) for t in o) + "]" for o in mouts)
        return (f"({HIER}, [{'; '.join(nosup)}], [0; 1; 2; 3; 4; 5], [" + "; ".join(coq_op(o) for o in mops) + "], (["
                + outs + "], [" + "; ".join(keys) + "]))")


def classify_history_failure(hr: HistoryRun, mm: dict) -> dict:
    """Signature of a history mismatch; narrow predicate for call-dialect-vs-flag-defaults."""
    c, direction, di, vals = mm["op"]
    if mm.get("kind"):
        return {"kind": mm["kind"], "direction": direction}
    sig = {"kind": "call-dialect-differs-from-twin", "direction": direction}
    flags = hr.spec.get("flags", ["dialect"])
    if direction in ("to", "mto") and di is not None and ("omit_none" in flags or "by_alias" in flags):
        dspec = hr.spec["dialects"][str(di)]
        drop = []
        if "omit_none" in flags and dspec.get("omit_none") is not None:
            drop.append("omit_none")
        if "by_alias" in flags and dspec.get("serialize_by_alias") is not None:
            drop.append("serialize_by_alias")
        if drop:
            # the keyword default that the default method forwards comes from the classes' own default dialect, if any
            bspec = hr.spec["dialects"].get(str(hr.spec.get("base_dialect")), {})
            drop = [(o, bspec.get(o)) for o in drop]
            # the difference must be confined to those projections: the real result equals the twin
            # whose default dialect is D without the options steered by keyword flags
            tw2 = hr.twin(("mod" if covers(hr.spec, di) else "modlayer", di, tuple(drop)))
            exp2, eid2, _ = F.call_to_dict(tw2, c, vals, None, direction == "mto")
            if [exp2, eid2] == [mm["observed"][0], mm["observed"][1]]:
                sig = {"kind": "call-dialect-vs-flag-defaults", "direction": direction}
    return sig


def history_part(ctx: vlib.Ctx, n_hist=None, tag=""):
    r = ctx.rng
    n_hist = n_hist or ctx.budget(45, 320)
    cases, descr = [], []
    kf_hits = 0
    for h in range(n_hist):
        spec = gen_spec(r)
        ops = gen_history(r, spec, r.randint(10, 22))
        hr = HistoryRun(spec, ops, r)
        try:
            mm = hr.run()
            for (c, direction, di) in hr.stats:
                ctx.count(("hist", h, c, direction, di))
                ctx.hist("history_calls", f"{direction}:{'none' if di is None else 'dialect'}")
                ctx.hist("history_class", c)
            ctx.hist("family_flags", "+".join(spec["flags"]))
            ctx.hist("family_mixin", spec.get("mixin") or "DataClassDictMixin")
            ctx.hist("family_compilation", "lazy" if spec.get("lazy") else "eager")
            ctx.hist("family_default_dialect", "own Config.dialect" if spec.get("base_dialect") else "none")
            if hr.uncovered:
                ctx.hist("history_calls", "layered:call-dialect-does-not-cover-Config.dialect (twin = Config.dialect.merge(D))", hr.uncovered)
            if mm is not None:
                sig = classify_history_failure(hr, mm)
                upto = [list(o) for o in ops[:mm["index"] + 1]]
                what_twin = ("the same family without keyword-flag options" if sig["kind"] == "keyword-flag-changes-default-output"
                             else f"the twin family whose default dialect is D{mm['op'][2]}"
                             + ("" if not isinstance(twin_key(spec, mm['op'][2]), tuple) else
                                f" layered over the classes' own D{spec['base_dialect']} (Config.dialect.merge(D))"))
                ctx.fail(f"{mm['op'][0]}.{ {'to': 'to_dict', 'from': 'from_dict', 'mto': 'to_<format>', 'mfrom': 'from_<format>'}[mm['op'][1]] }(dialect=D{mm['op'][2]}) after "
                         f"{mm['index']} earlier operations differs from {what_twin}",
                         {"entry": "history", "spec": spec, "source": F.family_source(spec), "ops": upto,
                          "observed": mm["observed"], "expected": mm["expected"]}, sig)
                if sig["kind"] == "call-dialect-vs-flag-defaults":
                    kf_hits += 1
            else:
                for d in hr.dirs:
                    cases.append(hr.cache_case(d))
                    descr.append({"direction": d, "spec": spec, "ops": [list(o) for o in ops]})
                if h < 2:
                    ctx.sample({"history": [o[:4] for o in ops], "dialects": spec["dialects"]})
        finally:
            hr.close()
    bad, log = vlib.coq_bad_idx("c13_cache" + tag, "DialectCache DialectDeep", "", "Open Scope nat_scope.\n", cases,
                                "deep_case_ok", "deep_case", shard=250, needs=["theories/DialectDeep.vo"])
    name = "cache-state-machine-vs-real-class-families" + tag
    if bad is None:
        ctx.correspondence(name, len(cases), -1, log)
        ctx.not_shown("correspondence " + name, log)
    else:
        ctx.correspondence(name, len(cases), len(bad), "; ".join(cases[i][:400] for i in bad[:2]))
        if bad and os.environ.get("C13_DEBUG"):
            print(json.dumps(descr[bad[0]], default=str), file=sys.stderr)
        if bad:
            ctx.not_shown("correspondence " + name, f"{len(bad)} histories: model and /repo disagree on which (class, dialect) "
                          f"method served a call or on the contents of the own caches, e.g. {cases[bad[0]][:1500]} || {json.dumps(descr[bad[0]], default=str)[:6000]}")
    ctx.notes.append(f"histories: {n_hist}, call-dialect-vs-flag-defaults reproduced {kf_hits}x")


# ---------------------------------------------------------------------------
# probes of the two known findings (fixed minimal inputs, run every time)
# ---------------------------------------------------------------------------

D14_SPEC = {"dialects": {"1": {"omit_none": True, "serialize_by_alias": True}},
            "classes": {"Inner": {"base": None, "fields": [["n", "opt"]], "config": {"flags": ["dialect", "omit_none", "by_alias"]}},
                        "P": {"base": None, "fields": [["a", "opt"], ["b", "alias"]],
                              "config": {"flags": ["dialect", "omit_none", "by_alias"]}}},
            "order": ["Inner", "P"], "flags": ["dialect", "omit_none", "by_alias"]}


def d14_probe(ctx: vlib.Ctx):
    ops = [["define", "Inner"], ["define", "P"], ["call", "P", "to", 1, {}]]
    hr = HistoryRun(D14_SPEC, ops)
    try:
        mm = hr.run()
        ctx.count(("d14",))
        if mm is not None:
            sig = classify_history_failure(hr, mm)
            ctx.fail("P().to_dict(dialect=D) with TO_DICT_ADD_OMIT_NONE_FLAG/BY_ALIAS_FLAG ignores D.omit_none / D.serialize_by_alias",
                     {"entry": "history", "spec": D14_SPEC, "source": F.family_source(D14_SPEC), "ops": ops,
                      "observed": mm["observed"], "expected": mm["expected"]}, sig)
        else:
            ctx.notes.append("model-stale: finding C13/call-dialect-vs-flag-defaults no longer reproduces")
    finally:
        hr.close()


def first_call_probes(ctx: vlib.Ctx):
    """Systematic: the FIRST call on a freshly created self-referencing class passes a dialect (every format mixin x
    every way of referring to oneself x both directions, eager/postponed and lazy); then a plain call, then another
    dialect.  Judged like any history (twin oracle + state machine correspondence)."""
    cases, descr = [], []
    for mixin in (None, "DataClassMessagePackMixin", "DataClassORJSONMixin", "DataClassTOMLMixin"):
        for kind, lazy in (("byname", False), ("byname", True), ("selfopt", True), ("selflist", True), ("selfopt", False)):
            for direction in (("to", "from") if mixin is None else ("mto", "mfrom")):
                cfg = {"flags": ["dialect"]}
                spec = {"dialects": {"1": {"omit_none": True, "serialize_by_alias": True, "int": "dict"},
                                     "2": {"omit_default": True, "namedtuple_as_dict": True}},
                        "classes": {"P": {"base": None, "mixin": mixin, "config": dict(cfg),
                                          "fields": [["x", "int"], ["o", "opt"], ["a", "alias"], ["nxt", kind]]}},
                        "order": ["P"], "flags": ["dialect"], "base_dialect": None, "mixin": mixin, "lazy": lazy, "cfg_int": False}
                leaf = {"x": 6, "o": None, "a": 8}
                nested = {"x": 5, "o": 3, "nxt": [leaf, leaf] if kind == "selflist" else leaf}
                ops = [["define", "P"], ["call", "P", direction, 1, dict(nested)], ["call", "P", direction, None, dict(nested)],
                       ["call", "P", direction, 2, dict(nested)], ["call", "P", direction, 1, dict(leaf)]]
                hr = HistoryRun(spec, ops)
                try:
                    mm = hr.run()
                    ctx.count(("first-call", mixin, kind, lazy, direction))
                    ctx.hist("first_call_probes", f"{mixin or 'DataClassDictMixin'}:{kind}:{'lazy' if lazy else 'eager'}")
                    if mm is not None:
                        sig = classify_history_failure(hr, mm)
                        ctx.fail(f"first call P.{direction}(dialect=D{mm['op'][2]}) on a fresh {mixin or 'DataClassDictMixin'} class with a "
                                 f"{kind} field ({'lazy' if lazy else 'eager/postponed'}): result differs from the twin class whose default dialect is that dialect",
                                 {"entry": "history", "spec": spec, "source": F.family_source(spec), "ops": ops[:mm["index"] + 1],
                                  "observed": mm["observed"], "expected": mm["expected"]}, sig)
                    else:
                        for d in hr.dirs:
                            cases.append(hr.cache_case(d))
                            descr.append({"direction": d, "spec": spec, "ops": ops})
                finally:
                    hr.close()
    bad, log = vlib.coq_bad_idx("c13_probe", "DialectCache DialectDeep", "", "Open Scope nat_scope.\n", cases,
                                "deep_case_ok", "deep_case", shard=250, needs=["theories/DialectDeep.vo"])
    name = "cache-state-machine-vs-first-call-probes"
    if bad is None:
        ctx.correspondence(name, len(cases), -1, log)
        ctx.not_shown("correspondence " + name, log)
    else:
        ctx.correspondence(name, len(cases), len(bad), "; ".join(cases[i][:300] for i in bad[:2]))
        if bad:
            ctx.not_shown("correspondence " + name, f"{len(bad)} probes: {cases[bad[0]][:1200]} || {json.dumps(descr[bad[0]], default=str)[:1500]}")


def layered_probes(ctx: vlib.Ctx):
    """Systematic: classes that have a default dialect of their own (Config.dialect = B) are called with dialects that set
    every option B sets, to other values: the call dialect must win over B exactly as the twin's default dialect does
    (option order call dialect > Config.dialect > Config > default_dialect, strategy sources likewise)."""
    cases, descr = [], []
    full = {"omit_none": False, "omit_default": False, "serialize_by_alias": True, "namedtuple_as_dict": True,
            "no_copy_collections": "list", "int": "dict", "bytes": None, "str": True}
    other = {"omit_none": True, "omit_default": True, "serialize_by_alias": False, "namedtuple_as_dict": False,
             "no_copy_collections": "empty", "int": "strat", "bytes": None, "str": False}
    base = {"omit_none": True, "omit_default": True, "serialize_by_alias": False, "namedtuple_as_dict": False,
            "no_copy_collections": None, "int": "dict", "bytes": None, "str": False}
    for mixin in (None, "DataClassMessagePackMixin"):
        for lazy in (False, True):
            cfg = {"flags": ["dialect"]}
            spec = {"dialects": {"1": dict(full), "2": dict(other), "3": dict(base)}, "base_dialect": 3,
                    "classes": {"Inner": {"base": None, "mixin": mixin, "fields": [["n", "opt"], ["w", "int"]], "config": dict(cfg)},
                                "P": {"base": None, "mixin": mixin, "config": dict(cfg),
                                      "fields": [["o", "opt"], ["i", "int"], ["a", "alias"], ["t", "nt"], ["l", "list"], ["s", "str"]]},
                                "C": {"base": "P", "fields": [["c", "optstr"], ["cin", "inner"]], "config": None}},
                    "order": ["Inner", "P", "C"], "flags": ["dialect"], "mixin": mixin, "lazy": lazy, "cfg_int": True}
            pv = {"o": None, "i": 5, "a": 8, "t": [3, 4], "l": [1, 2], "s": "abc"}
            cv = dict(pv, c=None, cin={"n": None, "w": 9})
            dirs = ("to", "from") if mixin is None else ("to", "from", "mto", "mfrom")
            ops = [["define", "Inner"], ["define", "P"], ["define", "C"]]
            for d in (1, 2, None, 1):
                for direction in dirs:
                    ops.append(["call", "P", direction, d, dict(pv)])
                    ops.append(["call", "C", direction, d, dict(cv)])
            hr = HistoryRun(spec, ops)
            try:
                mm = hr.run()
                ctx.count(("layered", mixin, lazy))
                ctx.hist("layered_probes", f"{mixin or 'DataClassDictMixin'}:{'lazy' if lazy else 'eager'}")
                if mm is not None:
                    sig = classify_history_failure(hr, mm)
                    ctx.fail(f"{mm['op'][0]}.{mm['op'][1]}(dialect=D{mm['op'][2]}) on classes whose own Config.dialect sets the same options "
                             f"to other values: result differs from the twin class whose default dialect is D{mm['op'][2]}",
                             {"entry": "history", "spec": spec, "source": F.family_source(spec), "ops": ops[:mm["index"] + 1],
                              "observed": mm["observed"], "expected": mm["expected"]}, sig)
                else:
                    for d in hr.dirs:
                        cases.append(hr.cache_case(d))
                        descr.append({"direction": d, "spec": spec, "ops": ops})
            finally:
                hr.close()
    bad, log = vlib.coq_bad_idx("c13_layered", "DialectCache DialectDeep", "", "Open Scope nat_scope.\n", cases,
                                "deep_case_ok", "deep_case", shard=250, needs=["theories/DialectDeep.vo"])
    name = "cache-state-machine-vs-layered-dialect-probes"
    if bad is None:
        ctx.correspondence(name, len(cases), -1, log)
        ctx.not_shown("correspondence " + name, log)
    else:
        ctx.correspondence(name, len(cases), len(bad), "; ".join(cases[i][:300] for i in bad[:2]))
        if bad:
            ctx.not_shown("correspondence " + name, f"{len(bad)} probes: {cases[bad[0]][:1200]}")


UNION_SRC = r'''
from dataclasses import dataclass, field
from typing import Optional, Union
from mashumaro import DataClassDictMixin
from mashumaro.config import BaseConfig, ADD_DIALECT_SUPPORT
from mashumaro.dialect import Dialect


class Tag:
    pass


TAG0 = {Tag: {"serialize": (lambda v: 0), "deserialize": (lambda v: Tag())}}


class D(Dialect):
    omit_none = True
    serialization_strategy = {Tag: {"serialize": (lambda v: 1), "deserialize": (lambda v: Tag())}}


def cfg(support):
    ns = {"serialization_strategy": dict(TAG0), "code_generation_options": [ADD_DIALECT_SUPPORT] if support else []}
    if TWIN and support:
        ns["dialect"] = D
    return type("Config", (BaseConfig,), ns)


MEMBERS = []
for _i, _s in enumerate(SUPPORT):
    _ns = {"__annotations__": {"t": Tag, f"m{_i}": Optional[int]}, "t": field(default_factory=Tag), f"m{_i}": None,
           "Config": cfg(_s), "__module__": __name__}
    MEMBERS.append(dataclass(type(f"M{_i}", (DataClassDictMixin,), _ns)))
for _m in MEMBERS:
    globals()[_m.__name__] = _m


@dataclass
class Outer(DataClassDictMixin):
    u: Union[tuple(MEMBERS)]
    Config = cfg(OWNER)
'''


def union_run(owner: bool, support: list, actual: int):
    """-> (forwarded?, twin-forwarded?, observed, expected): is the call dialect applied to the member instance."""
    res = []
    for twin in (False, True):
        mod = types.ModuleType(f"c13_union_{owner}_{twin}_{id(support)}")
        sys.modules[mod.__name__] = mod
        ns = mod.__dict__
        ns.update({"SUPPORT": support, "OWNER": owner, "TWIN": twin})
        try:
            exec(UNION_SRC, ns)
            inst = ns["Outer"](ns["MEMBERS"][actual]())
            try:
                if twin or not owner:
                    out = inst.to_dict()
                else:
                    out = inst.to_dict(dialect=ns["D"])
            except Exception as e:  # noqa: BLE001
                out = {"u": {"exc": type(e).__name__}}
            res.append(out)
        finally:
            sys.modules.pop(mod.__name__, None)
    return res[0], res[1]


def union_part(ctx: vlib.Ctx):
    """Union of dataclass members whose ADD_DIALECT_SUPPORT differs: model union_forward vs /repo,
    and the oracle (twin family: every class with dialect support has D as default)."""
    combos = []
    for n in (2, 3):
        for support in itertools.product([False, True], repeat=n):
            for owner in (True, False):
                for actual in range(n):
                    combos.append((owner, list(support), actual))
    if ctx.quick():
        combos = [c for c in combos if len(c[1]) == 2] + ctx.rng.sample([c for c in combos if len(c[1]) == 3], 12)
    cases, descr = [], []
    for owner, support, actual in combos:
        got, exp = union_run(owner, support, actual)
        ctx.count(("union", owner, tuple(support), actual))
        fwd = got["u"].get("t") == 1 if isinstance(got.get("u"), dict) else None
        cases.append(f"({str(owner).lower()}, [{'; '.join(str(s).lower() for s in support)}], {str(support[actual]).lower()}, "
                     f"{'Some true' if fwd else 'Some false' if fwd is False else 'None'})")
        descr.append((owner, support, actual))
        if owner and got != exp:      # without dialect support on the owner there is no call with a dialect
            # narrow signature of union-member-flags
            differ = len(set(support)) > 1
            first_ok = next((i for i, s in enumerate(support) if (not (owner and s)) or support[actual]), None)
            base = union_run(False, support, actual)[0]          # the instance packed without any dialect
            confined = got == base
            sig = {"kind": "union-member-flags"} if (differ and first_ok is not None and first_ok != actual
                                                      and support[first_ok] != support[actual] and confined) \
                else {"kind": "union-dialect-forwarding"}
            ctx.fail(f"Outer(u: Union[members with dialect support {support}]) holding member {actual}: "
                     f"to_dict(dialect=D) gives {got}, twin family gives {exp}",
                     {"entry": "union", "source": UNION_SRC, "owner": owner, "support": support, "actual": actual,
                      "observed": got, "expected": exp}, sig)
    bad, log = vlib.coq_bad_idx("c13_union", "DialectTwin", "", "", cases,
                                "fun c => match c with (o, ms, a, e) => match union_forward o ms a, e with "
                                "| Some x, Some y => Bool.eqb x y | None, None => true | _, _ => false end end",
                                "bool * list bool * bool * option bool", needs=["theories/DialectTwin.vo"])
    name = "union_forward-model-vs-pack_union"
    if bad is None:
        ctx.correspondence(name, len(cases), -1, log)
        ctx.not_shown("correspondence " + name, log)
    else:
        ctx.correspondence(name, len(cases), len(bad), str([descr[i] for i in bad[:4]]))
        if bad:
            ctx.not_shown("correspondence " + name, f"{[descr[i] for i in bad[:4]]}")


UNION4_SRC = r'''
from dataclasses import dataclass, field
from typing import Optional, Union
from mashumaro import DataClassDictMixin
from mashumaro.config import (BaseConfig, ADD_DIALECT_SUPPORT, TO_DICT_ADD_OMIT_NONE_FLAG, TO_DICT_ADD_BY_ALIAS_FLAG,
                              ADD_SERIALIZATION_CONTEXT)
from mashumaro.dialect import Dialect


class Tag:
    pass


TAG0 = {Tag: {"serialize": (lambda v: 0), "deserialize": (lambda v: Tag())}}
OPTS = {"on": TO_DICT_ADD_OMIT_NONE_FLAG, "ba": TO_DICT_ADD_BY_ALIAS_FLAG, "dl": ADD_DIALECT_SUPPORT, "cx": ADD_SERIALIZATION_CONTEXT}


class D(Dialect):
    serialization_strategy = {Tag: {"serialize": (lambda v: 1), "deserialize": (lambda v: Tag())}}


def cfg(flags):
    return type("Config", (BaseConfig,), {"serialization_strategy": dict(TAG0), "code_generation_options": [OPTS[f] for f in flags]})


def post_cx(self, d, context=None):
    d["ctx"] = context is not None
    return d


def post_plain(self, d):
    d["ctx"] = False
    return d


MEMBERS = []
for _i, _fl in enumerate(MEMBER_FLAGS):
    _ns = {"__annotations__": {"t": Tag, "n": Optional[int], "a": int, f"m{_i}": int}, "t": field(default_factory=Tag), "n": None,
           "a": field(default=1, metadata={"alias": "al"}), f"m{_i}": _i, "Config": cfg(_fl), "__module__": __name__,
           "__post_serialize__": post_cx if "cx" in _fl else post_plain}
    MEMBERS.append(dataclass(type(f"M{_i}", (DataClassDictMixin,), _ns)))
for _m in MEMBERS:
    globals()[_m.__name__] = _m


@dataclass
class Outer(DataClassDictMixin):
    u: Union[tuple(MEMBERS)]
    Config = cfg(OWNER_FLAGS)
'''

FLAG_NAMES = ("on", "ba", "dl", "cx")


def union4_run(owner: list, members: list, actual: int):
    """-> the keyword flags that reached the member instance: dict on/ba/dl/cx -> bool, or {'exc': name}"""
    mod = types.ModuleType(f"c13_union4_{id(members)}")
    sys.modules[mod.__name__] = mod
    ns = mod.__dict__
    ns.update({"MEMBER_FLAGS": members, "OWNER_FLAGS": owner})
    try:
        exec(UNION4_SRC, ns)
        inst = ns["Outer"](ns["MEMBERS"][actual]())
        kw = {}
        if "on" in owner:
            kw["omit_none"] = True
        if "ba" in owner:
            kw["by_alias"] = True
        if "dl" in owner:
            kw["dialect"] = ns["D"]
        if "cx" in owner:
            kw["context"] = object()
        try:
            u = inst.to_dict(**kw)["u"]
        except Exception as e:  # noqa: BLE001
            return {"exc": type(e).__name__}
        if f"m{actual}" not in u:
            return {"exc": "wrong-member-packer"}
        return {"on": "n" not in u, "ba": "al" in u, "dl": u.get("t") == 1, "cx": bool(u.get("ctx"))}
    finally:
        sys.modules.pop(mod.__name__, None)


def union4_part(ctx: vlib.Ctx):
    """Unions of 2-3 dataclass members with arbitrary keyword-flag sets: which of omit_none / by_alias / dialect / context
    reaches the instance.  Model DialectUnion.union_forward4 vs /repo, and the property's demand (flags of owner AND of the
    instance's own class) as the oracle (known finding union-member-flags)."""
    r = ctx.rng
    coq_fl = lambda fl: "(fl " + " ".join("true" if f in fl else "false" for f in FLAG_NAMES) + ")"  # noqa: E731
    cases, descr = [], []
    n = ctx.budget(40, 260)
    for i in range(n):
        k = r.choice([2, 3, 3])
        rnd = lambda: [f for f in FLAG_NAMES if r.random() < 0.5]  # noqa: E731
        owner = list(FLAG_NAMES) if r.random() < 0.5 else rnd()
        members = [rnd() for _ in range(k)]
        if i % 4 == 0:                          # all members alike: the partial theorem's domain
            members = [list(members[0]) for _ in range(k)]
        actual = r.randrange(k)
        got = union4_run(owner, members, actual)
        ctx.count(("union4", tuple(owner), tuple(map(tuple, members)), actual))
        ctx.hist("union4_members", str(k))
        exp = {f: (f in owner and f in members[actual]) for f in FLAG_NAMES}
        e = "None" if "exc" in got else "(Some " + coq_fl([f for f in FLAG_NAMES if got[f]]) + ")"
        cases.append(f"({coq_fl(owner)}, [" + "; ".join(coq_fl(m) for m in members) + f"], {coq_fl(members[actual])}, {e})")
        descr.append((owner, members, actual, got))
        if got != exp:
            first = next((j for j, m in enumerate(members) if set(owner) & set(m) <= set(members[actual])), None)
            narrow = ("exc" not in got and first is not None and first != actual
                      and set(members[first]) != set(members[actual]))
            ctx.fail(f"Outer(u: Union[members with flags {members}]) with flags {owner} holding member {actual}: the instance receives "
                     f"{got}, its own class and the owner enable {exp}",
                     {"entry": "union4", "source": UNION4_SRC, "owner": owner, "members": members, "actual": actual,
                      "observed": got, "expected": exp},
                     {"kind": "union-member-flags"} if narrow else {"kind": "union-flag-forwarding"})
    bad, log = vlib.coq_bad_idx("c13_union4", "OptProj DialectUnion", "", "", cases, "union4_case_ok", "union4_case",
                                needs=["theories/DialectUnion.vo"])
    name = "union_forward4-model-vs-pack_union"
    if bad is None:
        ctx.correspondence(name, len(cases), -1, log)
        ctx.not_shown("correspondence " + name, log)
    else:
        ctx.correspondence(name, len(cases), len(bad), str([descr[i] for i in bad[:3]]))
        if bad:
            ctx.not_shown("correspondence " + name, str([descr[i] for i in bad[:3]]))


# ---------------------------------------------------------------------------
# run / replay
# ---------------------------------------------------------------------------

def run(ctx: vlib.Ctx):
    ctx.coverage["rule"] = (
        "histories: random class families (P, C(P), G(C), S(P), nested mixin Inner, nested plain dataclass Plain; dict / MessagePack / "
        "ORJSON / TOML mixins; eager, lazy and postponed compilation; Self, by-name and list recursion; classes with and without "
        "ADD_DIALECT_SUPPORT; keyword-flag options; own Config.dialect; 2-4 dialects named alike with random options and one- or "
        "two-directional strategies) x random interleavings of class definitions and to_*/from_* calls with dialects from "
        "{None, D1..Dk}; distinct = (history, class, direction, dialect). documents: random dataclass shapes x Config options x "
        "dialects x user strategy maps x 6 formats against the Coq document model; codecs: 6 formats x all 2^6 option settings x "
        "shapes x values; distinct = (format, option vector, shape, value). merge: random option namespaces / strategy maps. "
        "decode side: deserializer choice on random (format, user map, type); named-tuple mode and no_copy_collections exhaustively "
        "over format x user dialect x Config.dialect x Config, resolution and end-to-end behaviour of the real Encoder and Decoder. "
        "unions: 2-3 members with random keyword-flag sets (omit_none, by_alias, dialect, context). layered dialects: families "
        "whose classes have a Config.dialect B of their own x call dialects that do not cover B (5 strategy shapes of B x 5 of D x "
        "Config-level strategy or none x random options), compared with the twins whose default dialect is the real B.merge(D) "
        "and D layered over B by hand; distinct = (family, class, direction, dialect).")
    # the whole cone once, with a generous limit: on a loaded machine / in a fresh copy the first target would otherwise
    # have to build every dependency within the per-target limit (a timeout there is a false alarm, not a broken proof)
    vlib.coq_make([t for t, _n, _k in PROPS] + ["theories/DialectLayer.vo", "theories/DialectDeep.vo"], timeout=2700)
    for target, names, kernels in PROPS:      # one file per theorem family: a broken proof marks only its own family
        ctx.theorems(target, names, kernels=kernels)
    ctx.trusted += [
        "DialectCache.step / DialectDeep.call_tree: model of the generated prologue/dispatch of add_(un)pack_method (attribute lookup "
        "through the MRO, own-namespace creation, dict item assignment, nested calls in field order, forwarding of the dialect keyword); "
        "compared with real class families on every run",
        "DialectMerge.merge_strategies: model of the two strategy loops of Dialect.merge, proved equal to the loops as translated on "
        "this run (kernel K113a, C13_merge_strategies_is_code) on the embedding DialectLayerK5.emb_map; model and translated kernel "
        "are both compared with Dialect.merge on every run",
        "DialectDoc: document model = OptProj.to_dict_model (C08) + codec_strategies/choice (hand model of the first-hit strategy lookup "
        "at the default-dialect level); compared with the mapping every real Encoder hands to its format library on every run",
        "DialectLayer.first_hit: proved equal to the translated consumer loops of get_overridden_(de)serialization_method (K5) on the "
        "embedding DialectLayerK5.emb of strategy values (object = namespace with serialize/deserialize and __use_annotations__ = False, "
        "dict = mapping from direction to callable, absent = None); the embedding and the hand model merge_strategies are compared "
        "with the callable real classes apply on every run",
        "DialectTwin.call_effective / union_forward, DialectUnion.union_forward4: hand models of keyword-default forwarding and of the "
        "union branch order (try members in order, a branch fails only on an unknown keyword); compared with real unions on every run",
        "DialectDecode: decode plan = key read (alias or name), deserializer in force (first-hit lookup over codec_strategies), "
        "named-tuple mode and no_copy_collections at the default-dialect level; compared with the real builder's resolution and with "
        "the behaviour of the real Encoders/Decoders on every run",
        "tools/kernels/k13*.py: AST extraction (class Dialect attributes, merge key tuple, option read sites, keyword defaults, "
        "unpack flags and flag call sites, codec plans, format dialect tables, cache name templates); K13C's tables are compared "
        "with the running classes on every run",
        "format libraries json, orjson, yaml, msgpack, tomli_w/tomllib as parsers of the encoder output",
    ]
    ctx.assumptions += [
        "twin class = same source with Config.dialect = D on every class that enables ADD_DIALECT_SUPPORT; where the classes have a "
        "Config.dialect B of their own that D does not cover, the twin's default dialect is B.merge(D) (a call dialect is layered "
        "over Config.dialect, not substituted: DialectTwin.layered_witness; Dialect.merge is that layering: C13_layered_twin_partial, "
        "C13_layered_strategy_partial) -- except where D holds a one-directional dict over a strategy OBJECT of B "
        "(C13_layered_strategy_full_refuted), there the twin's default dialect is D layered over B by hand",
        "TOML: a dialect that sets omit_none=False together with a None field value is outside the domain (TOML has no null; "
        "the encoder raises TypeError loudly)",
        "C13_same_document_partial: documents are equal as Python mappings when no field is left to a format-native entry "
        "(native_free); at format-native types the formats differ by construction (C13_same_document_full_refuted) and meet only "
        "after the format library renders the value -- that part is decided by the codec sweep (oracle), not by proof",
        "C13_same_decode_plan_partial: likewise for decoding (native_free_de); at format-native types the decoders differ by "
        "construction (C13_same_decode_plan_full_refuted: MessagePack takes bytes as they come)",
    ]
    k2_validation(ctx)
    strategy_corr(ctx)
    history_part(ctx)
    d14_probe(ctx)
    first_call_probes(ctx)
    layered_probes(ctx)
    LAYER.layer_part(ctx, sys.modules[__name__])
    union_part(ctx)
    union4_part(ctx)
    release_builders()
    DOC.run_all(ctx)
    release_builders()
    CD.codec_part(ctx)
    release_builders()
    if ctx.tier == "thorough":
        coqchk(ctx)
    if ctx.unshown and not any(vlib.match_known(ctx.pid, f, vlib.load_known_findings()) is None for f in ctx.failures):
        # a proof obligation or a correspondence broke and the normal budget found no unlisted failing input:
        # search harder before reporting no-failing-input-found
        ctx.notes.append("extended search after a broken obligation/correspondence")
        history_part(ctx, n_hist=ctx.budget(90, 400), tag="_ext")
        CD.codec_part(ctx, extra=ctx.budget(40, 200))


def coqchk(ctx: vlib.Ctx):
    """Second opinion of the independent checker on the compiled property files (thorough tier), run side by side."""
    import subprocess
    procs = []
    for target, _names, _k in PROPS:
        lib = "VerifProps." + os.path.basename(target)[:-3]
        p = subprocess.Popen(["timeout", "900", "coqchk", "-silent", "-o", "-Q", "theories", "Verif", "-Q", "gen", "VerifGen",
                              "-Q", "props", "VerifProps", lib], cwd=vlib.COQ, stdout=subprocess.PIPE, stderr=subprocess.STDOUT, text=True)
        procs.append((lib, p))
    for lib, p in procs:
        log = p.communicate()[0]
        ok = p.returncode == 0 and "Axioms: <none>" in log and "type-in-type: <none>" in log
        ctx.obligation(f"coqchk {lib} (no axioms, no type-in-type, no unsafe fixpoints)", ok, log[-600:])
        if ok:
            ctx.trusted.append(f"coqchk -o {lib}: Axioms: <none>")
        else:
            ctx.not_shown(f"coqchk {lib}", log[-1500:])


def replay(rep: dict) -> int:
    entry = rep.get("entry")
    if entry == "history":
        spec, ops = rep["spec"], rep["ops"]
        ops = [list(o) for o in ops]
        hr = HistoryRun(spec, ops, also_layer=bool(rep.get("also_layer")))
        try:
            mm = hr.run()
        finally:
            hr.close()
        if mm is not None:
            print("operation", mm["op"], "\n observed", mm["observed"], "\n expected", mm["expected"])
            print("REPRODUCED")
            return 1
        print("not reproduced")
        return 0
    if entry == "source":
        ns: dict = {"__name__": "c13_replay_src"}
        mod = types.ModuleType("c13_replay_src")
        sys.modules["c13_replay_src"] = mod
        try:
            exec(rep["source"], mod.__dict__)
            try:
                got = repr(eval(rep["call"], mod.__dict__))
            except Exception as e:  # noqa: BLE001
                got = f"{type(e).__name__}: {e}"
        finally:
            sys.modules.pop("c13_replay_src", None)
        print("observed", got, "expected", rep["expected"])
        if got != rep["expected"]:
            print("REPRODUCED")
            return 1
        print("not reproduced")
        return 0
    if entry == "union":
        got, exp = union_run(rep["owner"], rep["support"], rep["actual"])
        print("observed", got, "expected", exp)
        if got != exp:
            print("REPRODUCED")
            return 1
        print("not reproduced")
        return 0
    if entry == "union4":
        got = union4_run(rep["owner"], rep["members"], rep["actual"])
        print("observed", got, "expected", rep["expected"])
        if got != rep["expected"]:
            print("REPRODUCED")
            return 1
        print("not reproduced")
        return 0
    if entry == "codec":
        return CD.replay(rep)
    if entry == "ntmode":
        return DOC.ntmode_replay(rep)
    if entry == "merge-mutation":
        print("see correspondence log; not replayable stand-alone")
        return 2
    print("unknown replay kind")
    return 2
