"""C13: a call dialect is layered over the classes' own default dialect -- systematic probes.

Families whose classes have Config.dialect = B are called with dialects D1..D5 that do NOT cover B (other options,
other strategy directions).  Every call is compared with
  * the twin family whose default dialect is the REAL B.merge(D) (theorems C13_layered_twin_partial /
    C13_layered_strategy_partial: Dialect.merge is the layering) wherever DialectLayer.layer_ok holds, and
  * the twin whose default dialect is D layered over B by hand (c13_fam.layer_dialects), always;
and the callable that was really applied to an int field (its effect identifies the source: dialect index, dict or
strategy object, Config, none) is compared with DialectLayer.first_hit over the source order proved for the
translated generator (C13_layered_sources_are_code) -- correspondence `layered-strategy-lookup-vs-real-classes`."""
from __future__ import annotations

import json

from harness import vlib
from harness.props import c13_fam as F

INT_KINDS = [None, "dict", "ser", "de", "strat"]
BOOL_OPTS = ("omit_none", "omit_default", "serialize_by_alias", "namedtuple_as_dict")
BASE = 6


def sval_raw(i: int, kind) -> str:
    if kind == "strat":
        return f"SStrat {i}"
    ent = []
    if kind in ("dict", "ser"):
        ent.append(f'("serialize", {10 * i + 1})')
    if kind in ("dict", "de"):
        ent.append(f'("deserialize", {10 * i + 2})')
    return "SDict [" + "; ".join(ent) + "]"


def smap(i: int, d: dict) -> str:
    """The strategy map of make_dialect(i, d) in insertion order; type ids: int 0, Tag 1, str 2, bytes 3."""
    ent = [f'(1, SDict [("serialize", {10 * i + 3}); ("deserialize", {10 * i + 4})])']
    if d.get("int") is not None:
        ent.append(f"(0, {sval_raw(i, d['int'])})")
    if d.get("bytes") == "de":
        ent.append(f'(3, SDict [("deserialize", {10 * i + 5})])')
    if d.get("str"):
        ent.append(f'(2, SDict [("serialize", {10 * i + 6}); ("deserialize", {10 * i + 7})])')
    return "[" + "; ".join(ent) + "]"


def observed_eff(delta: int, direction: str) -> str | None:
    """Which source produced an int that differs from its input by `delta` (make_dialect: +-100*i for a dict entry of
    dialect i, +-1000*i for its strategy object, +-7 for the class-level Config entry)."""
    if delta == 0:
        return "ENone"
    if delta == 7:
        return "(EFun 91)" if direction == "serialize" else "(EFun 92)"
    if delta % 1000 == 0 and 1 <= delta // 1000 <= BASE:
        return f"(EStrat {delta // 1000})"
    if delta % 100 == 0 and 1 <= delta // 100 <= BASE:
        i = delta // 100
        return f"(EFun {10 * i + 1})" if direction == "serialize" else f"(EFun {10 * i + 2})"
    return None


def layer_spec(r, mixin, lazy: bool, bkind, cfg_int: bool) -> dict:
    def opts():
        o = {k: r.choice([None, None, True, False]) for k in BOOL_OPTS}
        o["no_copy_collections"] = r.choice([None, None, "empty", "list"])
        o["bytes"] = r.choice([None, "de"])
        o["str"] = r.random() < 0.4
        return o

    def cfg():
        c = {"flags": ["dialect"]}
        for o in BOOL_OPTS:
            if r.random() < 0.25:
                c[o] = r.choice([True, False])
        return c

    dialects = {str(j): dict(opts(), int=INT_KINDS[j - 1]) for j in range(1, 6)}
    dialects[str(BASE)] = dict(opts(), int=bkind)
    classes = {"Inner": {"base": None, "mixin": mixin, "fields": [["n", "opt"], ["w", "int"]], "config": cfg()},
               "P": {"base": None, "mixin": mixin, "config": cfg(),
                     "fields": [["o", "opt"], ["i", "int"], ["a", "alias"], ["t", "nt"], ["l", "list"], ["s", "str"], ["b", "bytes"]]},
               "C": {"base": "P", "fields": [["c", "optstr"], ["cin", "inner"]], "config": None}}
    return {"dialects": dialects, "base_dialect": BASE, "classes": classes, "order": ["Inner", "P", "C"], "flags": ["dialect"],
            "mixin": mixin, "lazy": lazy, "cfg_int": cfg_int}


def int_cases(spec: dict, trace) -> tuple[list[str], list[dict]]:
    """One Coq case per (call, int field reached): (B's map, D's map, type int, lower sources, direction, observed)."""
    cases, descr = [], []
    bmap = smap(BASE, spec["dialects"][str(BASE)])
    rest = "[" + ('Some (SDict [("serialize", 91); ("deserialize", 92)])' if spec.get("cfg_int") else "None") + "; None]"
    for c, direction, di, arg, result in trace:
        if di is None or result is None:
            continue
        dmap = smap(di, spec["dialects"][str(di)])
        pairs = []
        if direction in ("to", "mto"):
            dname = "serialize"
            if isinstance(result, dict) and isinstance(result.get("i"), int) and "i" in arg:
                pairs.append(result["i"] - arg["i"])
            cin = result.get("cin") if isinstance(result, dict) else None
            if isinstance(cin, dict) and isinstance(cin.get("w"), int) and isinstance(arg.get("cin"), dict) and "w" in arg["cin"]:
                pairs.append(cin["w"] - arg["cin"]["w"])
        else:
            dname = "deserialize"
            if isinstance(arg, dict) and isinstance(arg.get("i"), int):
                pairs.append(arg["i"] - result.i)
            if isinstance(arg, dict) and isinstance(arg.get("cin"), dict) and isinstance(arg["cin"].get("w"), int) and hasattr(result, "cin"):
                pairs.append(arg["cin"]["w"] - result.cin.w)
        for delta in pairs:
            obs = observed_eff(delta, dname)
            if obs is None:
                obs = "(EFun 0)"            # no source explains it: the case fails in Coq and is reported
            cases.append(f'({bmap}, {dmap}, 0, {rest}, "{dname}", {obs})')
            descr.append({"class": c, "direction": direction, "dialect": di, "delta": delta, "spec": spec})
    return cases, descr


def layer_part(ctx: vlib.Ctx, M):
    """M = harness.props.c13 (HistoryRun, classify_history_failure)."""
    r = ctx.rng
    cases, descr, cache_cases = [], [], []
    combos = [(bkind, cfg_int) for bkind in INT_KINDS for cfg_int in (False, True)]
    for n, (bkind, cfg_int) in enumerate(combos):
        mixins = [None, "DataClassMessagePackMixin"] if ctx.tier == "thorough" else [(None, "DataClassMessagePackMixin")[(n + ctx.seed) % 2]]
        for mixin in mixins:
            lazy = r.random() < 0.3
            spec = layer_spec(r, mixin, lazy, bkind, cfg_int)
            pv = {"o": None, "i": 6, "a": 8, "t": [3, 4], "l": [1, 2], "s": "abc", "b": "6162"}
            cv = dict(pv, c=None, cin={"n": None, "w": 9})
            dirs = ("to", "from") if mixin is None else ("to", "from", "mto", "mfrom")
            ops = [["define", "Inner"], ["define", "P"], ["define", "C"]]
            order = [1, 2, 3, 4, 5, None]
            r.shuffle(order)
            for d in order:
                for direction in dirs:
                    ops.append(["call", "P", direction, d, dict(pv)])
                    ops.append(["call", "C", direction, d, dict(cv)])
            hr = M.HistoryRun(spec, ops, also_layer=True, keep_trace=True)
            try:
                mm = hr.run()
                ctx.count(("layer", n, mixin))
                ctx.hist("layer_probes", f"{mixin or 'DataClassDictMixin'}:B.int={bkind}:cfg_int={cfg_int}")
                for (c, direction, di) in hr.stats:
                    if di is not None:
                        k = M.twin_key(spec, di)
                        ctx.hist("layer_twin", k[0] if isinstance(k, tuple) else "covers")
                        ctx.count(("layer", n, mixin, c, direction, di))
                if mm is not None:
                    sig = M.classify_history_failure(hr, mm)
                    sig["kind"] = "layered-" + sig["kind"] if not sig["kind"].startswith("call-dialect-vs") else sig["kind"]
                    k = M.twin_key(spec, mm["op"][2])
                    what = {"merge": "Config.dialect.merge(D)", "layer": "D layered over Config.dialect"}.get(k[0] if isinstance(k, tuple) else "", "D")
                    ctx.fail(f"{mm['op'][0]}.{mm['op'][1]}(dialect=D{mm['op'][2]}) on classes whose own Config.dialect is D{BASE} "
                             f"(not covered by the call dialect): result differs from the twin class whose default dialect is {what}",
                             {"entry": "history", "also_layer": True, "spec": spec, "source": F.family_source(spec),
                              "ops": ops[:mm["index"] + 1], "observed": mm["observed"], "expected": mm["expected"]}, sig)
                else:
                    cs, ds = int_cases(spec, hr.trace)
                    cases += cs
                    descr += ds
                    for d in hr.dirs:
                        cache_cases.append(hr.cache_case(d))
            finally:
                hr.close()
    bad, log = vlib.coq_bad_idx("c13_layer", "DialectMerge DialectLayer", "", "Open Scope nat_scope.\nOpen Scope string_scope.\n", cases,
                                "layer_case_ok", "layer_case", shard=400, needs=["theories/DialectLayer.vo"])
    name = "layered-strategy-lookup-vs-real-classes"
    if bad is None:
        ctx.correspondence(name, len(cases), -1, log)
        ctx.not_shown("correspondence " + name, log)
    else:
        ctx.correspondence(name, len(cases), len(bad), "; ".join(cases[i][:300] for i in bad[:2]))
        if bad:
            ctx.not_shown("correspondence " + name, f"{len(bad)} int fields: the callable applied by the real class is not the first hit over "
                          f"(D, Config.dialect, Config, default_dialect), or the class whose default dialect is Config.dialect.merge(D) "
                          f"applies another one: {cases[bad[0]][:800]} || {json.dumps(descr[bad[0]], default=str)[:2500]}")
    bad, log = vlib.coq_bad_idx("c13_layer_cache", "DialectCache DialectDeep", "", "Open Scope nat_scope.\n", cache_cases,
                                "deep_case_ok", "deep_case", shard=250, needs=["theories/DialectDeep.vo"])
    name = "cache-state-machine-vs-uncovered-layered-probes"
    if bad is None:
        ctx.correspondence(name, len(cache_cases), -1, log)
        ctx.not_shown("correspondence " + name, log)
    else:
        ctx.correspondence(name, len(cache_cases), len(bad), "; ".join(cache_cases[i][:300] for i in bad[:2]))
        if bad:
            ctx.not_shown("correspondence " + name, f"{len(bad)} probes: {cache_cases[bad[0]][:1200]}")
