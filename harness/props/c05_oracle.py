"""C05 direct oracle: the property text evaluated on the real implementation, with the expected
outcome computed independently (first bad field in declaration order via per-type reference
acceptance), exception whitelist, attribute checks and input immutability."""
from __future__ import annotations

import collections.abc
import copy
import dataclasses
import typing

from harness.props import c05_gen as G

NoneType = type(None)
DOCUMENTED = ("ValueError", "MissingField", "InvalidFieldValue", "ExtraKeysError",
              "MissingDiscriminatorError", "SuitableVariantNotFoundError")


class Ref:
    """Per-module cache of reference decoders BasicDecoder(T) for the field types."""

    def __init__(self, mod):
        self.mod = mod
        self.dec = {}
        self.types = {}

    def typ(self, expr: str):
        if expr not in self.types:
            self.types[expr] = NoneType if expr == "None" else eval(expr, self.mod.__dict__)
        return self.types[expr]

    def decoder(self, t):
        key = repr(t)
        if key not in self.dec:
            self.dec[key] = self.mod.BasicDecoder(t)
        return self.dec[key]

    def decode(self, t, v):
        """('ok', result) | ('exn', exception) of the reference decoder on a private copy of v."""
        try:
            return "ok", self.decoder(t).decode(copy.deepcopy(v))
        except BaseException as e:  # noqa: BLE001
            if isinstance(e, (KeyboardInterrupt, SystemExit, MemoryError)):
                raise
            return "exn", e

    def accepts(self, t, v) -> bool:
        """Reference acceptance: like the decoder, except that a `None` member / position stands
        for null only (property text: invalid data is never replaced by None)."""
        if t is NoneType or t is None:
            return v is None
        origin = typing.get_origin(t)
        args = typing.get_args(t)
        if origin is typing.Union:
            return any(self.accepts(a, v) for a in args)
        if origin is list and isinstance(v, list) and args:
            return self.decode(t, v)[0] == "ok" and all(self.accepts(args[0], x) for x in v)
        if origin is dict and isinstance(v, dict) and len(args) == 2:
            return self.decode(t, v)[0] == "ok" and all(self.accepts(args[1], x) for x in v.values())
        return self.decode(t, v)[0] == "ok"


def none_union_position(t, v, observed) -> bool:
    """Signature predicate of known finding union-none-fallback (DESIGN 3.1): some position of type
    Union with >= 3 members, one of them None, holds a non-None input and the observed value there is None."""
    origin = typing.get_origin(t)
    args = typing.get_args(t)
    if origin is typing.Union:
        if len(args) >= 3 and NoneType in args and v is not None and observed is None:
            return True
        return False
    if origin is list and isinstance(v, list) and isinstance(observed, list) and len(v) == len(observed) and args:
        return any(none_union_position(args[0], a, b) for a, b in zip(v, observed))
    return False


def is_mapping(d) -> bool:
    return isinstance(d, collections.abc.Mapping)


def same_value(a, b) -> bool:
    return G.enc(a) == G.enc(b)


def deep_same(a, b) -> bool:
    """Deep equality including exact types and key order."""
    if type(a) is not type(b):
        return False
    if isinstance(a, collections.abc.Mapping):
        ka, kb = list(a.keys()), list(b.keys())
        if len(ka) != len(kb):
            return False
        return all(type(x) is type(y) and (x == y or (x != x and y != y)) for x, y in zip(ka, kb)) and \
            all(deep_same(a[k], b[k]) for k in ka)
    if isinstance(a, (list, tuple)):
        return len(a) == len(b) and all(deep_same(x, y) for x, y in zip(a, b))
    if isinstance(a, float):
        return a == b or (a != a and b != b)
    return a == b


def field_meta(schema: dict, mod):
    """Independent description of the init fields: (name, type, key, key2, has_default, default, nullable, ident)."""
    cls = getattr(mod, schema["cls"])
    dfs = {f.name: f for f in dataclasses.fields(cls)}
    out = []
    for f in schema["fields"]:
        ti = G.POOL_BY_EXPR[f["type"]]
        df = dfs[f["name"]]
        if df.default is not dataclasses.MISSING:
            has_default, default = True, df.default
        elif df.default_factory is not dataclasses.MISSING:
            has_default, default = True, df.default_factory()
        else:
            has_default, default = False, None
        nullable = ti.nullable or (df.default is None)
        # a union with a None member of any width is nullable (is_field_nullable since fix 906a805)
        try:
            tp = eval(f["type"], dict(mod.__dict__))
            if typing.get_origin(tp) is typing.Union and type(None) in typing.get_args(tp):
                nullable = True
        except Exception:  # noqa: BLE001 - the pool flag stands
            pass
        key = f["alias"] or f["name"]
        key2 = f["name"] if (schema["allow_nba"] and f["alias"]) else None
        out.append({"name": f["name"], "type": f["type"], "key": key, "key2": key2, "has_default": has_default,
                    "default": default, "nullable": nullable, "ident": ti.ident})
    return out


def allowed_keys(schema, metas) -> set:
    s = set()
    for m in metas:
        s.add(m["key"])
        if m["key2"]:
            s.add(m["key2"])
    s.update(schema.get("discr_keys", []))
    return s


MISSING = object()


def lookup(d, m):
    v = d.get(m["key"], MISSING) if m["key"] in d else MISSING
    if v is MISSING and m["key2"] is not None and m["key2"] in d:
        v = d[m["key2"]]
    return v


def expected(schema, mod, ref: Ref, metas, d, lenient=False, kf=None):
    """lenient=True: positions matching the signature of the known findings union-none-fallback /
    none-typed-field-accepts-anything are taken as the decoder takes them (recorded in kf).
    Expected outcome by the property text: ('ValueError',) | ('ExtraKeysError', set) |
    ('MissingField', name) | ('InvalidFieldValue', name, value) | ('ok', {name: ('value', x) | ('default', x)})"""
    if not is_mapping(d):
        return ("ValueError",)
    if schema["forbid"]:
        extra = [k for k in d.keys() if not (isinstance(k, str) and k in allowed_keys(schema, metas))]
        if extra:
            return ("ExtraKeysError", extra)
    want = {}
    for m in metas:
        v = lookup(d, m)
        if v is MISSING:
            if not m["has_default"]:
                return ("MissingField", m["name"])
            want[m["name"]] = ("default", m["default"])
            continue
        if m["ident"]:
            want[m["name"]] = ("value", v)
            continue
        if v is None and m["nullable"]:
            want[m["name"]] = ("value", None)
            continue
        t = ref.typ(m["type"])
        if not ref.accepts(t, v):
            if lenient:
                st, r = ref.decode(t, v)
                if st == "ok" and (t is NoneType) and r is None:
                    kf.append(("none-typed-field-accepts-anything", m))
                    want[m["name"]] = ("value", r)
                    continue
                if st == "ok" and none_union_position(t, v, r):
                    kf.append(("union-none-fallback", m))
                    want[m["name"]] = ("value", r)
                    continue
            return ("InvalidFieldValue", m["name"], v)
        st, r = ref.decode(t, v)
        want[m["name"]] = ("value", r)
    return ("ok", want)


def check_case(schema, mod, ref: Ref, metas, entry: str, fn, d_desc):
    """Run one entry point on one input; returns a list of (what, signature, observed, expected)."""
    cls = getattr(mod, schema["cls"])
    d = G.realise(mod, d_desc)
    before = copy.deepcopy(d) if not type(d).__name__ == "mappingproxy" else dict(copy.deepcopy(dict(d)))
    exp = expected(schema, mod, ref, metas, d) if schema["discr"] is None else None
    try:
        r = fn(d)
        exc = None
    except BaseException as e:  # noqa: BLE001
        if isinstance(e, (KeyboardInterrupt, SystemExit, MemoryError)):
            raise
        r, exc = None, e
    fails = []
    obs = f"{type(exc).__name__}({_attrs(exc)})" if exc is not None else f"returned {r!r}"[:300]
    base_sig = {"entry": entry}

    def fail(what, kind="other", **sig):
        fails.append((what, {"kind": kind, **base_sig, **sig}, obs, repr(exp)[:300]))

    # input not modified
    after = dict(d) if type(d).__name__ == "mappingproxy" else d
    if not deep_same(before, after):
        fail(f"input object was modified: before {before!r} after {after!r}"[:300], "input-modified")

    # exception whitelist (exact classes)
    if exc is not None:
        n = type(exc).__name__
        documented = n in DOCUMENTED and (type(exc).__module__ in ("builtins", "mashumaro.exceptions"))
        if not documented:
            kind = "undocumented-exception"
            if schema["discr"] is not None and schema["discr"] != "" and n == "TypeError":
                if not is_mapping(d):
                    kind = "discriminator-nonmapping"
                else:
                    tag = d.get(schema["discr"], MISSING)
                    if tag is not MISSING and not _hashable(tag):
                        kind = "discriminator-unhashable-tag"
            fail(f"{schema['cls']}.{entry}({G.pyexpr(d_desc)[:120]}) raised undocumented {n}: {str_safe(exc)[:120]}",
                 kind, exception=n)
            return fails
        if n == "ValueError" and is_mapping(d):
            fail(f"plain ValueError for a mapping argument: {str_safe(exc)[:100]}", "valueerror-for-mapping")
            return fails

    if schema["discr"] is not None:
        return fails + check_discr(schema, mod, d, r, exc, fail_list=[], base_sig=base_sig, obs=obs)

    def compare(exp):
        out = []

        def fail(what, kind="other", **sig):
            out.append((what, {"kind": kind, **base_sig, **sig}, obs, repr(exp)[:300]))
        # expected outcome
        kind = exp[0]
        if kind == "ok":
            if exc is not None:
                k = "valid-rejected"
                if type(exc).__name__ == "InvalidFieldValue" and isinstance(exc.__context__, NameError) and \
                        schema.get("own_module") and any(
                            x["name"] == exc.field_name and x["type"].startswith("Annotated[") and "Discriminator(" in x["type"]
                            for x in metas):
                    k = "annotated-discriminator-unbound-holder-module"
                fail(f"valid input rejected with {type(exc).__name__}: {str_safe(exc)[:120]} (context: {exc.__context__!r})"[:300], k)
            else:
                if type(r) is not cls:
                    fail(f"result is not an instance of {schema['cls']}: {r!r}"[:200], "wrong-result-class")
                else:
                    for m in metas:
                        how, want = exp[1][m["name"]]
                        got = getattr(r, m["name"], MISSING)
                        if not same_value(got, want):
                            fail(f"field {m['name']}: instance holds {got!r}, expected {how} {want!r}"[:300],
                                 "wrong-field-value", field_type=m["type"])
        elif exc is None:
            # returned although the input is bad
            sig_kind = "bad-input-accepted"
            extra = {}
            if not metas and kind == "ValueError":
                sig_kind = "fieldless-accepts-nonmapping"
            elif not metas and kind == "ExtraKeysError":
                sig_kind = "fieldless-ignores-extra-keys"
            elif kind == "InvalidFieldValue":
                m = next(x for x in metas if x["name"] == exp[1])
                t = ref.typ(m["type"])
                got = getattr(r, m["name"], MISSING)
                if none_union_position(t, exp[2], got):
                    sig_kind = "union-none-fallback"
                elif (t is NoneType or t is None) and got is None:
                    sig_kind = "none-typed-field-accepts-anything"
                elif m["has_default"] and same_value(got, m["default"]):
                    sig_kind = "invalid-replaced-by-default"
                extra = {"field_type": m["type"]}
            fail(f"{schema['cls']}.{entry}({G.pyexpr(d_desc)[:150]}) returned {r!r} but the property demands {exp[0]}"
                 f"{exp[1:2]!r}"[:400], sig_kind, **extra)
        else:
            n = type(exc).__name__
            if n != kind:
                fail(f"raised {n} but the first bad item demands {kind}{exp[1:2]!r}: {str_safe(exc)[:100]}", "wrong-exception",
                     exception=n, wanted=kind)
            elif kind == "ExtraKeysError":
                try:
                    got = set(exc.extra_keys)
                    ok = got == set(exp[1]) and len(got) == len(exp[1]) and exc.target_type is cls
                except Exception:  # unhashable etc.
                    ok = False
                if not ok:
                    fail(f"ExtraKeysError.extra_keys {exc.extra_keys!r} target {exc.target_type!r}, expected exactly {exp[1]!r}",
                         "wrong-extra-keys")
            elif kind == "MissingField":
                if exc.field_name != exp[1] or exc.holder_class is not cls:
                    fail(f"MissingField names {exc.field_name!r}/{exc.holder_class!r}, first bad field is {exp[1]!r}",
                         "wrong-culprit")
            elif kind == "InvalidFieldValue":
                if exc.field_name != exp[1] or exc.holder_class is not cls:
                    fail(f"InvalidFieldValue names {exc.field_name!r}/{exc.holder_class!r}, first bad field is {exp[1]!r}",
                         "wrong-culprit")
                elif exc.field_value is not lookup(d, next(x for x in metas if x["name"] == exp[1])):
                    fail(f"InvalidFieldValue.field_value is {exc.field_value!r}, not the offending input object {exp[2]!r}",
                         "wrong-field-value-reported")
        return out

    strict = compare(exp)
    if strict:
        kf = []
        exp2 = expected(schema, mod, ref, metas, d, lenient=True, kf=kf)
        if kf:
            if not compare(exp2):
                k, m = kf[0]
                v = lookup(d, m)
                fail(f"{schema['cls']}.{entry}({G.pyexpr(d_desc)[:150]}): field {m['name']}: {m['type']} <- {v!r} is taken as None "
                     f"instead of raising InvalidFieldValue (observed: {obs[:120]})"[:500], k, field_type=m["type"])
                return fails
        fails.extend(strict)
    return fails


def check_discr(schema, mod, d, r, exc, fail_list, base_sig, obs):
    """Discriminated root: MissingDiscriminatorError / SuitableVariantNotFoundError / the variant's outcome."""
    fails = fail_list

    def fail(what, kind="other", **sig):
        fails.append((what, {"kind": kind, **base_sig, **sig}, obs, "discriminator dispatch"))

    field = schema["discr"]
    variants = schema["variants"]
    if field == "":
        # no tag: every variant is tried; an instance must come from a variant that accepts d
        accepts = []
        for _, vn in variants:
            try:
                accepts.append(mod.BasicDecoder(getattr(mod, vn)).decode(copy.deepcopy(d)))
            except Exception:
                pass
        if exc is None:
            if not any(type(a) is type(r) and a == r for a in accepts):
                fail(f"returned {r!r} which no variant produces", "discr-wrong-variant")
        elif accepts:
            fail(f"raised {type(exc).__name__} although a variant accepts the input", "discr-valid-rejected")
        elif type(exc).__name__ != "SuitableVariantNotFoundError":
            fail(f"raised {type(exc).__name__}, expected SuitableVariantNotFoundError", "wrong-exception")
        return fails
    if not is_mapping(d):
        if exc is None or type(exc).__name__ != "ValueError":
            fail(f"non-mapping argument: expected ValueError, observed {obs}", "discriminator-nonmapping-other")
        return fails
    if field not in d:
        if exc is None or type(exc).__name__ != "MissingDiscriminatorError" or exc.field_name != field:
            fail(f"tag missing: expected MissingDiscriminatorError({field!r}), observed {obs}", "wrong-exception")
        return fails
    tag = d[field]
    vn = next((v for t, v in variants if _hashable(tag) and type(tag) is str and t == tag), None)
    if vn is None:
        if exc is None or type(exc).__name__ != "SuitableVariantNotFoundError":
            fail(f"unknown tag {tag!r}: expected SuitableVariantNotFoundError, observed {obs}", "wrong-exception")
        return fails
    vcls = getattr(mod, vn)
    try:
        want = mod.BasicDecoder(vcls).decode(copy.deepcopy(d))
        wexc = None
    except Exception as e:
        want, wexc = None, e
    if wexc is None:
        if exc is not None or type(r) is not vcls or r != want:
            fail(f"tag {tag!r}: expected {want!r}, observed {obs}", "discr-wrong-variant")
    else:
        if exc is None or type(exc) is not type(wexc) or _attrs(exc) != _attrs(wexc):
            fail(f"tag {tag!r}: variant raises {type(wexc).__name__}({_attrs(wexc)}), observed {obs}", "wrong-exception")
    return fails


def _hashable(x) -> bool:
    try:
        hash(x)
        return True
    except TypeError:
        return False


def str_safe(e) -> str:
    try:
        return str(e)
    except BaseException as x:  # noqa: BLE001
        return f"<str() failed: {type(x).__name__}>"


def _attrs(e) -> str:
    if e is None:
        return ""
    parts = []
    for k in ("field_name", "field_value", "holder_class", "extra_keys", "target_type", "discriminator_value"):
        if hasattr(e, k):
            v = getattr(e, k)
            if k == "extra_keys":
                try:
                    v = sorted(v, key=repr)
                except Exception:
                    pass
            parts.append(f"{k}={getattr(v, '__name__', None) or repr(v)}")
    return ", ".join(parts)[:300]
