"""C10, positions below a field (model: coq/theories/Positions.v, kernel assembly: K5PKernel.compile).

A path case = a chain of dataclasses (nested dataclass fields and Self-typed children, each class with or without
ADD_DIALECT_SUPPORT, intermediate classes with decoy Config tables) ending in one observed field whose declared
type is a small type term (Annotated / NewType / Optional / List / Dict value / leaf).  Slots can be registered for
every type object of the term at every level, plus the two field options.  The real classes are run through mixin,
format mixin and codec; the observation (which tag was applied at which value position / untouched / built-in) is
compared inside Coq with `compile` (assembled from the translated functions) and `ref_compile`, and in Python with an
independent reading of the property text.
"""
from __future__ import annotations

from harness import vlib

LEVELS = ["call", "cfgd", "cfg", "dflt"]
ENTRY_LEVELS = {"mixin": ["call", "cfgd", "cfg"], "mixin_fmt": ["call", "cfgd", "cfg", "dflt"], "codec_dc": ["cfgd", "cfg", "dflt"]}
WHICH = ["ann", "ex", "or"]
VARIANTS = ["both", "ser", "de", "pt", "ptser", "ptde", "strat"]
LEAVES = {"date": ("datetime.date", "datetime.date(2020, 1, 2)", '"2020-01-02"'),
          "dec": ("decimal.Decimal", 'decimal.Decimal("1.5")', '"1.5"')}


# ---------------------------------------------------------------------------------------
# type terms
# ---------------------------------------------------------------------------------------

def gen_type(rng, depth=0, allow_ann=True):
    r = rng.random()
    if allow_ann and r < 0.3:
        return ("ann", gen_type(rng, depth, allow_ann=False))
    if depth >= 3 or r < 0.45:
        return ("leaf", rng.choice(list(LEAVES)))
    k = rng.choice(["opt", "list", "dictv", "newtype", "list", "newtype", "union", "tuple", "ntuple", "tdict"])
    inner = gen_type(rng, depth + 1, allow_ann=True)
    if k == "opt" and (inner[0] in ("opt", "union") or (inner[0] == "ann" and inner[1][0] == "opt")):
        inner = ("leaf", "date")        # typing would flatten Optional[Optional[..]] / Optional[Union[..]]
    if k == "union" and inner[0] in ("opt", "union"):
        inner = ("leaf", "dec")
    if k == "newtype" and inner[0] == "ann":
        inner = inner[1]            # NewType over an Annotated alias is not a class-like supertype
    return (k, inner)


class Term:
    """nodes of a type term in registry order, with the source text of every type object"""

    def __init__(self, t):
        self.name_of = {}
        self.defs = []          # python source lines defining the type objects, innermost first
        self.nodes = []         # dicts: kind, ex (py name), or (py name or None), ann (py name or None), step (tstep to the next node)
        self.n = 0
        self.top = self._build(t, None)
        self.nodes.reverse()
        seen = set()
        for i, nd in enumerate(self.nodes):
            nd["idx"] = i
            # one origin object (list / dict) is one table key: only its outermost node carries the slot
            nd["or_slot"] = bool(nd["or"]) and nd["or"] not in seen
            if nd["or"]:
                seen.add(nd["or"])

    def _name(self, prefix):
        self.n += 1
        return f"{prefix}{self.n}"

    def _build(self, t, ann_name):
        """returns the python name of the declared type object of t; appends nodes innermost-first"""
        kind = t[0]
        if kind == "ann":
            inner_holder = {}
            # the alias wraps the first node of the inner term
            name = self._name("A")
            inner = self._build_with_ann(t[1], name, inner_holder)
            self.defs.append(f'{name} = Annotated[{inner}, "m"]')
            return name
        return self._build_with_ann(t, ann_name, {})

    def _build_with_ann(self, t, ann_name, _):
        name = self._build_with_ann2(t, ann_name)
        self.name_of[id(t)] = name
        return name

    def _build_with_ann2(self, t, ann_name):
        kind = t[0]
        if kind == "leaf":
            name = self._name("L")
            self.defs.append(f"{name} = {LEAVES[t[1]][0]}")
            self.nodes.append({"kind": "leaf", "leaf": t[1], "ex": name, "or": None, "ann": ann_name, "step": None})
            return name
        inner = self._build(t[1], None)
        name = self._name({"opt": "O", "list": "Q", "dictv": "M", "newtype": "N", "union": "U", "tuple": "T", "ntuple": "NTu",
                           "tdict": "TDi"}[kind])
        if kind == "opt":
            self.defs.append(f"{name} = Optional[{inner}]")
            self.nodes.append({"kind": "opt", "ex": name, "or": None, "ann": ann_name, "step": "TOptional"})
        elif kind == "list":
            self.defs.append(f"{name} = List[{inner}]")
            self.nodes.append({"kind": "list", "ex": name, "or": "list", "ann": ann_name, "step": "TElement"})
        elif kind == "dictv":
            self.defs.append(f"{name} = Dict[str, {inner}]")
            self.nodes.append({"kind": "dict", "ex": name, "or": "dict", "ann": ann_name, "step": "TElement"})
        elif kind == "tuple":
            self.defs.append(f"{name} = Tuple[{inner}, ...]")
            self.nodes.append({"kind": "tuple", "ex": name, "or": "tuple", "ann": ann_name, "step": "TTupleItem"})
        elif kind == "ntuple":
            self.defs.append(f'{name} = NamedTuple("{name}", [("a", {inner})])')
            self.nodes.append({"kind": "ntuple", "ex": name, "or": None, "ann": ann_name, "step": "TNamedField"})
        elif kind == "tdict":
            self.defs.append(f'{name} = TypedDict("{name}", {{"a": {inner}}})')
            self.nodes.append({"kind": "tdict", "ex": name, "or": None, "ann": ann_name, "step": "TTypedKey"})
        elif kind == "union":
            # the observed value always belongs to the first member; the second member (int) never accepts it
            self.defs.append(f"{name} = Union[{inner}, int]")
            self.nodes.append({"kind": "union", "ex": name, "or": None, "ann": ann_name, "step": "TMember"})
        else:
            self.defs.append(f'{name} = NewType("{name}", {inner})')
            self.nodes.append({"kind": "nt", "ex": name, "or": None, "ann": ann_name, "step": "TNewType"})
        return name

    def value(self, t, which):
        kind = t[0]
        if kind == "leaf":
            return LEAVES[t[1]][1 if which == "value" else 2]
        inner = self.value(t[1], which)
        if kind == "list":
            return f"[{inner}]"
        if kind == "dictv":
            return '{"k": ' + inner + "}"
        if kind == "tuple":
            return f"({inner},)" if which == "value" else f"[{inner}]"
        if kind == "ntuple":
            return f"{self.name_of[id(t)]}({inner})" if which == "value" else f"[{inner}]"
        if kind == "tdict":
            return '{"a": ' + inner + "}"
        return inner


# ---------------------------------------------------------------------------------------
# cases
# ---------------------------------------------------------------------------------------

def is_cls_link(ln):
    """links that go on to another class: a dataclass-typed field, or a collection of that dataclass"""
    return ln in ("field", "field_coll")


def slot_name(lvl, node, which):
    return f"{lvl}.n{node}.{which}"


def gen_path_case(rng) -> dict:
    entry = rng.choice(list(ENTRY_LEVELS))
    t = gen_type(rng)
    term = Term(t)
    links = [rng.choice(["field", "field_coll", "self_opt", "self_list"]) for _ in range(rng.choice([0, 1, 1, 2]))]
    if "tuple" in {nd["or"] for nd in term.nodes}:
        # Tuple[Self, ...] children would themselves be hit by a registration for `tuple`
        links = ["self_opt" if x == "self_list" else x for x in links]
    ncls = 1 + sum(1 for x in links if is_cls_link(x))
    # the called class itself may lack ADD_DIALECT_SUPPORT: from_dict(..., dialect=D) is then accepted and ignored
    # (every generated from_dict has a `dialect` parameter), to_dict(dialect=D) would be a TypeError and is not called
    supports = [rng.random() < 0.85] + [rng.random() < 0.65 for _ in range(ncls - 1)]
    av = ["F1", "F2"]
    for lvl in ENTRY_LEVELS[entry]:
        for nd in term.nodes:
            for w in WHICH:
                if (w == "ann" and nd["ann"]) or w == "ex" or (w == "or" and nd["or_slot"]):
                    av.append(slot_name(lvl, nd["idx"], w))
    p = rng.choice([0.08, 0.15, 0.3, 0.5])
    slots = {}
    for s in av:
        # the outermost position beats everything below it: keep its slots rarer so that deeper positions get to win
        q = min(p, 0.12) if s in ("F1", "F2") else p * 0.4 if ".n0." in s else p
        if rng.random() < q:
            slots[s] = rng.choice(["both", "ser", "de", "pt"]) if s == "F1" else rng.choice(["strat", "pt"]) if s == "F2" else rng.choice(VARIANTS)
    return {"entry": entry, "type": t, "links": links, "supports": supports, "slots": slots,
            "decoys": [rng.random() < 0.6 for _ in range(ncls)], "use_call": "call" in ENTRY_LEVELS[entry] and rng.random() < 0.8}


def effective(variant, d):
    return d == "ser" if variant == "ser" else d == "de" if variant == "de" else True


def is_pass(variant, d):
    return variant == "pt" or (variant == "ptser" and d == "ser") or (variant == "ptde" and d == "de")


def call_reaches(case) -> bool:
    """the dialect given to the call is a level of the observed field iff every dataclass -> dataclass step on the way
    has ADD_DIALECT_SUPPORT on both sides (a Self step stays in its class)"""
    if not case["use_call"]:
        return False
    ci = 0
    for ln in case["links"]:
        if is_cls_link(ln):
            if not (case["supports"][ci] and case["supports"][ci + 1]):
                return False
            ci += 1
        elif not case["supports"][ci]:
            return False
    return case["supports"][0]


def oracle(case, d):
    """independent reading of the property: outermost position first; at a position field option, field strategy
    (the field's own position only), then alias / exact / origin key, each through call dialect, Config.dialect,
    Config.serialization_strategy, format dialect"""
    term = Term(case["type"])
    levels = [lv for lv in ENTRY_LEVELS[case["entry"]] if lv != "call" or call_reaches(case)]
    for nd in term.nodes:
        order = (["F1", "F2"] if nd["idx"] == 0 else []) + [slot_name(lv, nd["idx"], w) for w in WHICH for lv in LEVELS if lv in levels]
        for s in order:
            v = case["slots"].get(s)
            if v is not None and effective(v, d):
                return s, nd["idx"]
    return None, None


def positions(term) -> list[int]:
    """value position (number of element steps above) of every node"""
    pos, out = 0, []
    for nd in term.nodes:
        out.append(pos)
        if nd["step"] in ("TElement", "TTupleItem", "TNamedField", "TTypedKey"):
            pos += 1
    return out


def expected_obs(case, d):
    w, node = oracle(case, d)
    if w is None:
        return {"builtin": True}
    term = Term(case["type"])
    if is_pass(case["slots"][w], d):
        return {"pass_pos": positions(term)[node]}
    return {"hit": w, "inner_pass": True}


# ---------------------------------------------------------------------------------------
# source
# ---------------------------------------------------------------------------------------

def variant_expr(variant, tag):
    return {
        "both": f'{{"serialize": S("{tag}"), "deserialize": D("{tag}")}}',
        "ser": f'{{"serialize": S("{tag}")}}',
        "de": f'{{"deserialize": D("{tag}")}}',
        "pt": "pass_through",
        "ptser": f'{{"serialize": pass_through, "deserialize": D("{tag}")}}',
        "ptde": f'{{"serialize": S("{tag}"), "deserialize": pass_through}}',
        "strat": f'Strat("{tag}")',
    }[variant]


OBSERVE = '''
import decimal

def observe_path(d, out, orig, struct, builtin_leaf):
    pos = 0
    for kind in struct:
        if d == "ser" and isinstance(out, list) and len(out) == 3 and out[0] == "S" and isinstance(out[1], str):
            return {"hit": out[1], "inner_pass": out[2] is orig}
        if d == "de" and isinstance(out, tuple) and len(out) == 3 and out[0] == "D" and isinstance(out[1], str):
            return {"hit": out[1], "inner_pass": out[2] is orig}
        if out is orig:
            return {"pass_pos": pos}
        if kind == "list":
            if not isinstance(out, list) or len(out) != 1:
                return {"other": repr(out)[:80]}
            out, orig, pos = out[0], orig[0], pos + 1
        elif kind == "dict":
            if not isinstance(out, dict) or list(out) != ["k"]:
                return {"other": repr(out)[:80]}
            out, orig, pos = out["k"], orig["k"], pos + 1
        elif kind in ("tuple", "ntuple"):
            if not isinstance(out, (list, tuple)) or len(out) != 1:
                return {"other": repr(out)[:80]}
            out, orig, pos = out[0], orig[0], pos + 1
        elif kind == "tdict":
            if not isinstance(out, dict) or list(out) != ["a"]:
                return {"other": repr(out)[:80]}
            out, orig, pos = out["a"], orig["a"], pos + 1
        elif kind == "leaf":
            if type(out) is type(builtin_leaf) and out == builtin_leaf:
                return {"builtin": True}
            return {"other": repr(out)[:80]}
    return {"other": "no leaf"}
'''


def build_source(case, prelude: str) -> str:
    term = Term(case["type"])
    entry, slots = case["entry"], case["slots"]
    L = [prelude, OBSERVE] + term.defs + [f"FT = {term.top}"]
    keyname = lambda nd, w: {"ann": nd["ann"], "ex": nd["ex"], "or": nd["or"]}[w]  # noqa: E731

    def table(lvl):
        ents = []
        for nd in term.nodes:
            for w in WHICH:
                s = slot_name(lvl, nd["idx"], w)
                if s in slots:
                    ents.append(f"{keyname(nd, w)}: {variant_expr(slots[s], s)}")
        return ents

    def decoy_table():
        ents = []
        for nd in term.nodes:
            ents.append(f'{nd["ex"]}: {{"serialize": S("decoy"), "deserialize": D("decoy")}}')
            if nd["ann"]:
                ents.append(f'{nd["ann"]}: {{"serialize": S("decoy"), "deserialize": D("decoy")}}')
        return ents

    has = {}
    for lvl, cname in (("call", "CallD"), ("cfgd", "CfgD"), ("dflt", "DfltD")):
        ents = table(lvl) if lvl in ENTRY_LEVELS[entry] else []
        if lvl == "call" and case["use_call"] and not ents:
            ents = ['complex: {"serialize": S("unrelated"), "deserialize": D("unrelated")}']
        has[lvl] = bool(ents) and (lvl != "call" or case["use_call"])
        if has[lvl]:
            L.append(f"class {cname}(Dialect):\n    serialization_strategy = {{{', '.join(ents)}}}")
    L.append("class DecoyD(Dialect):\n    serialization_strategy = {" + ", ".join(decoy_table()) + "}")
    md = []
    f1 = slots.get("F1")
    if f1 in ("both", "ser"):
        md.append('"serialize": S("F1")')
    if f1 in ("both", "de"):
        md.append('"deserialize": D("F1")')
    if f1 == "pt":
        md += ['"serialize": pass_through', '"deserialize": pass_through']
    if "F2" in slots:
        md.append('"serialization_strategy": ' + variant_expr(slots["F2"], "F2"))
    if entry == "mixin":
        base = "DataClassDictMixin"
    elif entry == "mixin_fmt":
        dd = "DfltD" if has["dflt"] else "None"
        L.append("class FmtMixin(DataClassDictMixin):\n    __slots__ = ()\n"
                 f"    __mashumaro_builder_params = {{'packer': {{'format_name': 'fmt', 'dialect': {dd}, 'encoder': ident}},\n"
                 f"                                  'unpacker': {{'format_name': 'fmt', 'dialect': {dd}, 'decoder': ident}}}}\n"
                 "    def to_fmt(self, encoder=ident, **kw): ...\n"
                 "    @classmethod\n    def from_fmt(cls, data, decoder=ident, **kw): ...")
        base = "FmtMixin"
    else:
        base = ""
    mixin = entry != "codec_dc"
    # classes: C0 is called; the last class owns the observed field x.  Self links stay in the class.
    links = case["links"]
    cls_links = [[]]            # per class: list of self links hanging on it, in order
    coll_of = {}                # class index -> container of the link to the next class ("list" / "dict" / None)
    origins = {nd["or"] for nd in term.nodes if nd["or"]}
    for ln in links:
        if is_cls_link(ln):
            # the container must not itself be a registered key of the observed field's term
            coll_of[len(cls_links) - 1] = (None if ln == "field" else "list" if "list" not in origins
                                           else "dict" if "dict" not in origins else None)
            cls_links.append([])
        else:
            cls_links[-1].append(ln)
    ncls = len(cls_links)
    value, wire = term.value(case["type"], "value"), term.value(case["type"], "wire")
    L.append(f"VALUE = {value}\nWIRE = {wire}")
    M = ["CLASS_ERROR = None", "try:"]
    for ci in range(ncls - 1, -1, -1):
        owner = ci == ncls - 1
        M.append("    @dataclass")
        M.append(f"    class C{ci}" + (f"({base})" if base else "") + ":")
        body = []
        if owner:
            body.append(f"x: FT = field(default=None, metadata={{{', '.join(md)}}})")
        else:
            ann = {None: f"'C{ci + 1}'", "list": f"List['C{ci + 1}']", "dict": f"Dict[str, 'C{ci + 1}']"}[coll_of[ci]]
            body.append(f"child: {ann} = None")
        for j, ln in enumerate(cls_links[ci]):
            body.append(f"nxt{j}: Optional[Self] = None" if ln == "self_opt" else f"kids{j}: Tuple[Self, ...] = ()")
        cfg = []
        if mixin and case["supports"][ci]:
            cfg.append("code_generation_options = [ADD_DIALECT_SUPPORT]")
        if owner:
            if has["cfgd"]:
                cfg.append("dialect = CfgD")
            ents = table("cfg")
            if ents:
                cfg.append(f"serialization_strategy = {{{', '.join(ents)}}}")
        elif case["decoys"][ci]:
            cfg.append("dialect = DecoyD")
            cfg.append("serialization_strategy = {" + ", ".join(decoy_table()) + "}")
        M += ["        " + b for b in body]
        if cfg:
            M.append("        class Config(BaseConfig):")
            M += ["            " + c for c in cfg]
    M += ["except RecursionError:", "    CLASS_ERROR = 'RecursionError'", "except Exception as e:", "    CLASS_ERROR = errname(e)"]
    L.append("\n".join(M))
    # object / wire construction and navigation, following the links in order
    obj, wir, sel_s, sel_d = None, None, "", ""
    # build from the innermost outwards
    ci = ncls - 1
    seq = []    # (class index, link) in call order
    c = 0
    for ln in links:
        seq.append((c, ln))
        if is_cls_link(ln):
            c += 1
    # positions of self links per class
    counters = {}
    steps = []
    for (c, ln) in seq:
        if is_cls_link(ln):
            steps.append((c, "child", coll_of[c]))
        else:
            j = counters.get(c, 0)
            counters[c] = j + 1
            steps.append((c, ln, j))
    inner_obj = f"C{ncls - 1}(x=VALUE)"
    inner_wire = "{'x': WIRE}"
    for (c, kind, j) in reversed(steps):
        if kind == "child":
            wrap = {None: ("{}", "{}"), "list": ("[{}]", "[{}]"), "dict": ('{{"k": {}}}', "{{'k': {}}}")}[j]
            inner_obj = f"C{c}(child={wrap[0].format(inner_obj)})"
            inner_wire = "{'child': " + wrap[1].format(inner_wire) + "}"
        elif kind == "self_opt":
            inner_obj = f"C{c}(nxt{j}={inner_obj})"
            inner_wire = "{'nxt" + str(j) + "': " + inner_wire + "}"
        else:
            inner_obj = f"C{c}(kids{j}=({inner_obj},))"
            inner_wire = "{'kids" + str(j) + "': [" + inner_wire + "]}"
    for (c, kind, j) in steps:
        if kind == "child":
            ix = {None: "", "list": "[0]", "dict": "['k']"}[j]
            sel_s += "['child']" + ix; sel_d += ".child" + ix
        elif kind == "self_opt":
            sel_s += f"['nxt{j}']"; sel_d += f".nxt{j}"
        else:
            sel_s += f"['kids{j}'][0]"; sel_d += f".kids{j}[0]"
    sel_s += "['x']"; sel_d += ".x"
    ckw = ", dialect=CallD" if has["call"] else ""
    kw = "dialect=CallD" if (has["call"] and case["supports"][0]) else ""
    if entry == "mixin":
        ser, de = f"{inner_obj}.to_dict({kw}){sel_s}", f"C0.from_dict({inner_wire}{ckw}){sel_d}"
    elif entry == "mixin_fmt":
        ser, de = f"{inner_obj}.to_fmt({kw}){sel_s}", f"C0.from_fmt({inner_wire}{ckw}){sel_d}"
    else:
        dd = "DfltD" if has["dflt"] else "None"
        ser = f"BasicEncoder(C0, default_dialect={dd}).encode({inner_obj}){sel_s}"
        de = f"BasicDecoder(C0, default_dialect={dd}).decode({inner_wire}){sel_d}"
    leaf = term.nodes[-1]["leaf"]
    struct = [nd["kind"] for nd in term.nodes]
    L.append(f"STRUCT = {struct!r}\nLEAF_SER = {LEAVES[leaf][2]}\nLEAF_DE = {LEAVES[leaf][1]}")
    L.append(
        "def run():\n    res = {}\n    if CLASS_ERROR:\n        return {'class_error': CLASS_ERROR}\n"
        "    for d in ('ser', 'de'):\n        try:\n"
        f"            if d == 'ser':\n                res[d] = observe_path(d, {ser}, VALUE, STRUCT, LEAF_SER)\n"
        f"            else:\n                res[d] = observe_path(d, {de}, WIRE, STRUCT, LEAF_DE)\n"
        "        except Exception as e:\n            res[d] = {'error': errname(e)}\n"
        "    try:\n        from harness.props.c10_paths import real_valuations\n"
        f"        res['vals'] = real_valuations(globals(), {ncls})\n"
        "    except Exception as e:\n        res['vals_error'] = errname(e)\n"
        "    return res\n")
    return "\n".join(L)


# ---------------------------------------------------------------------------------------
# Coq encoding
# ---------------------------------------------------------------------------------------

_DISP = {}


def _raises(f, exc):
    try:
        f()
    except exc:
        return True
    return False


def _load_kernel_module(fname):
    import importlib.util
    import os
    import sys
    tools = os.path.join(vlib.VERIF, "tools")
    if tools not in sys.path:
        sys.path.insert(0, tools)
    sp_ = importlib.util.spec_from_file_location("vk_paths_" + fname[:-3], os.path.join(tools, "kernels", fname))
    m = importlib.util.module_from_spec(sp_)
    sp_.loader.exec_module(m)
    return m


def test_texts() -> dict:
    """per side: the test expressions of the dispatch chains (K5D) and of the other registered handlers (K110a)"""
    if "texts" not in _DISP:
        import mashumaro.core.meta.types.pack as pack
        import mashumaro.core.meta.types.unpack as unpack
        texts = _load_kernel_module("k5d_dispatch.py").test_texts()
        try:
            extra = _load_kernel_module("k110a_registry.py").test_texts()
        except Exception:  # noqa: BLE001  (K110a failed closed: the registry-walk comparison is not run then)
            extra = {"pack": [], "unpack": []}
        _DISP.update(texts={sd: texts[sd] + [t for t in extra[sd] if t not in texts[sd]] for sd in texts},
                     mods={"pack": pack, "unpack": unpack}, cache={})
    return _DISP["texts"]


def true_tests(t, side: str, annotations=()) -> list:
    """the tests of `side` that hold for the real type object t, evaluated with the library's own predicates in the
    namespace of pack.py / unpack.py on a spec stand-in"""
    import types as _types
    from mashumaro.core.meta.helpers import get_args, get_type_origin
    texts = test_texts()[side]
    fake_builder = _types.SimpleNamespace(get_field_resolved_type_params=lambda name: {}, cls=object, is_nailed=True, dialect=None,
                                          initial_type_args=(), format_name="dict", encoder=None, decoder=None)
    sp = _types.SimpleNamespace(type=t, origin_type=get_type_origin(t), builder=fake_builder,
                                field_ctx=_types.SimpleNamespace(name="x", metadata={}), annotations=tuple(annotations),
                                expression="value", no_copy_collections=())
    # one namespace: lambdas / generator expressions inside a test see only globals
    glob = dict(_DISP["mods"][side].__dict__)
    glob.update({"spec": sp, "args": get_args(t), "resolved_type_params": {}, "constraints": (), "evaluated": None,
                 "method_name": "m", "method_loc": object, "_raises": _raises})
    out = []
    for tx in texts:
        try:
            if eval(tx, glob):
                out.append(tx)
        except Exception:  # noqa: BLE001  (a test that cannot be evaluated for this type is not reached)
            pass
    return out


def valuation(t, d: str) -> str:
    """Gallina valuation of the handler tests for the real type object t (direction d): the tests of the translated
    chains (K5D) and handler guards (K110a) evaluated with the library's own predicates; only the tests that hold are listed."""
    test_texts()
    side = "pack" if d == "ser" else "unpack"
    key = (side, repr(t))
    if key in _DISP["cache"]:
        return _DISP["cache"][key]
    out = intern_valuation(true_tests(t, side))
    _DISP["cache"][key] = out
    return out


_VALNAMES = {}


def intern_valuation(tests: list) -> str:
    """name of the Gallina definition of this valuation (each distinct valuation is written once per file: the case
    files stay small - a coqc that needs less memory is not the first victim of a loaded machine)"""
    lit = "memv [" + "; ".join(vlib.coq_str(x) for x in tests) + "]"
    if lit not in _VALNAMES:
        _VALNAMES[lit] = f"val_{len(_VALNAMES)}"
    return _VALNAMES[lit]


def valuation_defs() -> str:
    return "".join(f"Definition {n} : string -> bool := {lit}.\n" for lit, n in _VALNAMES.items())


def real_valuations(ns: dict, ncls: int) -> dict:
    """run inside a path case's module: for its REAL classes C0..C<ncls-1> the handler tests that hold for the class
    object itself and for the resolved declared type of each link field (child / nxt<j> / kids<j>)"""
    import typing
    out = {}
    for ci in range(ncls):
        c = ns[f"C{ci}"]
        hints = typing.get_type_hints(c, ns, include_extras=True)
        for side in ("pack", "unpack"):
            out[f"{ci}:cls:{side}"] = true_tests(c, side)
            for fname, t in hints.items():
                if fname != "x":
                    out[f"{ci}:{fname}:{side}"] = true_tests(t, side)
    return out


_STANDIN = {}


def standin_dataclass(entry: str):
    """a dataclass with the bases the classes of a path case have for this entry point (what the handlers registered
    before the dataclass handler look at: the class itself, not its fields)"""
    if entry not in _STANDIN:
        from dataclasses import dataclass
        from mashumaro import DataClassDictMixin
        if entry == "codec_dc":
            @dataclass
            class StandIn:
                x: int = 0
        elif entry == "mixin_fmt":
            class FmtMixin(DataClassDictMixin):
                __slots__ = ()

            @dataclass
            class StandIn(FmtMixin):
                x: int = 0
        else:
            @dataclass
            class StandIn(DataClassDictMixin):
                x: int = 0
        StandIn.__qualname__ = "StandIn_" + entry
        _STANDIN[entry] = StandIn
    return _STANDIN[entry]


def marker(slot: str) -> int:
    if slot == "F1":
        return 1
    if slot == "F2":
        return 2
    lvl, node, which = slot.split(".")
    return 3 + LEVELS.index(lvl) * 15 + int(node[1:]) * 3 + WHICH.index(which)


def coq_sval(variant, m):
    return {
        "both": f"VDict (Some (FFn {m})) (Some (FFn {100 + m}))", "ser": f"VDict (Some (FFn {m})) None",
        "de": f"VDict None (Some (FFn {100 + m}))", "pt": "VPass",
        "ptser": f"VDict (Some FPass) (Some (FFn {100 + m}))", "ptde": f"VDict (Some (FFn {m})) (Some FPass)",
        "strat": f"VStrat false false {m} {100 + m}",
    }[variant]


def coq_case(case, d, obs, vals=None) -> str:
    """(dir, prims tables, root ctx, path, position map, observation); vals: real_valuations of the case's real classes
    (the valuations of class / link-field positions are computed on stand-ins of the same shape without it)"""
    side_ = "pack" if d == "ser" else "unpack"

    def rv(key, standin):
        if vals is not None and f"{key}:{side_}" in vals:
            return intern_valuation(vals[f"{key}:{side_}"])
        return valuation(standin, d)
    term = Term(case["type"])
    entry, slots = case["entry"], case["slots"]
    ids = {}

    def tid(name):
        if name not in ids:
            ids[name] = 200 + len(ids)
        return f"(KObj {ids[name]})"

    def node_keys(nd):
        return {"ann": nd["ann"], "ex": nd["ex"], "or": nd["or"] or nd["ex"]}

    org, anns = [], []
    for nd in term.nodes:
        if nd["ann"]:
            anns.append(tid(nd["ann"]))
            org.append(f"({tid(nd['ann'])}, {tid(nd['ex'])})")
        if nd["or"]:
            org.append(f"({tid(nd['ex'])}, {tid(nd['or'])})")

    def tab(lvl):
        ents = []
        for nd in term.nodes:
            for w in WHICH:
                s = slot_name(lvl, nd["idx"], w)
                if s in slots:
                    ents.append(f"({tid(node_keys(nd)[w])}, {coq_sval(slots[s], marker(s))})")
        return ents

    def decoy():
        ents = []
        for nd in term.nodes:
            ents.append(f"({tid(nd['ex'])}, VDict (Some (FFn 98)) (Some (FFn 198)))")
            if nd["ann"]:
                ents.append(f"({tid(nd['ann'])}, VDict (Some (FFn 98)) (Some (FFn 198)))")
        return ents

    links = case["links"]
    ncls = 1 + sum(1 for x in links if is_cls_link(x))
    cls = [f"(KObj {150 + i})" for i in range(ncls)]
    origins = {nd["or"] for nd in term.nodes if nd["or"]}
    coll_kind = None if "list" in origins and "dict" in origins else ("list" if "list" not in origins else "dict")
    mixin = entry != "codec_dc"
    flags = "[" + "; ".join(f"({cls[i]}, {'true' if (mixin and case['supports'][i]) else 'false'})" for i in range(ncls)) + "]"
    cfgs = []
    for i in range(ncls):
        if i == ncls - 1:
            cd = "Some [" + "; ".join(tab("cfgd")) + "]" if ("cfgd" in ENTRY_LEVELS[entry] and tab("cfgd")) else "None"
            cfgs.append(f"({cls[i]}, ({cd}, [{'; '.join(tab('cfg'))}]))")
        elif case["decoys"][i]:
            cfgs.append(f"({cls[i]}, (Some [{'; '.join(decoy())}], [{'; '.join(decoy())}]))")
        else:
            cfgs.append(f"({cls[i]}, (None, []))")
    call_ents = tab("call") if "call" in ENTRY_LEVELS[entry] else []
    if case["use_call"] and case["supports"][0]:
        call = "Some [" + "; ".join(call_ents or ["(KObj 18, VDict (Some (FFn 90)) (Some (FFn 190)))"]) + "]"
    else:
        call = "None"
    dflt = "Some [" + "; ".join(tab("dflt")) + "]" if ("dflt" in ENTRY_LEVELS[entry] and tab("dflt")) else "None"
    f1 = slots.get("F1")
    fs = {"both": "Some (FFn 1)", "ser": "Some (FFn 1)", "pt": "Some FPass"}.get(f1, "None")
    fd = {"both": "Some (FFn 101)", "de": "Some (FFn 101)", "pt": "Some FPass"}.get(f1, "None")
    f2 = f"Some ({coq_sval(slots['F2'], 2)})" if "F2" in slots else "None"
    fopts = f"{{| fo_ser := {fs}; fo_de := {fd}; fo_strat := {f2} |}}"
    # path: class links first, then the type steps of the observed field
    kself, kopt, ktup = "(KObj 140)", "(KObj 141)", "(KObj 142)"
    path, posmap = [], []
    vpath = []          # the same path with valuations instead of step kinds (xnode: PositionsV.vnode / RegistryWalk.rnode)
    import typing as _ty
    ns = {}
    exec("import datetime, decimal\nfrom typing import *\n" + "\n".join(term.defs), ns)
    # root context: the first link's field of C0, or the observed field itself
    decls = []      # (decl, then the nodes that follow inside that field's type, then NField)
    ci = 0
    seqs = []
    for ln in links:
        if is_cls_link(ln):
            seqs.append(("field" if (ln == "field" or coll_kind is None) else "field_coll", ci))
            ci += 1
        else:
            seqs.append((ln, ci))
    # declared types of link fields: child -> class object; self_opt -> Optional[Self] (kopt, then TOptional to Self);
    # self_list -> Tuple[Self, ...]: a tuple site is not a translated descent site; it is modelled as an element step
    term_decl = tid(term.top)
    first_decl = None
    selfj = {}
    for k, (ln, c) in enumerate(seqs):
        vinner = []
        j = selfj.get(c, 0)
        if ln in ("self_opt", "self_list"):
            selfj[c] = j + 1
        if ln == "field":
            d0, inner = cls[c + 1], []
        elif ln == "field_coll":
            # List['C'] / Dict[str, 'C']: a collection node (exact key 160+c, origin 170/171), then its element
            d0, inner = f"(KObj {160 + c})", [f"NType TElement {cls[c + 1]}"]
            vinner = [f"XType {rv(f'{c}:child', _ty.List[int] if coll_kind == 'list' else _ty.Dict[str, int])} {cls[c + 1]}"]
            org.append(f"((KObj {160 + c}), (KObj {170 if coll_kind == 'list' else 171}))")
        elif ln == "self_opt":
            d0, inner = kopt, [f"NType TOptional {kself}"]
            vinner = [f"XType {rv(f'{c}:nxt{j}', _ty.Optional[_ty.Self])} {kself}"]
        else:
            d0, inner = ktup, [f"NType TTupleItem {kself}"]
            vinner = [f"XType {rv(f'{c}:kids{j}', _ty.Tuple[_ty.Self, ...])} {kself}"]
        if first_decl is None:
            first_decl = d0
        else:
            path.append(f"NField {'true' if prev_self else 'false'} no_fieldopts {d0}")
            vpath.append(f"XSelf {valuation(_ty.Self, d)} no_fieldopts {d0}" if prev_self
                         else f"XData {rv(f'{c}:cls', standin_dataclass(entry))} no_fieldopts {d0}")
        path += inner
        vpath += vinner
        prev_self = ln in ("self_opt", "self_list")
    if first_decl is None:
        first_decl = term_decl
        root_f = fopts
    else:
        path.append(f"NField {'true' if prev_self else 'false'} {fopts} {term_decl}")
        vpath.append(f"XSelf {valuation(_ty.Self, d)} {fopts} {term_decl}" if prev_self
                     else f"XData {rv(f'{ci}:cls', standin_dataclass(entry))} {fopts} {term_decl}")
        root_f = "no_fieldopts"
    base_len = len(path)
    for nd in term.nodes[:-1]:
        nxt = term.nodes[nd["idx"] + 1]
        path.append(f"NType {nd['step']} {tid(nxt['ann'] or nxt['ex'])}")
        vpath.append(f"XType {valuation(ns[nd['ex']], d)} {tid(nxt['ann'] or nxt['ex'])}")
    pm = [0] * base_len + positions(term)
    # root sources: tables of C0 (its own config: the owner's when there is no field link, else decoy/none)
    root_cfg_cd, root_cfg = ("None", "[]")
    if ncls == 1:
        root_cfg_cd = "Some [" + "; ".join(tab("cfgd")) + "]" if ("cfgd" in ENTRY_LEVELS[entry] and tab("cfgd")) else "None"
        root_cfg = "[" + "; ".join(tab("cfg")) + "]"
    elif case["decoys"][0]:
        root_cfg_cd = "Some [" + "; ".join(decoy()) + "]"
        root_cfg = "[" + "; ".join(decoy()) + "]"
    rootS = (f"(with_fieldopts {{| f_ser := None; f_de := None; f_strat := None; t_call := {call}; t_cfgd := {root_cfg_cd}; "
             f"t_cfg := {root_cfg}; t_dflt := {dflt} |}} {root_f})")
    if "hit" in obs:
        o = f"OHit {marker(obs['hit']) + (0 if d == 'ser' else 100) if obs['hit'] in _all_slots() else 999} {'true' if obs.get('inner_pass') else 'false'}"
    elif "pass_pos" in obs:
        o = f"OPass {obs['pass_pos']}"
    elif obs.get("builtin"):
        o = "OBuiltin"
    else:
        o = "OOther"
    return (f"({'Ser' if d == 'ser' else 'De'}, ([{'; '.join(org)}], [{'; '.join(anns)}], {flags}, [{'; '.join(cfgs)}]), "
            f"({rootS}, {first_decl}, {cls[0]}), [{'; '.join(path)}], [{'; '.join(vpath)}], [{'; '.join(str(x) for x in pm)}], {o})")


_SLOTS = None


def _all_slots():
    global _SLOTS
    if _SLOTS is None:
        _SLOTS = {"F1", "F2"} | {slot_name(l, n, w) for l in LEVELS for n in range(5) for w in WHICH}
    return _SLOTS


COQ_DEFS = """
Open Scope nat_scope.
Inductive pobs := OHit (m: nat) (inner_pass: bool) | OPass (pos: nat) | OBuiltin | OOther.
Definition lk (tb: list (kv * kv)) (v: kv) : kv := match d_get tb v with Some x => x | None => v end.
Fixpoint lkb (tb: list (kv * bool)) (v: kv) : bool := match tb with [] => false | (k, b) :: r => if kv_eqb k v then b else lkb r v end.
Fixpoint lkc (tb: list (kv * (option table * table))) (v: kv) : option table * table :=
  match tb with [] => (None, []) | (k, c) :: r => if kv_eqb k v then c else lkc r v end.
Definition mkP (t: list (kv * kv) * list kv * list (kv * bool) * list (kv * (option table * table))) : prims :=
  match t with (org, anns, fl, cf) =>
    {| p_rt := fun v => v; p_org := lk org; p_isann := fun v => existsb (kv_eqb v) anns;
       p_flags := fun v => {| g_on := false; g_ba := false; g_dl := lkb fl v; g_cx := false |}; p_cfg := lkc cf |} end.
Definition memv (l: list string) (t: string) : bool := existsb (String.eqb t) l.
(* a position with the valuation p of the handler tests for its type: a part of the current type / Self / a dataclass *)
Inductive xnode := XType (p: string -> bool) (decl: kv) | XSelf (p: string -> bool) (f: fieldopts) (decl: kv)
                 | XData (p: string -> bool) (f: fieldopts) (decl: kv).
Definition path_case : Type :=
  dir * (list (kv * kv) * list kv * list (kv * bool) * list (kv * (option table * table))) * (sources * kv * kv)
  * list node * list xnode * list nat * pobs.
Definition eK := KStr "value".
Definition obs_of (pm: list nat) (r: option (nat * kv)) : pobs :=
  match r with
  | None => OBuiltin
  | Some (n, x) =>
      if kv_eqb x eK then OPass (nth n pm 0)
      else match x with KTuple [KStr "call"; KObj (S m); _] => OHit m true | _ => OOther end
  end.
Definition pobs_eqb (a b: pobs) : bool :=
  match a, b with
  | OHit m i, OHit m' i' => Nat.eqb m m' && Bool.eqb i i'
  | OPass p, OPass p' => Nat.eqb p p'
  | OBuiltin, OBuiltin => true
  | _, _ => false end.
(* the reference, from ctxs/ref_compile (Positions.v / PositionsProofs.v) *)
Definition ref_obs (d: dir) (P: prims) (c: pctx) (path: list node) (pm: list nat) : pobs :=
  match ref_compile P d (ctxs P c path) 0 with
  | Some (n, (_, WPass)) => OPass (nth n pm 0)
  | Some (n, (_, WFn m)) => OHit m true
  | Some _ => OOther
  | None => OBuiltin end.
"""

COQ_OK_KERNEL = """
Definition path_ok (x: path_case) : bool :=
  match x with (d, pt, (Sr, decl, holder), path, _, pm, o) =>
    let P := mkP pt in
    let c := {| x_S := Sr; x_ann := KNone; x_decl := decl; x_holder := holder |} in
    pobs_eqb (ref_obs d P c path pm) o &&
    match compile d P Sr (spec_of P c) holder eK path 0 with Ok r => pobs_eqb (obs_of pm r) o | Raise _ => false end
  end.
"""

# with the dispatch kernel: the path with valuations goes through the translated dispatch chains (PositionsV.compile_v)
COQ_OK_DISPATCHED = """
Definition to_v (x: xnode) : vnode := match x with XType p dc => VType p dc | XSelf p f dc => VSelf p f dc | XData _ f dc => VData f dc end.
Definition path_ok (x: path_case) : bool :=
  match x with (d, pt, (Sr, decl, holder), path, vpath, pm, o) =>
    let P := mkP pt in
    let c := {| x_S := Sr; x_ann := KNone; x_decl := decl; x_holder := holder |} in
    pobs_eqb (ref_obs d P c path pm) o &&
    match compile d P Sr (spec_of P c) holder eK path 0 with Ok r => pobs_eqb (obs_of pm r) o | Raise _ => false end &&
    match compile_v d P Sr (spec_of P c) holder eK (map to_v vpath) with Some (Ok r) => pobs_eqb (obs_of pm r) o | _ => false end
  end.
"""

COQ_OK_MODEL = """
Definition path_ok (x: path_case) : bool :=
  match x with (d, pt, (Sr, decl, holder), path, _, pm, o) =>
    let P := mkP pt in
    let c := {| x_S := Sr; x_ann := KNone; x_decl := decl; x_holder := holder |} in
    pobs_eqb (ref_obs d P c path pm) o
  end.
"""

# with the registry kernel: every position's site is decided by the walk of the whole translated registry (K110a + K5D)
# on the valuation (RegistryWalk.compile_r); a dataclass position is no longer told to the model, it is dispatched
COQ_OK_REGISTRY = COQ_OK_DISPATCHED.replace("Definition path_ok", "Definition path_ok_v") + """
Definition to_r (x: xnode) : rnode := match x with XType p dc => RType p dc | XSelf p f dc => RField p f dc | XData p f dc => RField p f dc end.
Definition path_ok (x: path_case) : bool :=
  path_ok_v x &&
  match x with (d, pt, (Sr, decl, holder), path, vpath, pm, o) =>
    let P := mkP pt in
    let c := {| x_S := Sr; x_ann := KNone; x_decl := decl; x_holder := holder |} in
    match compile_r d P Sr (spec_of P c) holder eK (map to_r vpath) with Some (Ok r) => pobs_eqb (obs_of pm r) o | _ => false end
  end.
"""
