"""C04 - format codecs are lossless and equal the format encoding of the basic form."""
from __future__ import annotations

import dataclasses
import traceback

from harness import vlib
from harness import c04lib as L
from harness.c04lib import FORMATS


# ---------------------------------------------------------------------------
# the property on the real implementation, one (entry point, value)
# ---------------------------------------------------------------------------

def robust_bad_idx(*a, **kw):
    """vlib.coq_bad_idx, repeated when Coq was cut short by the machine rather than by an error of the case file: a coqc
    that is killed (memory pressure / signal on a loaded host) or times out leaves NO diagnostic, a case file that does
    not check always prints one (`File ..., line ...: Error: ...`).  Up to three attempts; a result with a diagnostic is
    returned as it is."""
    import time as _t
    bad, log = None, ""
    for attempt in range(3):
        bad, log = vlib.coq_bad_idx(*a, **kw)
        if bad is not None:
            return bad, log
        txt = (log or "").strip()
        cut_short = (not txt) or any(w in txt for w in ("Killed", "Terminated", "Error 137", "Error 124", "Error 143",
                                                         "Cannot allocate memory", "Out of memory", "not run"))
        if "Error:" in txt and "File " in txt:
            cut_short = False
        if not cut_short:
            break
        _t.sleep(5 + 10 * attempt)
    return bad, log


def _exc(e: BaseException) -> str:
    out = f"{type(e).__name__}: {str(e)[:200]}"
    seen = 0
    c = e.__cause__ or e.__context__
    while c is not None and seen < 6:       # nested dataclasses wrap the original error
        out += f" <- {type(c).__name__}: {str(c)[:160]}"
        c = c.__cause__ or c.__context__
        seen += 1
    return out


def check_case(entry: L.Entry, v, opts: int | None = None):
    """Returns a list of (phase, observed, expected) for every clause of C04 that fails."""
    F = entry.F
    out = []
    try:
        doc = entry.encode(v)
    except Exception as e:
        return [("encode", _exc(e), "a document")]
    try:
        w = entry.decode(doc)
    except Exception as e:
        out.append(("decode", _exc(e), "the original value"))
    else:
        if not L.same(w, v):
            out.append(("roundtrip", L.vsrc(w) if _srcable(w) else repr(w), L.vsrc(v)))
    try:
        parsed = L.parse_doc(F, doc)
    except Exception as e:
        out.append(("parse", _exc(e), "the format's own library parses the document"))
        return out
    try:
        basic = entry.basic(v)
    except Exception as e:
        out.append(("basic", _exc(e), "basic form"))
        return out
    r = L.approx(F, parsed, basic)
    if r:
        out.append(("doc", f"{r[0]}: {r[1]}", "parse_F(encode_F(v)) ~_F basic form"))
    return out


def check_alike(em: L.Entry, ec: L.Entry, v):
    """"through mixin methods and through Encoder/Decoder objects alike": the two documents denote the same
    tree, and each side decodes the other side's document to the original value."""
    F = em.F
    out = []
    try:
        dm, dc = em.encode(v), ec.encode(v)
    except Exception:
        return out          # reported by check_case of the side that raised
    try:
        pm, pc = L.parse_doc(F, dm), L.parse_doc(F, dc)
        if not L.tree_eq(pm, pc):
            out.append(("alike-doc", f"mixin document {pm!r}"[:400] + f" | codec document {pc!r}"[:400], "equal documents"))
    except Exception as e:
        out.append(("alike-doc", _exc(e), "both documents parse"))
    for phase, dec, doc in (("alike-decode-codec-on-mixin-doc", ec, dm), ("alike-decode-mixin-on-codec-doc", em, dc)):
        try:
            w = dec.decode(doc)
        except Exception as e:
            out.append((phase, _exc(e), "the original value"))
        else:
            if not L.same(w, v):
                out.append((phase, L.vsrc(w) if _srcable(w) else repr(w), L.vsrc(v)))
    return out


def has_date_key(v) -> bool:
    import datetime as dt
    if dataclasses.is_dataclass(v):
        return any(has_date_key(getattr(v, f.name)) for f in dataclasses.fields(v))
    if isinstance(v, dict):
        return any(isinstance(k, dt.date) for k in v) or any(has_date_key(x) for x in v.values())
    if isinstance(v, (list, tuple, set, frozenset)):
        return any(has_date_key(x) for x in v)
    return False


def reinsert_nulls(v, tree):
    """the parsed TOML tree with the keys of None-valued dataclass fields put back (value and tree walked in parallel)"""
    if dataclasses.is_dataclass(v) and isinstance(tree, dict):
        out = dict(tree)
        for f in dataclasses.fields(v):
            x = getattr(v, f.name)
            if f.name in tree:
                out[f.name] = reinsert_nulls(x, tree[f.name])
            elif x is None:
                out[f.name] = None
        return out
    if isinstance(v, dict) and isinstance(tree, dict) and len(v) == len(tree):
        return {k2: reinsert_nulls(x, t2) for (k, x), (k2, t2) in zip(v.items(), tree.items())}
    if isinstance(v, (list, tuple, set, frozenset)) and isinstance(tree, (list, tuple)) and len(v) == len(tree):
        return [reinsert_nulls(x, t) for x, t in zip(v, tree)]
    return tree


def toml_counterfactual(entry: L.Entry, v) -> bool:
    from mashumaro.codecs.basic import BasicDecoder
    from mashumaro.mixins.toml import TOMLDialect
    tree = reinsert_nulls(v, L.parse_doc("toml", entry.encode(v)))
    if entry.kind in ("mixin", "mixin-str"):
        w = entry.shape.from_toml(tree, decoder=L.ident, **entry.kw)
    else:
        dd = TOMLDialect.merge(entry.dialect) if entry.dialect is not None else TOMLDialect
        w = BasicDecoder(entry.shape, default_dialect=dd).decode(tree)
    return L.same(w, v)


def _srcable(w) -> bool:
    try:
        L.vsrc(w)
        return True
    except Exception:
        return False


def check_composition(entry: L.Entry, v, opts: int = 0):
    """encode_F = ser_F o pack_F on the mixin path (the model's definition of encode_F), and the
    assumed law of the format library on the tree that was actually handed to it."""
    F = entry.F
    out = []
    try:
        nb = entry.native_tree(v)
        if nb is None:
            return out, None
        if F == "orjson":
            import orjson
            want = orjson.dumps(nb, option=opts) if opts else orjson.dumps(nb)
        else:
            want = L.ser_doc(F, nb)
        got = entry.encode(v)
        if want != got:
            if F == "orjson" and entry.dialect is not None and opts and got == orjson.dumps(nb):
                # with a call-time dialect the generated method calls encoder(...) without the encoder kwargs
                # (builder.py _add_pack_method_with_dialect_lines): Config.orjson_options / orjson_options= is ignored.
                # The document is exactly the one written without options (model: EncKwargs.kw_used ret_dialect = None).
                out.append(("encoder-kwargs", repr(got)[:300], repr(want)[:300]))
            else:
                out.append(("composition", repr(got)[:300], repr(want)[:300]))
    except Exception as e:
        out.append(("composition", _exc(e), "ser_F(pack_F(v))"))
        return out, None
    law = None
    try:
        back = L.parse_doc(F, want)
        if not L.tree_eq(back, L.norm_tree(F, nb)):
            law = f"parse_F(ser_F(b)) != norm_F(b) for b = {nb!r}"[:500]
    except Exception as e:
        law = f"{_exc(e)} for b = {nb!r}"[:500]
    return out, law


# ---------------------------------------------------------------------------
# known-finding signatures (precise predicates; see known_findings.d/C04.json)
# ---------------------------------------------------------------------------

def none_fields_without_none_default(S: L.Schema, v) -> list[str]:
    """Names of dataclass fields (anywhere in v) that hold None while their default is not None."""
    hits = []

    def walk(x):
        if dataclasses.is_dataclass(x):
            spec = S.classes.get(type(x).__name__)
            for f in dataclasses.fields(x):
                val = getattr(x, f.name)
                if val is None and spec is not None:
                    d = [dd for fn, _, dd in spec["fields"] if fn == f.name]
                    if d and d[0] != "None":
                        hits.append(f.name)
                walk(val)
        elif isinstance(x, dict):
            for y in x.values():
                walk(y)
        elif isinstance(x, (list, tuple, set, frozenset)):
            for y in x:
                walk(y)
    walk(v)
    return hits


def has_orjson_bad_time(v) -> bool:
    """v contains a datetime.time with 10000 <= microsecond <= 99999 (rendered by orjson 3.12.0 with five
    fractional digits, i.e. as a different time; datetime.datetime is rendered correctly)."""
    import datetime as dt
    if isinstance(v, dt.time):
        return 10000 <= v.microsecond <= 99999
    if dataclasses.is_dataclass(v):
        return any(has_orjson_bad_time(getattr(v, f.name)) for f in dataclasses.fields(v))
    if isinstance(v, dict):
        return any(has_orjson_bad_time(x) for x in v.values()) or any(has_orjson_bad_time(x) for x in v.keys())
    if isinstance(v, (list, tuple, set, frozenset)):
        return any(has_orjson_bad_time(x) for x in v)
    return False


_ORJSON_DEFECT = None


def orjson_time_defect_present() -> bool:
    """Probe of the installed third-party library (not of /repo)."""
    global _ORJSON_DEFECT
    if _ORJSON_DEFECT is None:
        import datetime as dt
        import orjson
        _ORJSON_DEFECT = orjson.dumps(dt.time(0, 0, 0, 39016)) != b'"00:00:00.039016"'
    return _ORJSON_DEFECT


def reaches_selfref(S: L.Schema, shp: L.T) -> bool:
    """the shape reaches a dataclass one of whose fields refers to the class itself"""
    return bool({"selfopt", "selflist"} & L.kinds_deep(shp, S))


def reaches_selfref_by_name(S: L.Schema, shp: L.T) -> bool:
    """the shape reaches a dataclass with a field that names its own class (forward reference, not typing.Self)"""
    seen = set()

    def walk(t):
        if t.kind in ("selfopt", "selflist") and not (t.args and t.args[0]):
            return True
        if t.name and t.kind in ("dc", "nt", "td", "dbase") and t.name not in seen and t.name in S.classes:
            seen.add(t.name)
            if any(walk(ft) for _, ft, _ in S.classes[t.name].get("fields", [])):
                return True
        for a in t.args:
            if isinstance(a, L.T) and walk(a):
                return True
            if isinstance(a, (list, tuple)) and any(isinstance(x, L.T) and walk(x) for x in a):
                return True
        return False
    return walk(shp)


def signature(S: L.Schema, F: str, kind: str, phase: str, observed: str, v, shp=None, counterfactual=None,
              dialect_given=False) -> dict:
    sig = {"format": F, "entry": kind, "phase": phase, "kind": "other"}
    if kind in ("codec", "func") and phase in ("build", "encode", "decode") and shp is not None and reaches_selfref(S, shp) \
            and observed.startswith("AttributeError: type object 'attrs_") and "has no attribute '__mashumaro_" in observed:
        sig["kind"] = "codec-self-referencing-dataclass"
        return sig
    if shp is not None and F in ("orjson", "msgpack", "toml") and kind == "mixin" and dialect_given \
            and "AttributeError" in observed and "has no attribute '__mashumaro_" in observed and "_dict_" in observed \
            and reaches_selfref_by_name(S, shp):
        sig["kind"] = "call-dialect-self-by-name-missing-format-method"
        return sig
    if shp is not None and F in ("orjson", "msgpack", "toml") and kind in ("mixin", "mixin-str") \
            and "dbase" in L.kinds_deep(shp, S) and phase != "composition":
        sig["kind"] = "format-base-typed-field-subclass-fields-dropped"
        return sig
    if phase.startswith("alike-decode"):
        phase_class = "decode-or-roundtrip"
    else:
        phase_class = phase
    if F == "orjson" and (phase in ("roundtrip", "doc") or phase_class == "decode-or-roundtrip") and has_orjson_bad_time(v) and orjson_time_defect_present():
        sig["kind"] = "orjson-library-time-microseconds-5-digits"
    if F == "toml" and (phase in ("decode", "roundtrip") or phase_class == "decode-or-roundtrip"):
        hits = none_fields_without_none_default(S, v)
        if hits and counterfactual is not None:
            # counterfactual: put the omitted None-valued keys back into the parsed document and decode that tree with
            # the same (TOML-dialect) unpacker: if the original value comes back, the omission alone caused the failure
            try:
                if counterfactual():
                    sig["kind"] = "toml-omitted-none-field-without-none-default"
            except Exception:
                pass
    return sig


# ---------------------------------------------------------------------------
# the oracle
# ---------------------------------------------------------------------------

ORJSON_OPTS = None


def lossless_orjson_options(rng):
    import orjson
    return rng.choice([0, 0, orjson.OPT_SORT_KEYS, orjson.OPT_INDENT_2, orjson.OPT_APPEND_NEWLINE,
                       orjson.OPT_SORT_KEYS | orjson.OPT_INDENT_2])


def oracle(ctx: vlib.Ctx, n_schemas: int, n_values: int, focus: str | None = None):
    rng = ctx.rng
    law_fail = []
    nfail = 0
    per_kind: dict = {}
    for si in range(n_schemas):
        jsonkind = rng.choice(["json", "orjson"])
        dialect_mode = rng.random() < 0.3
        S = L.Schema(rng, jsonkind, dialect_mode=dialect_mode)
        depth = rng.choice([1, 2, 2, 3])
        if dialect_mode and rng.random() < 0.35:
            # a self-referencing root whose per-format methods may first be compiled under a call-time dialect
            root = S.new_dc(depth, root=True, force_self=rng.choice([True, "name"]))
        elif rng.random() < 0.14:
            # the root is a subclass (adding fields) of a self-referencing class
            sb = S.new_dc(max(depth - 1, 1), force_self=rng.choice([True, True, "name"]))
            root = S.new_dc(depth, root=True, base=sb.name)
        else:
            root = S.new_dc(depth, root=True, wrapped_opts=rng.random() < 0.3)
        xds = rng.sample(L.USER_DIALECTS, 2) if dialect_mode else []
        opts = 0
        if jsonkind == "orjson" and rng.random() < 0.5:
            opts = lossless_orjson_options(rng)
            if opts:
                # Config of the root class: encoder kwargs resolved from Config (builder.py _get_encoder_kwargs)
                if S.classes[root.name]["has_config"]:
                    S.defs[-1] += f"        orjson_options = {opts}\n"
                else:
                    S.defs[-1] += f"    class Config(BaseConfig):\n        orjson_options = {opts}\n"
        src = S.source()
        modname = f"c04_gen_{ctx.seed}_{si}"
        try:
            mod = L.load_module(src, modname)
        except Exception as e:
            L.unload_module(modname)
            ctx.fail(f"schema does not compile: {_exc(e)}",
                     {"entry": "schema", "src": src, "observed": traceback.format_exc()[-1500:], "expected": "classes are created"},
                     {"kind": "schema-compile", "exc": type(e).__name__})
            continue
        try:
            ns = mod.__dict__
            rootcls = ns[root.name]
            # shapes for the codec path: the root class, a wrapper of it, one of its field types
            shapes = [(root, L.ann(root))]
            wrap = rng.choice(["list", "dict", "opt", "tuple", "field", "field"])
            if wrap == "list":
                shapes.append((L.T("list", root), None))
            elif wrap == "dict":
                shapes.append((L.T("dict", L.T("str"), root), None))
            elif wrap == "opt":
                shapes.append((L.T("opt", root, rng.choice([None, "annotated", "union"])), None))
            elif wrap == "tuple":
                shapes.append((L.T("tuplefix", [root, L.T("int")]), None))
            else:
                fs = S.classes[root.name]["fields"]
                ft = rng.choice(fs)[1]
                if ft.kind == "selfopt":     # a bare forward reference has no meaning outside its class
                    ft = L.T("opt", root)
                elif ft.kind == "selflist":
                    ft = L.T("list", root)
                shapes.append((ft, None))
            cache = {}
            for shp, _ in shapes:
                shape_ann = L.ann(shp)
                shape_obj = eval(shape_ann, ns)
                shape_kinds = L.kinds_deep(shp, S)
                for kk in sorted(shape_kinds):
                    ctx.hist("type_kinds", kk)
                vals = [L.gen_value(shp, S, mod, rng) for _ in range(n_values)]
                for vi, v in enumerate(vals):
                    for F in FORMATS:
                        if focus and F != focus:
                            continue
                        why = L.outside_subset(F, v)
                        if why:
                            ctx.hist("outside_subset", f"{F}:{why}")
                            continue
                        on_root = shp is root and (F not in ("json", "orjson") or F == jsonkind)
                        # a Base-typed position holding a subclass instance (class-level discriminator) is packed by
                        # the codec path with Base's packer only (static dispatch, the D8 family of C02/C15):
                        # such shapes are exercised through the mixin methods only
                        codec_ok = "dbase" not in shape_kinds
                        specs = [("codec", None)] if codec_ok else []
                        if on_root:
                            specs.append(("mixin", None))
                            if F == "orjson":
                                specs.append(("mixin-str", None))
                        if vi == 0 and codec_ok:
                            specs.append(("func", None))
                        for xd in xds:           # user dialect: at call time (mixin) / as default_dialect (codec)
                            if codec_ok:
                                specs.append(("codec", xd))
                            if on_root:
                                specs.append(("mixin", xd))
                        # the order in which the entry points are first used varies (methods are compiled on demand);
                        # a codec spec stays ahead of the mixin spec it is compared with
                        if rng.random() < 0.5:
                            specs = [sp for sp in specs if sp[1]] + [sp for sp in specs if not sp[1]]
                        built = {}
                        for kind, xd in specs:
                            label = kind + ("+dialect" if xd else "")
                            if xd == "XD_date" and has_date_key(v):
                                # the user strategy renders a date as an int: as a mapping key it is not a string any more
                                ctx.hist("outside_subset", f"{F}:user-dialect-makes-key-non-string")
                                continue
                            try:
                                entry = L.Entry(F, kind, shape_obj if kind not in ("mixin", "mixin-str") else rootcls, cache,
                                                dialect=ns[xd] if xd else None)
                            except Exception as e:
                                fails = [("build", _exc(e), "codec objects are created")]
                                entry = None
                            else:
                                built[(kind, xd)] = entry
                                fails = check_case(entry, v)
                                if kind == "mixin":
                                    comp, law = check_composition(entry, v, opts if F == "orjson" else 0)
                                    for c_ in comp:
                                        if c_[0].startswith("observation-"):
                                            ctx.hist("observations", c_[0][12:])
                                        else:
                                            fails.append(c_)
                                    if law and not (F == "orjson" and has_orjson_bad_time(v) and orjson_time_defect_present()):
                                        law_fail.append((F, law))
                                    elif law:
                                        ctx.hist("fmt_law_known_library_defect", "orjson-time-microseconds")
                                    if F == "orjson" and opts and vi == 1 and not xd:
                                        # call-time override of the Config value
                                        import orjson
                                        try:
                                            got = v.to_jsonb(orjson_options=orjson.OPT_SORT_KEYS)
                                            want = orjson.dumps(entry.native_tree(v), option=orjson.OPT_SORT_KEYS)
                                            if got != want:
                                                fails.append(("orjson_options-override", repr(got)[:200], repr(want)[:200]))
                                        except Exception as e:
                                            fails.append(("orjson_options-override", _exc(e), "document"))
                                    # mixin methods and codec objects alike, on the same documents
                                    ec = built.get(("codec", xd))
                                    if ec is not None:
                                        fails += check_alike(entry, ec, v)
                            ctx.count((shape_ann, F, label, xd, L.vsrc(v)))
                            ctx.hist("formats", F)
                            ctx.hist("entry", label)
                            if xd:
                                ctx.hist("user_dialects", xd)
                            if si < 2 and vi == 0 and kind == "codec" and F == "toml":
                                ctx.sample({"shape": shape_ann, "format": F, "entry": label, "dialect": xd, "value": L.vsrc(v)[:300]})
                            for phase, observed, expected in fails:
                                nfail += 1
                                sig = signature(S, F, kind, phase, observed, v, shp,
                                                (lambda e_=entry, v_=v: toml_counterfactual(e_, v_)) if (F == "toml" and entry is not None) else None,
                                                dialect_given=bool(xd))
                                if xd:
                                    sig["dialect"] = xd
                                ctx.hist("failures", f"{F}:{label}:{phase}:{sig['kind']}")
                                per_kind[sig["kind"]] = per_kind.get(sig["kind"], 0) + 1
                                if per_kind[sig["kind"]] <= (300 if sig["kind"] == "other" else 40):
                                    ctx.fail(f"{F}/{label}{'['+xd+']' if xd else ''}: {phase} fails on {shape_ann}: {observed[:160]}",
                                             {"entry": "format-roundtrip", "src": src, "shape": shape_ann, "root": root.name,
                                              "format": F, "kind": kind, "dialect": xd, "value_src": L.vsrc(v), "phase": phase,
                                              "orjson_options": opts, "observed": observed, "expected": expected},
                                             sig)
        finally:
            L.unload_module(modname)
    return law_fail


# ---------------------------------------------------------------------------
# (M) correspondence: Format.v pack/unpack/norm/approx/representable vs implementation + libraries
# ---------------------------------------------------------------------------

def innermost_missing_field(e: BaseException):
    """field name of the deepest MissingField in the exception chain (nested dataclasses wrap it)"""
    hit, seen = None, 0
    while e is not None and seen < 50:
        if type(e).__name__ == "MissingField":
            hit = e.field_name
        e = e.__cause__ or e.__context__
        seen += 1
    return hit


def correspondence_cases(ctx: vlib.Ctx, n_schemas: int, n_values: int):
    rng = ctx.rng
    cases, descr = [], []
    fmt_dialects = {F: L.coq_format_dialect(F) for F in FORMATS}
    for si in range(n_schemas):
        jsonkind = rng.choice(["json", "orjson"])
        # 40% of the schemas enable ADD_DIALECT_SUPPORT and are driven with a call-time dialect: one that covers
        # nothing, or one that overrides a type some format dialect declares native (both directions)
        # systematic part of the stream (one schema in four): a self-referencing root (by name / typing.Self / as a
        # subclass adding fields), half of them first used with a call-time dialect - the first format call compiles
        # the per-format methods on demand, with or without a dialect
        sysk = si % 8 if si % 2 == 0 else None
        dm = (sysk in (0, 2, 4)) if sysk is not None else rng.random() < 0.4
        S = L.Schema(rng, jsonkind, small=True, dialect_mode=dm)
        if sysk == 6:
            root = S.new_dc(rng.choice([1, 2]), root=True, wrapped_opts=True)
        elif sysk == 0:
            root = S.new_dc(rng.choice([1, 2]), root=True, force_self="name")
        elif sysk == 2:
            root = S.new_dc(rng.choice([1, 2]), root=True, force_self=True)
        elif sysk == 4 or rng.random() < 0.12:
            sb = S.new_dc(1, force_self=rng.choice([True, "name"]))
            root = S.new_dc(rng.choice([1, 2]), root=True, base=sb.name)
        else:
            root = S.new_dc(rng.choice([1, 2, 2, 3]), root=True)
        src = S.source()
        modname = f"c04_corr_{ctx.seed}_{si}"
        try:
            mod = L.load_module(src, modname)
            rootcls = mod.__dict__[root.name]
            tyc = L.coq_ty(root, S)
            envc = L.coq_env(S)
            enumc = L.coq_enums(S, mod)
            xname = rng.choice(list(L.MODEL_USER_DIALECTS)) if dm else None
            user = L.MODEL_USER_DIALECTS[xname] if dm else []
            userc = "[" + "; ".join(f"({k}, EDict (Some {i}%nat) (Some {i}%nat))" for k, i, _ in user) + "]"
            for kk in sorted(L.kinds_deep(root, S)):
                ctx.hist("correspondence_type_kinds", kk)
            for vi in range(n_values):
                v = L.gen_value(root, S, mod, rng)
                tab, unrepr, utab = [], {}, []
                pvc = L.coq_pv(v, S, tab, unrepr, utab, user)
                tabc = "[" + "; ".join(f"({k}, {vlib.coq_str(p)}, {vlib.coq_str(t)})" for k, p, t in dict.fromkeys(tab)) + "]"
                utabc = "[" + "; ".join(f"({u}%nat, {k}, {vlib.coq_str(p)}, {vlib.coq_str(t)})" for u, k, p, t in dict.fromkeys(utab)) + "]"
                xd = mod.__dict__[xname] if dm else None
                basic = v.to_dict(dialect=xd) if dm else v.to_dict()
                for F in FORMATS:
                    if F in ("json", "orjson") and F != jsonkind:
                        continue
                    if F == "orjson" and has_orjson_bad_time(v) and orjson_time_defect_present():
                        ctx.hist("correspondence_skipped", "orjson-library-time-defect")
                        continue
                    entry = L.Entry(F, "mixin", rootcls, dialect=xd)
                    nb = entry.native_tree(v)
                    why = L.outside_subset(F, v)
                    if why == "sub-minute-utc-offset" and xname == "XD_datetime":
                        why = L.outside_subset(F, v, skip_datetime_offsets=True)   # rendered as text by the caller's strategy
                    parsed, dec = "None", "DecOther"
                    if why is None:
                        doc = entry.encode(v)
                        parsed = "(Some %s)" % L.coq_bv(L.parse_doc(F, doc))
                        try:
                            w = entry.decode(doc)
                            dec = "DecSame" if L.same(w, v) else "DecOther"
                        except Exception as e:
                            mf = innermost_missing_field(e)
                            if mf is not None:
                                dec = f"(DecMissing {vlib.coq_str(mf)})"
                    bad = "[" + "; ".join(f"({k}, {vlib.coq_str(p)})" for k, p in dict.fromkeys(unrepr.get(F, []))) + "]"
                    fe, fo = fmt_dialects[F]
                    cases.append("{| c_fmt := %s; c_env := %s; c_enums := %s; c_ty := %s; c_val := %s; c_tab := %s; c_utab := %s; c_user := %s; "
                                 "c_fmt_entries := %s; c_fmt_omit := %s; c_unrepr := %s; c_pack := %s; "
                                 "c_basic := %s; c_insub := %s; c_parsed := %s; c_dec := %s |}" % (
                                     L.FMT[F], envc, enumc, tyc, pvc, tabc, utabc, userc, fe, fo, bad, L.coq_bv(nb), L.coq_bv(basic),
                                     "true" if why is None else "false", parsed, dec))
                    descr.append({"format": F, "src": src, "root": root.name, "value_src": L.vsrc(v), "outside": why, "dec": dec,
                                  "dialect": xname})
                    ctx.hist("correspondence_formats", F + (":outside-subset" if why else "") + (f":{xname}" if dm else ""))
        except Exception as e:   # the implementation raised where the model is total: keep going, report
            ctx.hist("correspondence_errors", type(e).__name__)
            if not any(u["name"].startswith("correspondence: implementation raised") for u in ctx.unshown):
                ctx.not_shown("correspondence: implementation raised on a small-grammar case",
                              f"{_exc(e)}\n{traceback.format_exc()[-1200:]}\n{src[-800:]}")
        finally:
            L.unload_module(modname)
    return cases, descr


def correspondence(ctx: vlib.Ctx):
    cases, descr = correspondence_cases(ctx, ctx.budget(40, 300), ctx.budget(3, 4))
    name = "format-model-vs-impl-and-libraries"
    bad, log = robust_bad_idx("c04_fmt", "Fmt FmtCases", "", "", cases, "case_ok", "fcase", shard=100, timeout=1800,
                                needs=["theories/Fmt.vo", "theories/FmtCases.vo"])
    ctx.count(n=len(cases))
    if bad is None:
        ctx.correspondence(name, len(cases), -1, log)
        ctx.not_shown("correspondence " + name, log)
        return
    detail = ""
    if bad:
        d = descr[bad[0]]
        detail = f"{len(bad)} mismatching cases; first: format {d['format']} value {d['value_src'][:400]} outside={d['outside']} dec={d['dec']}\n{d['src'][-1200:]}"
    ctx.correspondence(name, len(cases), len(bad), detail)
    if bad:
        ctx.not_shown("correspondence " + name, detail)
        ctx.coverage["first_mismatch"] = descr[bad[0]]


def k11_validation(ctx: vlib.Ctx):
    """(T) the translated kernel against the Python original + validation of the hex-hash assumption."""
    name = "K11-translation-vs-python"
    if not ctx.kernel_report.get("K11", {}).get("ok"):
        ctx.correspondence(name, 0, -1, "kernel K11 not translated: " + str(ctx.kernel_report.get("K11", {}).get("error")))
        return
    from mashumaro.core.meta.code.builder import CodeBuilder
    from mashumaro.core.meta.helpers import hash_type_args
    import typing
    fmts = ["dict", "json", "jsonb", "msgpack", "toml", "yaml", "x_y", "", "dict_json", "to"]
    targs = [(), (int,), (str, typing.List[int]), (typing.Dict[str, int],)]
    cases, descr = [], []
    hexbad = []
    for d, fn in (("DPack", CodeBuilder.get_pack_method_name), ("DUnpack", CodeBuilder.get_unpack_method_name)):
        for f in fmts:
            for ta in targs:
                for codec in (None, len, 0):
                    h = hash_type_args(ta) if ta else ""
                    if ta and not (len(h) == 32 and all(c in "0123456789abcdef" for c in h)):
                        hexbad.append(h)
                    try:
                        exp = "Some " + vlib.coq_str(str(fn(ta, f, codec)))
                    except Exception:
                        exp = "None"
                    cc = "KNone" if codec is None else ("(KObj 1)" if codec is len else "(KInt 0)")
                    cases.append(f"({d}, {vlib.coq_str(h)}, {'[KObj 0]' if ta else '[]'}, {vlib.coq_str(f)}, {cc}, {exp})")
                    descr.append((d, f, ta, codec))
    okf = ("fun c => match c with (d, h, ta, f, cc, e) => match mname d h ta f cc, e with "
           "| Ok (KStr n), Some m => String.eqb n m | Raise _, None => true | _, _ => false end end")
    bad, log = robust_bad_idx("c04_k11", "PyK_names K11Proofs", "From VerifGen Require Import K11.", "", cases, okf,
                                "dir * string * list kv * string * kv * option string", shard=400, timeout=1800,
                                needs=["theories/K11Proofs.vo"])
    ctx.count(n=len(cases))
    if hexbad:
        ctx.not_shown("assumption hash_type_args returns 32 lowercase hex digits", str(hexbad[:3]))
    if bad is None:
        ctx.correspondence(name, len(cases), -1, log)
        ctx.not_shown("translation validation K11", log)
    else:
        ctx.correspondence(name, len(cases), len(bad), str([descr[i] for i in bad[:6]]))
        if bad:
            ctx.not_shown("translation validation K11", str([descr[i] for i in bad[:6]]))


def k40_validation(ctx: vlib.Ctx):
    """(T) the translated skeleton of the codec wrapper against the module text the real code emits."""
    name = "K40-codec-wrapper-skeleton-vs-emitted-code"
    if not ctx.kernel_report.get("K40", {}).get("ok"):
        ctx.correspondence(name, 0, -1, "kernel K40 not translated: " + str(ctx.kernel_report.get("K40", {}).get("error")))
        return
    import re
    import typing
    from mashumaro.codecs import _builder
    from mashumaro.codecs.basic import BasicDecoder, BasicEncoder
    src = "from dataclasses import dataclass\n@dataclass\nclass K16P:\n    a: int\n"
    mod = L.load_module(src, "c04_k16_probe")
    rec = []
    orig = _builder.CodecCodeBuilder.compile

    def spy(self):
        rec.append(self.lines.as_text())
        return orig(self)

    def classify(text, direction):
        obj = "decoder_obj" if direction == "decode" else "encoder_obj"
        out, expr = [], None
        for ln in text.splitlines():
            t = ln.strip()
            if not t:
                continue
            if t == f"def {direction}(value):":
                out.append("IDef")
            elif t == "value = decoder(value)":
                out.append("IPre")
            elif t.startswith("return encoder(") and t.endswith(")"):
                out.append("IReturnPost"); expr = t[len("return encoder("):-1]
            elif t.startswith("return "):
                out.append("IReturnExpr"); expr = t[len("return "):]
            elif t == f"setattr({obj}, '{direction}', {direction})":
                out.append("IInstallDef")
            elif re.fullmatch(rf"setattr\({obj}, '{direction}', [^ ]+\)", t):
                out.append("IInstallDirect")
            else:
                out.append("IUnknown")
        return out, expr

    cases, descr = [], []
    _builder.CodecCodeBuilder.compile = spy
    try:
        for direction, ctor, kwname in (("decode", BasicDecoder, "pre_decoder_func"), ("encode", BasicEncoder, "post_encoder_func")):
            for shape in (mod.K16P, typing.List[int], typing.Optional[mod.K16P], int):
                for codec in (None, L.ident):
                    rec.clear()
                    ctor(shape, **{kwname: codec})
                    got, expr = classify(rec[-1], direction)
                    if "IUnknown" in got:
                        b_m = "false"
                    elif got == ["IInstallDirect"]:
                        b_m = "true"
                    else:
                        b_m = "true" if (expr is not None and _builder.CALL_EXPR.match(expr)) else "false"
                    cases.append(f"({'true' if direction == 'decode' else 'false'}, {'true' if codec else 'false'}, {b_m}, [{'; '.join(g if g != 'IUnknown' else 'IDef; IDef; IDef; IDef; IDef; IDef' for g in got)}])")
                    descr.append((direction, str(shape), bool(codec), b_m, got))
    finally:
        _builder.CodecCodeBuilder.compile = orig
        L.unload_module("c04_k16_probe")
    okf = ("fun (c: bool * bool * bool * list cinstr) => match c with (dec, b_codec, b_m, got) => "
           "prog_eqb (if dec then decode_prog b_codec b_m else encode_prog b_codec b_m) got end")
    bad, log = robust_bad_idx("c04_k40", "CodecWrap", "From VerifGen Require Import K40.", "", cases, okf,
                                "bool * bool * bool * list cinstr", shard=400, timeout=1800, needs=["theories/CodecWrapProofs.vo"])
    ctx.count(n=len(cases))
    if bad is None:
        ctx.correspondence(name, len(cases), -1, log)
        ctx.not_shown("translation validation K40", log)
    else:
        ctx.correspondence(name, len(cases), len(bad), str([descr[i] for i in bad[:6]]))
        if bad:
            ctx.not_shown("translation validation K40", str([descr[i] for i in bad[:6]]))


def k104a_validation(ctx: vlib.Ctx):
    """(T) the reading of the format entry points (kernel K104a, from the AST) against the live objects: what the codec
    classes really hand to CodecCodeBuilder (default dialect, library function), the builder params of the mixin
    classes, the one-shot aliases; and the library functions the model names (FmtEntries.lib_parse / lib_ser, proved
    equal to the rows in C04_entry_points_alike) against the functions fmt_law is validated for
    (c04lib.parse_doc / ser_doc)."""
    name = "K104a-entry-table-vs-live-objects"
    if not ctx.kernel_report.get("K104a", {}).get("ok"):
        ctx.correspondence(name, 0, -1, "kernel K104a not translated: " + str(ctx.kernel_report.get("K104a", {}).get("error")))
        return
    import importlib
    import importlib.util
    import inspect
    import os
    import re
    from mashumaro.codecs import _builder
    from mashumaro.dialect import Dialect
    spec = importlib.util.spec_from_file_location(
        "vk_k104a_live", os.path.join(os.path.dirname(vlib.COQ), "tools", "kernels", "k104a_format_entries.py"))
    k104a = importlib.util.module_from_spec(spec)
    spec.loader.exec_module(k104a)
    rows = k104a.rows()
    import json, orjson, yaml, msgpack, tomli_w, tomllib     # noqa: E401
    ns = {"json": json, "orjson": orjson, "yaml": yaml, "msgpack": msgpack, "tomli_w": tomli_w, "tomllib": tomllib}
    n, bad = 0, []

    def case(ok, what):
        nonlocal n
        n += 1
        if not ok:
            bad.append(what)

    def resolve(q):
        m = re.fullmatch(r'\(?(?:Some |DMergeInto )"([^"]+)"\)?', q)
        mod, _, attr = m.group(1).rpartition(".")
        return getattr(importlib.import_module(mod), attr)

    def fn_of_text(t):
        return eval("lambda _: " + (t if "(_" in t else t + "(_)"), dict(ns))

    trees = [{"a": 1, "b": [1.5, "x", True], "c": {"d": "\u00e9", "e": []}}, {}, {"k": {"z": -3}}]

    def same_fn(F, direction, live, text, what):
        g = fn_of_text(text)
        if "(" not in text:
            case(live is eval(text, dict(ns)), f"{what}: live function is not {text}")
        for b in trees + ([{"k": b"\x00\xff", "s": "\u00e9"}] if F == "msgpack" else []):
            try:
                if direction == "decode":
                    d = L.ser_doc(F, b)
                    case(live(d) == g(d) == L.parse_doc(F, d), f"{what}: {text} / live / c04lib.parse_doc differ on {d!r}")
                else:
                    case(live(b) == g(b) == L.ser_doc(F, b), f"{what}: {text} / live / c04lib.ser_doc differ on {b!r}")
            except Exception as e:
                case(False, f"{what}: {_exc(e)}")

    from mashumaro.helper import pass_through

    class XD_k104a(Dialect):      # a caller's dialect: one strategy the format dialects do not have, one msgpack has
        serialization_strategy = {bytes: {"serialize": bytes.hex, "deserialize": bytes.fromhex}, int: pass_through}

    rec = []
    orig_d, orig_e = _builder.CodecCodeBuilder.add_decode_method, _builder.CodecCodeBuilder.add_encode_method

    def spy_d(self, shape_type, obj, fn=None):
        rec.append((self.default_dialect, fn))
        return orig_d(self, shape_type, obj, fn)

    def spy_e(self, shape_type, obj, fn=None):
        rec.append((self.default_dialect, fn))
        return orig_e(self, shape_type, obj, fn)

    _builder.CodecCodeBuilder.add_decode_method, _builder.CodecCodeBuilder.add_encode_method = spy_d, spy_e
    try:
        for F in FORMATS:
            r = rows[F]
            cm = importlib.import_module(L.CODEC_MODS[F][0])
            case((L.CODEC_MODS[F][2], L.CODEC_MODS[F][1]) == (r["decoder_class"], r["encoder_class"]), f"{F}: codec class names")
            for direction, cname, rule, text in (("decode", r["decoder_class"], r["dec_rule"], r["dec_fn"]),
                                                 ("encode", r["encoder_class"], r["enc_rule"], r["enc_fn"])):
                for X in (None, XD_k104a):
                    rec.clear()
                    getattr(cm, cname)(typing_list_int(), **({"default_dialect": X} if X is not None else {}))
                    dd, fn = rec[-1]
                    what = f"{F} {cname}(default_dialect={getattr(X, '__name__', None)})"
                    if rule == "DAsIs":
                        case(dd is X, f"{what}: builder dialect is {dd!r}, rule DAsIs")
                    else:
                        cls = resolve(rule)
                        if X is None:
                            case(dd is cls, f"{what}: builder dialect is {dd!r}, not {cls.__name__}")
                        else:
                            exp = cls.merge(X)
                            case(dd is not cls and dd is not X and isinstance(dd, type) and issubclass(dd, Dialect)
                                 and dd.serialization_strategy == exp.serialization_strategy
                                 and getattr(dd, "omit_none", None) == getattr(exp, "omit_none", None),
                                 f"{what}: builder dialect is not {cls.__name__}.merge(X)")
                    case(fn is not None, f"{what}: no library function handed over")
                    if fn is not None and X is None:
                        same_fn(F, direction, fn, text, what)
            case(cm.decode is getattr(cm, r["oneshot"][0]) and cm.encode is getattr(cm, r["oneshot"][1]), f"{F}: one-shot aliases")
            mm = importlib.import_module(f"mashumaro.mixins.{F}")
            mcls = getattr(mm, r["mixin_class"])
            params = mcls.__dict__.get(f"_{r['mixin_class']}__mashumaro_builder_params")
            if r["m_kind"] == "MGenerated":
                case(isinstance(params, dict) and set(params) == {"packer", "unpacker"}, f"{F}: live builder params")
                if isinstance(params, dict):
                    pk, up = params["packer"], params["unpacker"]
                    case(pk.get("format_name") == r["m_pack_name"] and up.get("format_name") == r["m_unpack_name"], f"{F}: format names")
                    case(pk.get("dialect") is resolve(r["m_pack_dialect"]) and up.get("dialect") is resolve(r["m_unpack_dialect"]),
                         f"{F}: mixin dialect classes")
                    case(sorted(pk.get("encoder_kwargs", {})) == sorted(k.split("=")[0] for k in r["m_enc_kwargs"]), f"{F}: encoder kwargs")
                    same_fn(F, "encode", pk["encoder"], r["m_enc_fn"], f"{F} mixin encoder")
                    same_fn(F, "decode", up["decoder"], r["m_dec_fn"], f"{F} mixin decoder")
                case((L.MIXIN_METHODS[F][0], L.MIXIN_METHODS[F][1]) == ("to_" + r["m_pack_name"], "from_" + r["m_unpack_name"]),
                     f"{F}: generated method names")
            else:
                case(params is None, f"{F}: a plain mixin has builder params")
                enc = inspect.signature(getattr(mcls, "to_" + F)).parameters["encoder"].default
                dec = inspect.signature(getattr(mcls, "from_" + F)).parameters["decoder"].default
                same_fn(F, "encode", enc, r["m_enc_fn"], f"{F} mixin encoder default")
                same_fn(F, "decode", dec, r["m_dec_fn"], f"{F} mixin decoder default")
    except Exception as e:
        case(False, f"validation crashed: {_exc(e)} {traceback.format_exc()[-600:]}")
    finally:
        _builder.CodecCodeBuilder.add_decode_method, _builder.CodecCodeBuilder.add_encode_method = orig_d, orig_e
    ctx.count(n=n)
    ctx.correspondence(name, n, len(bad), "; ".join(bad[:6]))
    if bad:
        ctx.not_shown("translation validation K104a", "; ".join(bad[:6]))


def typing_list_int():
    import typing
    return typing.List[int]


KW_SRC = L.HEADER + """
import orjson
from mashumaro.config import ADD_DIALECT_SUPPORT

class XDK(Dialect):
    pass

@dataclass
class KW(%(mixin)s):
    b: int
    a: Dict[%(key)s, int]
    class Config(BaseConfig):
        code_generation_options = [ADD_DIALECT_SUPPORT]
%(opt)s
"""
KW_MIXINS = {"json": "DataClassJSONMixin", "orjson": "DataClassORJSONMixin", "yaml": "DataClassYAMLMixin",
             "msgpack": "DataClassMessagePackMixin", "toml": "DataClassTOMLMixin"}


def kwargs_correspondence(ctx: vlib.Ctx):
    """(M) the encoder keyword that reaches the format library from the generated to_<format> method - observed with a
    recording encoder on the real classes - against EncKwargs.kw_used over the generator's decisions as read from
    builder.py on this run (K104b) and the mixins' builder params (K104a), evaluated by vm_compute.
    Also the direct probe of the visible consequence of dropping them (fixed finding C04/orjson-options-ignored-with-call-dialect)."""
    name = "encoder-kwargs-model-vs-impl"
    kr = ctx.kernel_report
    if not (kr.get("K104b", {}).get("ok") and kr.get("K104a", {}).get("ok")):
        ctx.correspondence(name, 0, -1, "kernel K104a/K104b not translated: " + str(kr.get("K104b", {}).get("error")))
        return
    import orjson
    cases, descr = [], []
    configs = [None, orjson.OPT_SORT_KEYS, orjson.OPT_INDENT_2 | orjson.OPT_APPEND_NEWLINE]
    calls = [None, orjson.OPT_SORT_KEYS, orjson.OPT_INDENT_2, 0]
    for F in FORMATS:
        for ci, cfg in enumerate(configs if F == "orjson" else [None]):
            src = KW_SRC % {"mixin": KW_MIXINS[F], "key": "str",
                            "opt": f"        orjson_options = {cfg}" if cfg is not None else "        pass"}
            modname = f"c04_kw_{F}_{ci}"
            try:
                mod = L.load_module(src, modname)
                v = mod.KW(1, {"k": 2})
                cfg_eff = getattr(mod.KW.Config, "orjson_options", 0) if F == "orjson" else 0
                for rep in (0, 1):                      # second round: the per-dialect packer comes from the cache
                    for dg in (False, True):
                        for call in (calls if F == "orjson" else [None]):
                            rec = []

                            def spy(tree, **kw):
                                rec.append(kw)
                                return b""
                            kw = {"encoder": spy}
                            if dg:
                                kw["dialect"] = mod.XDK
                            if call is not None:
                                kw["orjson_options"] = call
                            try:
                                getattr(v, L.MIXIN_METHODS[F][0])(**kw)
                                if len(rec) != 1 or set(rec[0]) - {"option"}:
                                    obs = "(Some (-1)%Z)"       # never equal: the encoder must be called exactly once
                                else:
                                    obs = f"(Some ({rec[0]['option']})%Z)" if "option" in rec[0] else "None"
                            except Exception as e:
                                obs = "(Some (-2)%Z)"
                                rec.append(_exc(e))
                            cs = f"(Some ({call})%Z)" if call is not None else "None"
                            cases.append(f"({vlib.coq_bool(dg)}, {L.FMT[F]}, ({cfg_eff})%Z, {cs}, {obs})")
                            descr.append({"format": F, "dialect_given": dg, "config": cfg_eff, "call": call, "round": rep,
                                          "observed": str(rec)[:200]})
            except Exception as e:
                ctx.fail(f"encoder-kwargs probe class cannot be created/used: {_exc(e)}",
                         {"entry": "schema", "src": src, "observed": traceback.format_exc()[-1500:], "expected": "classes are created"},
                         {"kind": "schema-compile", "exc": type(e).__name__})
            finally:
                L.unload_module(modname)
    okf = ("fun (c: bool * fmt * Z * option Z * option Z) => match c with (dg, F, config, call, obs) => "
           "oz_eqb (kw_used (if dg then ret_dialect else ret_plain) (has_encoder F) (has_kwargs F) config call) obs end")
    bad, log = robust_bad_idx("c04_kw", "Fmt EncKwargs EncKwargsProofs", "From VerifGen Require Import K104a K104b.",
                                "Open Scope Z_scope.", cases, okf, "bool * fmt * Z * option Z * option Z", shard=400,
                                timeout=1800, needs=["theories/EncKwargsProofs.vo"])
    ctx.count(n=len(cases))
    if bad is None:
        ctx.correspondence(name, len(cases), -1, log)
        ctx.not_shown("correspondence " + name, log)
    else:
        ctx.correspondence(name, len(cases), len(bad), str([descr[i] for i in bad[:4]]))
        if bad:
            ctx.not_shown("correspondence " + name, str([descr[i] for i in bad[:4]]))
    # direct probe: a value that the configured encoder accepts (OPT_NON_STR_KEYS) must encode with and without `dialect=`
    src = KW_SRC % {"mixin": KW_MIXINS["orjson"], "key": "int", "opt": "        orjson_options = orjson.OPT_NON_STR_KEYS"}
    modname = "c04_kw_probe"
    try:
        mod = L.load_module(src, modname)
        v = mod.KW(1, {3: 2})
        want = v.to_jsonb()
        ctx.count(("kwargs-probe", "plain"))
        if mod.KW.from_json(want) != v:
            ctx.fail("orjson/mixin: OPT_NON_STR_KEYS document does not decode back", {"entry": "encoder-kwargs", "src": src,
                     "value_src": "KW(1, {3: 2})", "dialect": None, "observed": repr(want), "expected": "round trip"},
                     {"format": "orjson", "entry": "mixin", "phase": "roundtrip", "kind": "other"})
        ctx.count(("kwargs-probe", "dialect"))
        try:
            got = v.to_jsonb(dialect=mod.XDK)
            observed = repr(got)
        except Exception as e:
            got, observed = None, _exc(e)
        if got != want:
            ctx.fail(f"orjson/mixin[XDK]: to_jsonb(dialect=XDK) differs from to_jsonb() under Config.orjson_options: {observed[:120]}",
                     {"entry": "encoder-kwargs", "src": src, "value_src": "KW(1, {3: 2})", "dialect": "XDK",
                      "observed": observed, "expected": repr(want)},
                     {"format": "orjson", "entry": "mixin", "phase": "encoder-kwargs", "kind": "other", "dialect": "XDK"})
    except Exception as e:
        ctx.fail(f"encoder-kwargs probe class cannot be created/used: {_exc(e)}",
                 {"entry": "schema", "src": src, "observed": traceback.format_exc()[-1500:], "expected": "classes are created"},
                 {"kind": "schema-compile", "exc": type(e).__name__})
    finally:
        L.unload_module(modname)


MP_SRC = L.HEADER + """
class XDP(Dialect):
    pass

@dataclass
class Inner(%(mixin)s):
    z: Optional[datetime.date] = None

@dataclass
class MP(%(mixin)s):
    x: int
    y: Optional[bytes] = None
    zs: List[Inner] = field(default_factory=list)
%(cfg)s
"""


def classify_mixin_method(text: str, method: str, direction: str) -> dict:
    """the emitted module text of one generated method -> CodecWrap instructions per branch
    ({False: no call-time dialect, True: `dialect=` given}); unknown shapes become a never-equal program"""
    UNK = ["IDef"] * 6
    lines = text.splitlines()
    try:
        di = next(i for i, ln in enumerate(lines) if ln.startswith(f"def {method}("))
    except StopIteration:
        return {False: UNK, True: UNK}
    body = []
    for ln in lines[di + 1:]:
        if ln and not ln.startswith(" "):
            break
        body.append(ln)
    install = any(ln.strip() == f"setattr(cls, '{method}', {method})" or ln.strip() == f"setattr(_cls, '{method}', {method})"
                  for ln in lines)
    if "    if dialect is None:" in body and "    else:" in body:
        i0, i1 = body.index("    if dialect is None:"), body.index("    else:")
        branches = {False: body[i0 + 1:i1], True: body[i1 + 1:]}
        if any(ln.strip() for ln in body[:i0]):
            return {False: UNK, True: UNK}
    else:
        branches = {False: body, True: None}
    out = {}
    for dg, br in branches.items():
        if br is None:
            out[dg] = None
            continue
        st = [ln.strip() for ln in br if ln.strip()]
        rets = [ln for ln in st if ln.startswith("return ") or ln == "return"]
        prog = ["IDef"]
        if direction == "from":
            ndec = sum("decoder(" in ln for ln in st)
            if st and st[0] == "d = decoder(d)" and ndec == 1:
                prog.append("IPre")
            elif ndec != 0:
                prog += UNK
            prog.append("IReturnExpr" if rets and not any("decoder(" in r for r in rets) else "IDef")
        else:
            if rets and all(r.startswith("return encoder(") for r in rets) and sum("encoder(" in ln for ln in st) == len(rets):
                prog.append("IReturnPost")
            elif rets and not any("encoder(" in ln for ln in st):
                prog.append("IReturnExpr")
            else:
                prog += UNK
        prog.append("IInstallDef" if install else "IDef")
        out[dg] = prog
    return out


def mixin_program_correspondence(ctx: vlib.Ctx):
    """(M) the programs of the generated from_<format> / to_<format> methods (MixinWrap.mixin_from_prog / mixin_to_prog over
    K104a-c) against the module text the real code generator emits for real classes, per branch (with / without
    `dialect=`); plus: a recording decoder is called exactly once, with the document, on both branches."""
    name = "mixin-method-programs-vs-emitted-code"
    kr = ctx.kernel_report
    if not all(kr.get(k, {}).get("ok") for k in ("K104a", "K104b", "K104c")):
        ctx.correspondence(name, 0, -1, "kernels K104a/b/c not translated: " + str([kr.get(k, {}).get("error") for k in ("K104a", "K104b", "K104c")]))
        return
    from mashumaro.core.meta.code import builder as B
    rec = []
    orig = B.CodeBuilder.compile

    def spy(self):
        rec.append(self.lines.as_text())
        return orig(self)
    cases, descr, extra_bad = [], [], []
    B.CodeBuilder.compile = spy
    try:
        for F in ("orjson", "msgpack", "toml"):
            for dsupport in (False, True):
                cfg = "    class Config(BaseConfig):\n        code_generation_options = [ADD_DIALECT_SUPPORT]\n" if dsupport else ""
                src = MP_SRC % {"mixin": KW_MIXINS[F], "cfg": cfg}
                modname = f"c04_mp_{F}_{int(dsupport)}"
                rec.clear()
                try:
                    mod = L.load_module(src, modname)
                    v = mod.MP(1, None, [mod.Inner(None)]) if F == "toml" else mod.MP(1, b"ab", [mod.Inner(None)])
                    to_m, from_m = L.MIXIN_METHODS[F]
                    doc = getattr(v, to_m)()
                    getattr(mod.MP, from_m)(doc)
                    if dsupport:
                        getattr(mod.MP, from_m)(getattr(v, to_m)(dialect=mod.XDP), dialect=mod.XDP)
                    for direction, pub in (("from", from_m), ("to", to_m)):
                        method = f"__mashumaro_{pub}__"
                        texts = [t for t in rec if f"def {method}(" in t and "MP" in t or (f"def {method}(" in t)]
                        texts = [t for t in rec if f"def {method}(" in t]
                        if not texts:
                            cases.append(f"({vlib.coq_bool(direction == 'from')}, {L.FMT[F]}, false, [IInstallDirect])")
                            descr.append({"format": F, "method": method, "why": "no emitted text captured"})
                            continue
                        for t in texts:
                            if "dialect=dialect," in t.split(f"def {method}(")[0] or f"[dialect] = {method}" in t:
                                continue        # a per-dialect method (built without encoder / decoder): not the public method
                            for dg, prog in classify_mixin_method(t, method, direction).items():
                                if prog is None:
                                    continue
                                cases.append(f"({vlib.coq_bool(direction == 'from')}, {L.FMT[F]}, {vlib.coq_bool(dg)}, [{'; '.join(prog)}])")
                                descr.append({"format": F, "method": method, "dialect_branch": dg, "dialect_support": dsupport,
                                              "observed": prog, "text": t[:1500]})
                    # the decoder runs exactly once, on the document
                    for dg in ((False, True) if dsupport else (False,)):
                        seen = []

                        def dspy(d, _F=F):
                            seen.append(d)
                            return L.parse_doc(_F, d)
                        kw = {"decoder": dspy}
                        if dg:
                            kw["dialect"] = mod.XDP
                        back = getattr(mod.MP, from_m)(doc, **kw)
                        if seen != [doc] or back != v:
                            extra_bad.append({"format": F, "dialect_given": dg, "decoder_calls": len(seen), "same": back == v})
                        cases.append(f"(true, {L.FMT[F]}, {vlib.coq_bool(dg)}, "
                                     f"[IDef; {'IPre' if seen == [doc] else 'IDef'}; IReturnExpr; IInstallDef])")
                        descr.append({"format": F, "dialect_given": dg, "decoder_calls": len(seen)})
                except Exception as e:
                    ctx.fail(f"mixin program probe class cannot be created/used: {_exc(e)}",
                             {"entry": "schema", "src": src, "observed": traceback.format_exc()[-1500:], "expected": "classes are created"},
                             {"kind": "schema-compile", "exc": type(e).__name__})
                finally:
                    L.unload_module(modname)
    finally:
        B.CodeBuilder.compile = orig
    okf = ("fun (c: bool * fmt * bool * list cinstr) => match c with (is_from, F, dg, got) => "
           "match assoc_fmt F source_mixins with "
           "| Some m => prog_eqb (if is_from then mixin_from_prog m dg else mixin_to_prog m dg) got "
           "| None => false end end")
    bad, log = robust_bad_idx("c04_mp", "Fmt FmtDialectSource FmtEntries CodecWrap EncKwargs MixinWrap",
                                "From VerifGen Require Import K104a K104b K104c.", "", cases, okf,
                                "bool * fmt * bool * list cinstr", shard=400, timeout=1800, needs=["theories/MixinWrap.vo"])
    ctx.count(n=len(cases))
    if bad is None:
        ctx.correspondence(name, len(cases), -1, log)
        ctx.not_shown("correspondence " + name, log)
    else:
        detail = str([descr[i] for i in bad[:3]])[:2500]
        ctx.correspondence(name, len(cases), len(bad), detail)
        if bad:
            ctx.not_shown("correspondence " + name, detail)


def names_oracle(ctx: vlib.Ctx):
    """Direct check of the method-name clause on the real classes: one class carrying every format mixin
    gets one distinct generated method per (format, direction) and none is overwritten."""
    import itertools
    src = L.HEADER + """
@dataclass
class P(%s):
    a: int
    b: Optional[datetime.date] = None
"""
    for jk in ("DataClassJSONMixin", "DataClassORJSONMixin"):
        for perm in itertools.islice(itertools.permutations([jk, "DataClassYAMLMixin", "DataClassMessagePackMixin", "DataClassTOMLMixin"]), 0, 24, 5):
            s = src % ", ".join(perm)
            modname = "c04_names_probe"
            try:
                mod = L.load_module(s, modname)
                P = mod.P
                import datetime
                v = P(1, datetime.date(2020, 1, 2))
                for F in FORMATS:
                    if F in ("json", "orjson") and (F == "orjson") != (jk == "DataClassORJSONMixin"):
                        continue
                    ctx.count(("names", perm, F))
                    e = L.Entry(F, "mixin", P)
                    fails = check_case(e, v)
                    for phase, observed, expected in fails:
                        ctx.fail(f"{F}/mixin order {perm}: {phase} fails: {observed[:120]}",
                                 {"entry": "format-roundtrip", "src": s, "shape": "P", "root": "P", "format": F, "kind": "mixin",
                                  "value_src": "P(1, datetime.date(2020, 1, 2))", "phase": phase, "orjson_options": 0,
                                  "observed": observed, "expected": expected},
                                 {"format": F, "entry": "mixin", "phase": phase, "kind": "mixin-order"})
            except Exception as e:
                ctx.fail(f"class with mixins {perm} cannot be created/used: {_exc(e)}",
                         {"entry": "schema", "src": s, "observed": traceback.format_exc()[-1500:], "expected": "classes are created"},
                         {"kind": "schema-compile", "exc": type(e).__name__})
            finally:
                L.unload_module(modname)


C04_TARGETS = ["props/C04_formats.vo", "props/C04_names.vo", "props/C04_dialects.vo", "props/C04_codec.vo",
               "props/C04_entries.vo", "props/C04_kwargs.vo", "props/C04_mixins.vo", "theories/FmtCases.vo", "theories/K11Proofs.vo", "theories/CodecWrapProofs.vo"]


def prebuild(ctx: vlib.Ctx):
    """Build the whole cone of the C04 files first, with a generous time budget and a retry when the build was cut
    short by the machine (timeout / kill under load) rather than by a proof that does not check: the obligations
    registered afterwards (ctx.theorems re-checks each props file) must not depend on how loaded the machine is.
    A genuine proof failure is NOT masked: it fails again when the props file is rebuilt by ctx.theorems."""
    for attempt, jobs in enumerate((6, 2, 1)):
        br = vlib.coq_make(C04_TARGETS, timeout=2400, jobs=jobs)
        if br.ok:
            break
        cut_short = any(w in (br.log or "") for w in ("Killed", "Terminated", "Error 137", "Error 124", "Error 143",
                                                       "Cannot allocate memory", "Out of memory"))
        if br.failed_file is not None and not cut_short:
            break           # a file does not check: let the obligations report it
    ctx.coverage["prebuild"] = {"ok": br.ok, "attempts": attempt + 1, "secs": round(br.secs, 1)}


def run(ctx: vlib.Ctx):
    ctx.coverage["rule"] = (
        "oracle: generated modules (enums, NamedTuple, TypedDict, nested/inherited dataclasses with 4 format mixins) x "
        "edge-biased conforming values x 5 formats x {mixin, mixin-str, codec object, one-shot function}; a case is "
        "distinct by (shape annotation, format, entry point, value source); values outside the format's representable "
        "subset (c04lib.outside_subset, counted under coverage.outside_subset) are skipped for that format only. "
        "correspondence: model-grammar modules (scalars, bytes/bytearray, datetime-likes, UUID, Decimal, Enum, Any, List, "
        "Tuple[T,...], Set, FrozenSet, Dict[str,.], Optional, NamedTuple, TypedDict, nested / inherited / self-referencing "
        "dataclasses incl. typing.Self, discriminated unions) x values x 4 mixin "
        "formats x {no caller dialect, XD_empty, XD_bytes, XD_bytearray, XD_datetime at call time}, model run by vm_compute")
    ctx.assumptions += [
        "fmt_law (hypothesis of C04_roundtrip_partial / C04_doc_is_basic / C04_doc_exact): parse_F(ser_F(b)) = norm_F(b) "
        "for the third-party libraries json, orjson, yaml (CSafeLoader/CDumper), msgpack, tomli_w/tomllib, up to mapping "
        "key order (yaml sorts keys, toml writes tables last; Python dict equality ignores order) - validated on every "
        "document of the mixin path in the oracle and inside Coq on every correspondence case, never proved",
        "leaf_law: stdlib render/parse pairs (isoformat/fromisoformat, str/UUID, str/Decimal, encodebytes/decodebytes); "
        "render_wire: bytes and bytearray have the same base64 rendering",
        "hash_type_args returns md5(...).hexdigest() = 32 lowercase hex digits (checked syntactically by the K11 plugin "
        "and on sampled type arguments)",
    ]
    ctx.trusted += [
        "Fmt.v models: class table with nested / inherited(flattened) / self-referencing dataclasses (by name and typing.Self), "
        "NamedTuple (list form), total TypedDict, Enum (str/int values, no aliases), Tuple[T,...] / Tuple[T1..Tn] / Set / FrozenSet, "
        "discriminated unions (Annotated Discriminator, str tags), Literal tags, Any positions, lists, str-keyed mappings, "
        "Optional, text-rendered leaves, the format dialects merged with a caller's dialect (both directions). Plain unions, "
        "non-str mapping keys, class-level discriminators / base-typed polymorphic fields, "
        "namedtuple_as_dict, the effect of individual orjson option bits on the document are covered by the oracle only "
        "(which keyword value reaches the encoder is in the model: EncKwargs.v over K104b)",
        "the format libraries and the stdlib leaf codecs are oracles with assumed laws (hypotheses of the theorems)",
        "tools/kernels/k41_format_dialects.py (AST reader of the three dialect classes), tools/kernels/k40_codec_wrapper.py "
        "(symbolic walk of the codec wrapper generator) and coq/theories/CodecWrap.v (meaning of the emitted skeleton)",
        "tools/kernels/k104a_format_entries.py (AST reader of codecs/*.py and mixins/*.py: dialect rule, library function, "
        "builder params, plain method bodies), k104b_encoder_kwargs.py (return-statement decisions of the pack-method generator), "
        "k104c_mixin_decoder.py (structural recogniser: where the unpack-method generator emits `d = decoder(d)`; the program it "
        "emits is a fixed template once the structure is recognised) - fail-closed readers, validated against the live objects / "
        "the emitted method text on every run; coq/theories/FmtEntries.v (rule_lsem: meaning of a dialect rule), MixinWrap.v "
        "(programs of the mixin methods), EncKwargs.v (which keyword value reaches the encoder)",
        "tools/kernels/k11_method_names.py: translator extension (f-strings over str, +=, str-subclass construction) "
        "and coq/theories/PyK_names.v",
    ]
    prebuild(ctx)
    ctx.theorems("props/C04_formats.vo", ["C04_roundtrip_partial", "C04_roundtrip_refuted", "C04_format_dialects_coherent",
                                          "C04_doc_is_basic", "C04_doc_exact"])
    ctx.theorems("props/C04_names.vo", ["C04_method_names_injective", "C04_method_names_total",
                                        "C04_method_table_no_overwrite"], kernels=["K11"])
    ctx.theorems("props/C04_dialects.vo", ["C04_merge_strategies_is_model_clause", "C04_merge_keeps_format_omit_none",
                                           "C04_format_dialect_tables_match_source"], kernels=["K2", "K13", "K41"])
    ctx.theorems("props/C04_codec.vo", ["C04_codec_decode_is_unpack_after_predecoder",
                                        "C04_codec_encode_is_postencoder_after_pack"], kernels=["K40"])
    ctx.theorems("props/C04_entries.vo", ["C04_entry_points_alike", "C04_decoder_object_is_model_decode",
                                          "C04_encoder_object_is_model_encode", "C04_codec_objects_roundtrip"],
                 kernels=["K104a", "K40"])
    ctx.theorems("props/C04_kwargs.vo", ["C04_encoder_kwargs_reach_encoder", "C04_encoder_kwargs_with_dialect",
                                         "C04_method_document_keyword"],
                 kernels=["K104a", "K104b"])
    ctx.theorems("props/C04_mixins.vo", ["C04_mixin_from_is_model_decode", "C04_mixin_to_is_model_encode",
                                         "C04_mixin_methods_and_codec_objects_alike"],
                 kernels=["K104a", "K104b", "K104c", "K40"])
    ctx.checker_cmd = (f"make -C {vlib.COQ} props/C04_formats.vo props/C04_names.vo props/C04_dialects.vo props/C04_codec.vo "
                       "props/C04_entries.vo props/C04_kwargs.vo props/C04_mixins.vo (coqc 8.16.1, full .vo build); thorough: coqchk -o on the seven files")
    if not ctx.quick():     # second opinion on the compiled proofs
        rc, log, _ = vlib.run(["timeout", "900", "coqchk", "-o", "-silent", "-Q", "theories", "Verif", "-Q", "gen", "VerifGen",
                               "-Q", "props", "VerifProps", "VerifProps.C04_formats", "VerifProps.C04_names",
                               "VerifProps.C04_dialects", "VerifProps.C04_codec", "VerifProps.C04_entries", "VerifProps.C04_kwargs", "VerifProps.C04_mixins"], cwd=vlib.COQ, timeout=930)
        import re as _re
        m = _re.search(r"\* Axioms:\s*(.*?)\n\s*\n", log, _re.S)
        axioms = " ".join(m.group(1).split()) if m else "(summary not found)"
        ok = rc == 0 and axioms == "<none>"
        ctx.obligation("coqchk -o VerifProps.C04_formats C04_names C04_dialects C04_codec C04_entries C04_kwargs C04_mixins", ok, f"Axioms: {axioms} | " + log[-300:])
        ctx.trusted.append(f"coqchk -o on the C04 props files: Axioms: {axioms}")
        if not ok:
            ctx.not_shown("coqchk on the C04 props", log[-1000:])
    k11_validation(ctx)
    k40_validation(ctx)
    k104a_validation(ctx)
    kwargs_correspondence(ctx)
    mixin_program_correspondence(ctx)
    correspondence(ctx)
    broken = bool(ctx.unshown)
    names_oracle(ctx)
    n_s, n_v = ctx.budget(140, 700), ctx.budget(5, 8)
    if broken:      # a proof obligation or the correspondence broke: search harder for a failing input
        n_s = ctx.budget(260, 3000)
    law_fail = oracle(ctx, n_s, n_v)
    if law_fail:
        ctx.not_shown("fmt_law validation (assumption about the format libraries)", str(law_fail[:5]))
    ctx.coverage["fmt_law_violations"] = len(law_fail)
    if orjson_time_defect_present():
        ctx.notes.append("installed orjson renders datetime.time with 10000<=microsecond<=99999 with 5 fractional digits "
                         "(third-party defect): fmt_law does not hold for those native leaves; such cases are classified "
                         "as known finding C04/orjson-library-time-microseconds-5-digits")


# ---------------------------------------------------------------------------
# replay
# ---------------------------------------------------------------------------

def replay(rep: dict) -> int:
    if rep.get("entry") == "format-roundtrip":
        mod = L.load_module(rep["src"], "c04_replay")
        ns = mod.__dict__
        v = eval(rep["value_src"], ns)
        shape = eval(rep["shape"], ns)
        F, kind = rep["format"], rep["kind"]
        xd = ns[rep["dialect"]] if rep.get("dialect") else None
        try:
            entry = L.Entry(F, kind, ns[rep["root"]] if kind in ("mixin", "mixin-str") else shape, dialect=xd)
        except Exception as e:
            print("  build:", _exc(e))
            print("REPRODUCED" if rep["phase"] == "build" else "not reproduced (the codec objects cannot be built)")
            return 1 if rep["phase"] == "build" else 0
        fails = check_case(entry, v)
        if kind == "mixin":
            comp, law = check_composition(entry, v, rep.get("orjson_options", 0) if F == "orjson" else 0)
            fails += [c_ for c_ in comp if not c_[0].startswith("observation-")]
            try:
                fails += check_alike(entry, L.Entry(F, "codec", shape, dialect=xd), v)
            except Exception as e:
                print("  (codec side cannot be built:", _exc(e), ")")
        print("shape", rep["shape"], "format", F, "entry", kind, "dialect", rep.get("dialect"))
        print("value", rep["value_src"][:500])
        for phase, observed, expected in fails:
            print(f"  {phase}: observed {observed[:300]} | expected {expected[:300]}")
        if any(ph == rep["phase"] for ph, _, _ in fails) or (fails and rep["phase"] == "orjson_options-override"):
            print("REPRODUCED")
            return 1
        print("not reproduced")
        return 0
    if rep.get("entry") == "encoder-kwargs":
        mod = L.load_module(rep["src"], "c04_replay")
        ns = mod.__dict__
        v = eval(rep["value_src"], ns)
        want = v.to_jsonb()
        try:
            got = v.to_jsonb(dialect=ns[rep["dialect"]]) if rep.get("dialect") else want
            print("to_jsonb():", want, "| to_jsonb(dialect=..):", got)
        except Exception as e:
            got = None
            print("to_jsonb():", want, "| to_jsonb(dialect=..) raises", _exc(e))
        if got != want or ns[rep["root"] if "root" in rep else "KW"].from_json(want) != v:
            print("REPRODUCED")
            return 1
        print("not reproduced")
        return 0
    if rep.get("entry") == "schema":
        try:
            L.load_module(rep["src"], "c04_replay")
        except Exception as e:
            print("REPRODUCED", _exc(e))
            return 1
        print("not reproduced")
        return 0
    print("unknown replay kind")
    return 2
