"""C05 - failures surface only as the documented exceptions and name the culprit.

1. theorems of coq/props/C05_errors.v (model coq/theories/Errs.v, parametric in every decoder)
2. (M) correspondence: Errs.from_dict / union_run / discr_run / discr_nofield evaluated by vm_compute on the
   same schemas and inputs as the real from_dict / BasicDecoder.decode (per-field decoder outcomes are
   obtained from the real BasicDecoder(field_type), so the model stays parametric), plus a structural
   check of the captured generated source (bare `except:` per field, AttributeError wrapper, .get only)
3. direct oracle (always): exception whitelist, independent first-bad-field, attributes, deep-equal input
"""
from __future__ import annotations

import ast
import copy
import dataclasses
import typing

from harness import vlib
from harness.vlib import coq_str, coq_list, coq_bool
from harness.props import c05_gen as G
from harness.props import c05_oracle as O

THEOREMS = [
    "C05_outcomes", "C05_value_error_iff", "C05_hooks",
    "C05_first_bad", "C05_all_good_ok", "C05_extra_exact",
    "C05_no_silent_default_partial", "C05_union_outcomes", "C05_union_exceptions",
    "C05_union_rejects_garbage_partial", "C05_union_rejects_garbage_refuted", "C05_discr", "C05_discr_nofield",
    "C05_discr_call_history_free", "C05_discr_history", "C05_discr_variant_outcome_propagates",
]

TYPED_THEOREMS = [
    "C05_typed_link", "C05_typed_outcomes", "C05_typed_first_bad", "C05_typed_extra_exact", "C05_typed_cause",
    "C05_typed_nested_cause",
    "C05_list_exn", "C05_list_ok", "C05_list_not_iterable", "C05_dict_exn", "C05_dict_not_mapping", "C05_tuplefix_exn",
    "C05_tupleu_var_exn", "C05_typeddict_exn", "C05_namedtuple_no_silent_default", "C05_namedtuple_exn",
]

UNION_MEMBERS = ["int", "float", "bool", "str", "None", "date", "UUID", "List[int]", "Dict[str, int]", "Inner",
                 "Color", "Any", "Tuple[int, str]"]
SCALARS = {"int": "SInt", "float": "SFloat", "bool": "SBool", "str": "SStr", "None": "SNone"}

PROBES = [
    # known findings (P_e0 / P_e0f: repaired by abe4c99, kept as regression probes): minimal reproducers, run on every execution
    ({"cls": "P_union", "source": "@dataclass\nclass P_union(DataClassDictMixin):\n    u: Union[int, None, date] = 0\n",
      "fields": [{"name": "u", "type": "Union[int, None, date]", "mode": "def", "alias": None}], "mixin": True,
      "forbid": False, "allow_nba": False, "discr": None, "discr_keys": []}, {"u": "garbage"}),
    ({"cls": "P_e0", "source": "@dataclass\nclass P_e0(DataClassDictMixin):\n    pass\n", "fields": [], "mixin": True,
      "forbid": False, "allow_nba": False, "discr": None, "discr_keys": []}, 5),
    ({"cls": "P_e0f", "source": "@dataclass\nclass P_e0f(DataClassDictMixin):\n    class Config(BaseConfig):\n"
                                "        forbid_extra_keys = True\n", "fields": [], "mixin": True,
      "forbid": True, "allow_nba": False, "discr": None, "discr_keys": []}, {"a": 1}),
    ({"cls": "P_none", "source": "@dataclass\nclass P_none(DataClassDictMixin):\n    n: None\n",
      "fields": [{"name": "n", "type": "None", "mode": "req", "alias": None}], "mixin": True,
      "forbid": False, "allow_nba": False, "discr": None, "discr_keys": []}, {"n": "zz"}),
    ({"cls": "P_iv", "source": "@dataclass\nclass P_iv(DataClassDictMixin):\n    x: int\n    y: InitVar[int]\n"
                               "    def __post_init__(self, y):\n        pass\n",
      "fields": [{"name": "x", "type": "int", "mode": "req", "alias": None}], "mixin": True, "initvar": True,
      "forbid": False, "allow_nba": False, "discr": None, "discr_keys": []}, {"x": 1, "y": 2}),
    ({"cls": "P_xmod", "source": "@dataclass\nclass P_xmod(DataClassDictMixin):\n"
                                 "    v: Annotated[Var, Discriminator(field='kind', include_subtypes=True)]\n",
      "fields": [{"name": "v", "type": "Annotated[Var, Discriminator(field='kind', include_subtypes=True)]", "mode": "req",
                  "alias": None}], "mixin": True, "own_module": True,
      "forbid": False, "allow_nba": False, "discr": None, "discr_keys": []}, {"v": {"kind": "v1"}}),
    # a field typed with a PEP 695 alias on the two error paths (regression probes of fix 3dfbd5e: the alias was rendered
    # as its bare name, unbound in the generated code: NameError instead of MissingField / InvalidFieldValue)
    ({"cls": "P_alias", "source": "@dataclass\nclass P_alias(DataClassDictMixin):\n    o: OptI\n",
      "fields": [{"name": "o", "type": "OptI", "mode": "req", "alias": None}], "mixin": True,
      "forbid": False, "allow_nba": False, "discr": None, "discr_keys": []}, {}),
    ({"cls": "P_alias2", "source": "@dataclass\nclass P_alias2(DataClassDictMixin):\n    o: OptI\n",
      "fields": [{"name": "o", "type": "OptI", "mode": "req", "alias": None}], "mixin": True,
      "forbid": False, "allow_nba": False, "discr": None, "discr_keys": []}, {"o": "zz"}),
]
DISCR_PROBES = [[1], {"type": [1]}]

# the theorems quantify over decoders raising ANY exception class; real leaf decoders only raise a few.
# A user-supplied deserializer that raises on demand exercises the per-field handler with the other classes.
HOSTILE_SRC = '''
class Boom(BaseException):
    pass
def hostile(v):
    if v == "base": raise Boom()
    if v == "genexit": raise GeneratorExit()
    if v == "sysexit": raise SystemExit(3)
    if v == "attr": raise AttributeError("x")
    if v == "key": raise KeyError("x")
    if v == "lookup": raise LookupError("x")
    if v == "stopiter": raise StopIteration()
    if v == "assert": raise AssertionError()
    if v == "recursion": raise RecursionError()
    if v == "missingfield": raise MissingField("q", int, Inner)
    if v == "extrakeys": raise ExtraKeysError({"q"}, Inner)
    if v == "nodiscr": raise MissingDiscriminatorError("q")
    return v
from mashumaro.exceptions import MissingField, ExtraKeysError, MissingDiscriminatorError
@dataclass
class P_hostile(DataClassDictMixin):
    a: int = 0
    h: str = field(default="", metadata={"deserialize": hostile})
    z: int = 0
@dataclass
class P_hostile_req(DataClassDictMixin):
    h: str = field(metadata={"deserialize": hostile})
    z: int
    class Config(BaseConfig):
        forbid_extra_keys = True
'''
HOOKS_SRC = '''
@dataclass
class P_hooks(DataClassDictMixin):
    x: int
    y: int = 0
    @classmethod
    def __pre_deserialize__(cls, d):
        if isinstance(d, dict) and "attr" in d:
            raise AttributeError("user")
        return d["wrapped"]
    def __post_init__(self):
        if self.x < 0:
            raise RuntimeError("neg")
    @classmethod
    def __post_deserialize__(cls, obj):
        if obj.y == 13:
            raise AttributeError("unlucky")
        if obj.y == 14:
            raise KeyError("k")
        return obj
'''
HOOKS_SCHEMA = {"cls": "P_hooks", "source": HOOKS_SRC, "mixin": True, "forbid": False, "allow_nba": False, "discr": None,
                "discr_keys": [], "fields": [{"name": "x", "type": "int", "mode": "req", "alias": None},
                                             {"name": "y", "type": "int", "mode": "def", "alias": None}]}
HOOKS_INPUTS = [{"wrapped": {"x": 1}}, {"wrapped": {"x": 1, "y": 2}}, {"wrapped": {"x": -1}}, {"wrapped": {"x": 1, "y": 13}},
                {"wrapped": {"x": 1, "y": 14}}, {"wrapped": [1]}, {"wrapped": None}, {"wrapped": {"y": 1}}, {"wrapped": {"x": "q"}},
                {"wrapped": {"x": 1, "y": [1]}}, {}, {"x": 1}, [1], "abc", None, 5, {"attr": 1}, {"attr": 1, "wrapped": {"x": 1}},
                {"wrapped": {"x": -1, "y": 13}}, {"wrapped": {"x": "q", "y": "r"}}, {"wrapped": "s"}, {"wrapped": {}}]


def hooks_cases(ctx):
    """Model with user hooks: what is before / inside / after the try (C05_hooks)."""
    mod = G.build_module(HOOKS_SCHEMA)
    cls = mod.P_hooks
    ref = O.Ref(mod)
    metas = O.field_meta(HOOKS_SCHEMA, mod)
    cases, labels = [], []
    for d0 in HOOKS_INPUTS:
        for entry, fn in entries(HOOKS_SCHEMA, mod):
            pre_out, _, pre_exc, d1 = G.outcome(cls.__pre_deserialize__, copy.deepcopy(d0), inst_enc=G.enc)
            pre_tbl = [(G.enc(d0), pre_out)]
            post_tbl = []
            fterms = []
            vals, all_ok = {}, pre_exc is None and isinstance(d1, dict)
            for m in metas:
                tbl = []
                if pre_exc is None and isinstance(d1, dict):
                    v = O.lookup(d1, m)
                    if v is O.MISSING:
                        if m["has_default"]:
                            vals[m["name"]] = m["default"]
                        else:
                            all_ok = False
                    else:
                        tbl.append((G.enc(v), dec_outcome_term(ref, ref.typ(m["type"]), v)))
                        st, r = ref.decode(ref.typ(m["type"]), v)
                        all_ok = all_ok and st == "ok"
                        vals[m["name"]] = r
                dflt = f"(Some {G.enc(m['default'])})" if m["has_default"] else "None"
                fterms.append(f"(mk_field {coq_str(m['name'])} {coq_str(m['key'])} None {dflt} false false {table_term(tbl)})")
            if all_ok:
                key = "(VObj \"P_hooks\" " + coq_list([f"({coq_str(m['name'])}, {G.enc(vals[m['name']])})" for m in metas]) + ")"

                def user_post(_):
                    return cls.__post_deserialize__(cls(**vals))      # __post_init__, then the post hook: user code only
                post_out, _, _, _ = G.outcome(user_post, None, inst_enc=enc_result)
                post_tbl.append((key, post_out))
            cterm = (f"(mk_class_hooks \"P_hooks\" {coq_list(fterms)} false [] (Some {table_term(pre_tbl)}) "
                     f"(Some {table_term(post_tbl)}))")
            exp, summ, exc, _ = real_outcome(fn, copy.deepcopy(d0))
            ctx.count(("hooks", entry, summ, repr(d0)[:30]))
            cases.append(f"({cterm}, {G.enc(d0)}, {exp})")
            labels.append(f"P_hooks.{entry}({d0!r})")
    return cases, labels


# ---------------------------------------------------------------------------
# discriminated hierarchies with call histories (lazy tag registry)
# ---------------------------------------------------------------------------

def _rename(term: str, h: dict) -> str:
    """Outcomes of the twin hierarchy (classes T<idx>...) expressed with the names of the real one (H<idx>...)."""
    return term.replace(f'"T{h["idx"]}', f'"H{h["idx"]}')


def hier_entry(h, mod, prefix):
    """A FRESH entry point (own, empty registry) for the hierarchy materialised under prefix:
    call(d, with_dialect) -> result; second component: the failure is wrapped by a holder field."""
    base = getattr(mod, f"{prefix}{h['idx']}")
    fl = h["flavour"]
    kw = lambda wd: ({"dialect": mod.NoopDialect} if wd else {})   # noqa: E731
    if fl == "config-mixin":
        return (lambda d, wd=False: base.from_dict(d, **kw(wd))), False
    if fl == "config-msgpack":
        import msgpack
        return (lambda d, wd=False: base.from_msgpack(msgpack.packb(d), **kw(wd))), False
    if fl == "config-orjson":
        import json
        return (lambda d, wd=False: base.from_json(json.dumps(d), **kw(wd))), False
    if fl == "config-codec":
        dec = mod.BasicDecoder(base).decode
        return (lambda d, wd=False: dec(d)), False
    ann = typing.Annotated[base, mod.Discriminator(field=h["field"], include_subtypes=True,
                                                   **({"variant_tagger_fn": mod.c05_tagger} if h.get("tagger") else {}))]
    if fl == "annotated-codec":
        dec = mod.BasicDecoder(ann).decode
        return (lambda d, wd=False: dec(d)), False
    holder = getattr(mod, f"{prefix}{h['idx']}Holder")
    return (lambda d, wd=False: holder.from_dict({"v": d})), True


def unwrap_field(fn, d, wrapped, wd=False):
    """Outcome of the dispatch itself.  In the annotated-field flavour the holder turns every failure into
    InvalidFieldValue('v', d, Holder) (checked here); the dispatch's own exception is its __context__."""
    problems = []
    try:
        r = fn(d, wd)
        exc = None
    except BaseException as e:  # noqa: BLE001
        if isinstance(e, (KeyboardInterrupt, SystemExit, MemoryError)):
            raise
        r, exc = None, e
    if wrapped:
        if exc is None:
            r = r.v
        else:
            if type(exc).__name__ != "InvalidFieldValue" or exc.field_name != "v" or exc.field_value is not d:
                problems.append(f"holder raised {type(exc).__name__}({O._attrs(exc)}) instead of InvalidFieldValue('v', <input>, Holder)")
            elif exc.__context__ is not None:
                exc = exc.__context__
    return r, exc, problems


def outcome_term(r, exc, key_order=None) -> str:
    if exc is not None:
        return f"(Exn {G.enc_exn(exc, key_order)})"
    return f"(Ok {enc_result(r)})"


def fmt_safe(x):
    """Inputs handed to a wire format must be representable in it (64-bit ints, str keys): stated restriction of the
    format flavours; the same values are still used with the dict entry points."""
    if type(x) is int and not -2 ** 63 <= x < 2 ** 63:
        return 42
    if isinstance(x, list):
        return [fmt_safe(i) for i in x]
    if isinstance(x, dict):
        return {(k if isinstance(k, str) else str(k)): fmt_safe(v) for k, v in x.items()}
    return x


def hier_section(ctx, rng, n_hier: int):
    """Oracle + correspondence for the family: the chosen variant's own decoding fails (or succeeds) on the first
    call for a tag vs later calls, through Config discriminator (mixin, codec), Annotated discriminator (codec root,
    holder field)."""
    cases, labels = [], []
    pm = G.prelude_module()
    for k in range(n_hier):
        h = G.gen_hierarchy(rng, k)
        src_real, src_twin = G.hier_source(h, "H"), G.hier_source(h, "T")
        try:
            exec(compile(src_real + src_twin, f"<c05 hier {k}>", "exec"), pm.__dict__)
            fn, wrapped = hier_entry(h, pm, "H")
        except Exception as e:  # noqa: BLE001
            build_failure(ctx, {"cls": f"H{k}", "source": src_real, "hier": h, "fields": [], "mixin": True, "forbid": False,
                                "allow_nba": False, "discr": h["field"], "discr_keys": []}, e)
            continue
        inputs = G.hier_inputs(rng, h)
        if h["flavour"] in ("config-msgpack", "config-orjson"):
            inputs = [fmt_safe(d) for d in inputs]
        walk = G.hier_walk(h)
        ctx.hist("hier_flavour", h["flavour"] + ("+tagger" if h.get("tagger") else ""))
        vterms_tables = {i: [] for i in walk}
        observed = []
        schema = {"cls": f"H{h['idx']}", "source": src_real, "hier": h, "fields": [], "mixin": True, "forbid": False,
                  "allow_nba": False, "discr": h["field"], "discr_keys": []}
        flags = [bool(h.get("dialect_support")) and rng.random() < 0.6 for _ in inputs]
        by_format = h["flavour"] in ("config-msgpack", "config-orjson")
        for n, d in enumerate(inputs):
            before = copy.deepcopy(d)
            r, exc, problems = unwrap_field(fn, d, wrapped, flags[n])
            key_order = list(d.keys()) if isinstance(d, dict) else None
            obs_term = outcome_term(r, exc, key_order)
            observed.append(obs_term)
            obs = f"{type(exc).__name__}({O._attrs(exc)})" if exc is not None else f"returned {r!r}"[:200]
            ctx.count(("hier", h["flavour"], n == 0, type(exc).__name__ if exc else "ok"))
            ctx.hist("hier_outcomes", ("first:" if n == 0 else "later:") + (type(exc).__name__ if exc else "ok"))
            # -- expected, from the TWIN hierarchy (no shared registry / compiled state), history free
            exp_term, exp_txt, kind = None, "", "discr-wrong-outcome"
            if not O.is_mapping(d):
                exp_txt = "ValueError"
                if exc is not None and type(exc).__name__ == "TypeError":
                    kind = "discriminator-nonmapping"
                ok = exc is not None and type(exc).__name__ == "ValueError"
            elif h["field"] not in d:
                exp_txt = f"MissingDiscriminatorError({h['field']!r})"
                ok = exc is not None and type(exc).__name__ == "MissingDiscriminatorError" and exc.field_name == h["field"]
            elif not O._hashable(d[h["field"]]):
                exp_txt = "SuitableVariantNotFoundError"
                if exc is not None and type(exc).__name__ == "TypeError":
                    kind = "discriminator-unhashable-tag"
                ok = exc is not None and type(exc).__name__ == "SuitableVariantNotFoundError"
            else:
                tag = d[h["field"]]
                owner = None
                for i in walk:
                    if type(tag) is str and tag in G.tags_of(h, i):
                        owner = i
                if owner is None:
                    exp_txt = "SuitableVariantNotFoundError"
                    ok = exc is not None and type(exc).__name__ == "SuitableVariantNotFoundError"
                else:
                    tcls = getattr(pm, f"T{h['idx']}{h['classes'][owner]['suffix']}")
                    dd = copy.deepcopy(d)
                    try:
                        tr, texc = pm.BasicDecoder(tcls).decode(dd), None
                    except Exception as e:  # noqa: BLE001
                        tr, texc = None, e
                    exp_term = _rename(outcome_term(tr, texc, key_order), h)
                    exp_txt = f"the variant's own outcome {type(texc).__name__ + '(' + O._attrs(texc) + ')' if texc else repr(tr)}"[:200]
                    ok = exp_term == (_rename(obs_term, h) if dd == d else obs_term)
                    if texc is not None and type(texc).__name__ == "InvalidFieldValue" and exc is not None and \
                            type(exc).__name__ == "InvalidFieldValue" and ok:
                        # the offending input OBJECT is reported (twin ran on a copy)
                        m = getattr(exc, "field_name", None)
                        if isinstance(d, dict) and m in d and exc.field_value is not d[m] and not by_format:
                            ok = False
                            exp_txt += " with field_value being the input object"
            fails = list(problems)
            if not ok:
                fails.append(f"call #{n + 1} on a fresh hierarchy ({h['flavour']}{', dialect=NoopDialect' if flags[n] else ''}, "
                             f"{G.pyexpr(d)[:120]}): observed {obs}, "
                             f"expected {exp_txt}")
            if not O.deep_same(before, d):
                fails.append(f"input object was modified: {before!r} -> {d!r}"[:300])
                kind = "input-modified"
            for what in fails:
                ctx.fail(f"H{h['idx']}: {what}"[:500],
                         {"entry": "hier:" + h["flavour"], "schema": schema, "prelude": "harness.props.c05_gen.PRELUDE",
                          "input_expr": repr([[x, f] for x, f in zip(inputs[:n + 1], flags)]), "observed": obs,
                          "expected": exp_txt},
                         {"kind": kind, "entry": h["flavour"], "first_call": n == 0})
            # -- model tables: every variant's own decoder on this input (twin classes)
            for i in walk:
                tcls = getattr(pm, f"T{h['idx']}{h['classes'][i]['suffix']}")
                dd = copy.deepcopy(d)
                try:
                    tr, texc = pm.BasicDecoder(tcls).decode(dd), None
                except Exception as e:  # noqa: BLE001
                    tr, texc = None, e
                vterms_tables[i].append((G.enc(d), _rename(outcome_term(tr, texc, key_order), h)))
        vterms = []
        for i in walk:
            tags = G.tags_of(h, i)
            for tg in tags:      # a tagger returning a list registers the variant under every element, in order
                vterms.append(f"(Some {coq_str(tg)}, table_fun {table_term(vterms_tables[i])})")
            if not tags:
                vterms.append(f"(None, table_fun {table_term(vterms_tables[i])})")
        cases.append(f"({coq_str(h['field'])}, {coq_list(vterms)}, {coq_list([G.enc(d) for d in inputs])}, {coq_list(observed)})")
        labels.append(f"H{k} {h['flavour']} history {inputs!r}"[:200])
        if k < 2:
            ctx.sample({"hierarchy": src_real, "flavour": h["flavour"], "history": repr(inputs)[:300]}, limit=8)
    return cases, labels


HOSTILE_VALUES = ["base", "genexit", "sysexit", "attr", "key", "lookup", "stopiter", "assert", "recursion",
                  "missingfield", "extrakeys", "nodiscr"]


def hostile_once(mod, cls_name: str, entry: str, v: str):
    """None if the per-field handler turns the decoder's exception into InvalidFieldValue('h', v, cls), else a description."""
    cls = getattr(mod, cls_name)
    fn = cls.from_dict if entry == "from_dict" else mod.BasicDecoder(cls).decode
    d = {"h": v, "z": "bad", "a": 1} if cls_name == "P_hostile" else {"h": v, "z": "bad"}
    try:
        r = fn(d)
        return f"returned {r!r}"
    except BaseException as e:  # noqa: BLE001
        if isinstance(e, (KeyboardInterrupt, MemoryError)):
            raise
        if type(e).__name__ == "InvalidFieldValue" and e.field_name == "h" and e.field_value is d["h"] and e.holder_class is cls:
            return None
        return f"{type(e).__name__}({O._attrs(e)}): {O.str_safe(e)[:80]}"


def hostile_probe(ctx):
    mod = G.build_module({"cls": "P_hostile", "source": HOSTILE_SRC})
    for cls_name in ("P_hostile", "P_hostile_req"):
        for entry in ("from_dict", "BasicDecoder.decode"):
            for v in HOSTILE_VALUES:
                ctx.count(("hostile", cls_name, entry, v))
                bad = hostile_once(mod, cls_name, entry, v)
                if bad is not None:
                    ctx.fail(f"{cls_name}.{entry}: field decoder raising on {v!r} is not reported as InvalidFieldValue('h', {v!r}, {cls_name}): {bad}",
                             {"entry": "hostile:" + entry, "schema": {"cls": cls_name, "source": HOSTILE_SRC}, "input_expr": repr(v),
                              "prelude": "harness.props.c05_gen.PRELUDE", "observed": bad,
                              "expected": f"InvalidFieldValue('h', {v!r}, {cls_name})"},
                             {"kind": "hostile-decoder-leak", "entry": entry, "raised": v})


# ---------------------------------------------------------------------------
# running the real implementation
# ---------------------------------------------------------------------------

def entries(schema, mod):
    cls = getattr(mod, schema["cls"])
    out = []
    if schema["mixin"]:
        out.append(("from_dict", cls.from_dict))
    out.append(("BasicDecoder.decode", mod.BasicDecoder(cls).decode))
    return out


def enc_result(r) -> str:
    if dataclasses.is_dataclass(r) and not isinstance(r, type):
        names = [f.name for f in dataclasses.fields(r) if f.init]
        return G.enc_instance(type(r).__name__, r, names)
    return G.enc(r)


def real_outcome(fn, d):
    key_order = list(d.keys()) if isinstance(d, dict) else None
    return G.outcome(fn, d, key_order=key_order, inst_enc=enc_result)


def table_term(pairs) -> str:
    return coq_list([f"({k}, {v})" for k, v in pairs])


def dec_outcome_term(ref, t, v) -> str:
    st, r = ref.decode(t, v)
    if st == "ok":
        return f"(Ok {G.enc(r)})"
    return f"(Exn {G.enc_exn(r)})"


def class_case(schema, mod, ref, metas, fn, d) -> str | None:
    """One correspondence case for Errs.from_dict; None when the input is outside the model's value universe."""
    if type(d).__name__ == "mappingproxy":
        return None
    fterms = []
    for m in metas:
        tbl = []
        if isinstance(d, dict):
            v = O.lookup(d, m)
            if v is not O.MISSING and not m["ident"] and not (m["nullable"] and v is None):
                tbl.append((G.enc(v), dec_outcome_term(ref, ref.typ(m["type"]), v)))
        dflt = f"(Some {G.enc(m['default'])})" if m["has_default"] else "None"
        key2 = f"(Some {coq_str(m['key2'])})" if m["key2"] else "None"
        fterms.append(f"(mk_field {coq_str(m['name'])} {coq_str(m['key'])} {key2} {dflt} "
                      f"{coq_bool(m['nullable'])} {coq_bool(m['ident'])} {table_term(tbl)})")
    cterm = (f"(mk_class {coq_str(schema['cls'])} {coq_list(fterms)} {coq_bool(schema['forbid'])} "
             f"{coq_list([coq_str(k) for k in schema.get('discr_keys', [])])})")
    exp, _, _, _ = real_outcome(fn, copy.deepcopy(d))
    return f"({cterm}, {G.enc(d)}, {exp})"


def union_case(mod, ref, members, v):
    t = ref.typ("Union[" + ", ".join(members) + "]")
    ms = []
    for m in members:
        if m in SCALARS:
            ms.append(f"(UExact {SCALARS[m]} (table_fun {table_term([(G.enc(v), dec_outcome_term(ref, ref.typ(m), v))])}))")
        elif m == "Any":
            ms.append("UIdent")
        else:
            ms.append(f"(UTry (table_fun {table_term([(G.enc(v), dec_outcome_term(ref, ref.typ(m), v))])}))")
    exp, _, _, _ = G.outcome(ref.decoder(t).decode, copy.deepcopy(v), inst_enc=G.enc)
    return f"({coq_list(ms)}, {G.enc(v)}, {exp})"


def discr_case(schema, mod, fn, d):
    reg = []
    for tag, vn in schema["variants"]:
        vfn = mod.BasicDecoder(getattr(mod, vn)).decode
        out, _, _, _ = real_outcome(vfn, copy.deepcopy(d))
        tf = f"(table_fun {table_term([(G.enc(d), out)])})"
        reg.append(tf if tag is None else f"({G.enc(tag)}, {tf})")
    exp, _, _, _ = real_outcome(fn, copy.deepcopy(d))
    if schema["discr"] == "":
        return f"({coq_list(reg)}, {G.enc(d)}, {exp})"
    return f"({coq_str(schema['discr'])}, {coq_list(reg)}, {G.enc(d)}, {exp})"


# ---------------------------------------------------------------------------
# structural tie: shape of the generated from_dict source (captured without touching /repo)
# ---------------------------------------------------------------------------

class Recorder:
    def __init__(self):
        self.programs = []

    def __enter__(self):
        import builtins
        import mashumaro.core.meta.code.builder as b
        self.b = b
        rec = self

        def recording_exec(code, *a, **k):
            if isinstance(code, str):
                rec.programs.append(code)
            return builtins.exec(code, *a, **k)
        b.exec = recording_exec
        return self

    def __exit__(self, *a):
        try:
            del self.b.exec
        except AttributeError:
            pass


def shape_problems(src: str, field_names: list[str], ident_names: set[str], forbid: bool) -> list[str]:
    """The facts about the generated from_dict text that the model relies on and that no finite set of
    decoder behaviours can show: per-field handler is a *bare* except raising InvalidFieldValue(name, _, value, cls);
    the whole field sequence (and the extra-keys block) sits in try/except AttributeError with the isinstance test;
    the input is only read through .get/.keys; field blocks follow declaration order; nothing is raised or
    returned inside the try apart from the documented exceptions."""
    probs = []
    try:
        tree = ast.parse(src)
    except SyntaxError as e:
        return [f"unparsable generated code: {e}"]
    fns = [n for n in ast.walk(tree) if isinstance(n, ast.FunctionDef) and n.name.startswith("__mashumaro_from_dict")]
    if not fns:
        return []
    fn = fns[0]
    outer = [s for s in fn.body if isinstance(s, ast.Try)]
    if len(outer) != 1:
        # field-less classes included (fix abe4c99): the frame is emitted for every class
        return [f"expected exactly one top-level try in from_dict, found {len(outer)}"]
    tr = outer[0]
    if not field_names and not forbid:
        # the only statement is the bare attribute access `d.keys` (makes a non-mapping fail)
        if not (len(tr.body) == 1 and isinstance(tr.body[0], ast.Expr) and ast.unparse(tr.body[0].value) == "d.keys"):
            probs.append("field-less class: try body is not the bare `d.keys`")
    hs = tr.handlers
    if not (len(hs) == 1 and isinstance(hs[0].type, ast.Name) and hs[0].type.id == "AttributeError"):
        probs.append("outer handler is not exactly `except AttributeError`")
    else:
        hb = hs[0].body
        ok = (len(hb) == 1 and isinstance(hb[0], ast.If) and "isinstance(d, dict)" in ast.unparse(hb[0].test)
              and isinstance(hb[0].test, ast.UnaryOp) and isinstance(hb[0].body[0], ast.Raise)
              and ast.unparse(hb[0].body[0].exc).startswith("ValueError(")
              and len(hb[0].orelse) == 1 and isinstance(hb[0].orelse[0], ast.Raise) and hb[0].orelse[0].exc is None)
        if not ok:
            probs.append("outer handler body is not `if not isinstance(d, dict): raise ValueError(...) else: raise`")
    # statements before the try must not touch d except pre-hook / decoder
    for s in fn.body:
        if s is tr:
            break
        txt = ast.unparse(s)
        if "d." in txt and "__pre_deserialize__" not in txt:
            probs.append(f"input accessed before the try: {txt[:80]}")
    # uses of d inside the try: only d.get(<const>, MISSING) and d.keys()
    order = []
    for n in ast.walk(tr):
        if isinstance(n, ast.Attribute) and isinstance(n.value, ast.Name) and n.value.id == "d":
            if n.attr not in ("get", "keys"):
                probs.append(f"input accessed through d.{n.attr}")
        if isinstance(n, ast.Subscript) and isinstance(n.value, ast.Name) and n.value.id == "d":
            probs.append("input accessed through d[...]")
        if isinstance(n, (ast.Delete,)):
            probs.append("del statement in from_dict")
    if forbid:
        first = ast.unparse(tr.body[0]) if tr.body else ""
        if "set(d.keys())" not in first:
            probs.append("forbid_extra_keys block is not the first statement inside the try")
    # per-field: every try inside is `except:` (bare) with a single raise InvalidFieldValue(name, _, value, cls)
    for n in ast.walk(tr):
        if isinstance(n, ast.Try) and n is not tr:
            if len(n.handlers) != 1 or n.handlers[0].type is not None:
                probs.append("per-field handler is not a bare `except:`")
                continue
            hb = n.handlers[0].body
            if not (len(hb) == 1 and isinstance(hb[0], ast.Raise) and isinstance(hb[0].exc, ast.Call)
                    and ast.unparse(hb[0].exc.func) == "InvalidFieldValue" and len(hb[0].exc.args) == 4
                    and ast.unparse(hb[0].exc.args[2]) == "value" and ast.unparse(hb[0].exc.args[3]) == "cls"):
                probs.append("per-field handler does not `raise InvalidFieldValue(name, type, value, cls)`")
                continue
            fname = ast.literal_eval(hb[0].exc.args[0])
            tgt = ast.unparse(n.body[0].targets[0]) if n.body and isinstance(n.body[0], ast.Assign) else ""
            if tgt not in (f"__{fname}", f"kwargs['{fname}']"):
                probs.append(f"try block of field {fname!r} assigns {tgt!r}")
    # declaration order of the field blocks = order of first d.get per field; every non-ident field has a try
    tried = set()
    for n in ast.walk(tr):
        if isinstance(n, ast.Try) and n is not tr and n.handlers and n.handlers[0].body and \
                isinstance(n.handlers[0].body[0], ast.Raise) and isinstance(n.handlers[0].body[0].exc, ast.Call):
            try:
                tried.add(ast.literal_eval(n.handlers[0].body[0].exc.args[0]))
            except Exception:
                pass
    for f in field_names:
        if f not in ident_names and f not in tried:
            probs.append(f"field {f!r} is converted outside a try block")
    seq = []
    for s in tr.body:
        txt = ast.unparse(s)
        for f in field_names:
            if (f"__{f} =" in txt or f"kwargs['{f}']" in txt or f"MissingField('{f}'" in txt) and f not in seq:
                # attribute the statement to the earliest-declared field it mentions
                seq.append(f)
                break
    if [f for f in seq] != [f for f in field_names if f in seq]:
        probs.append(f"field blocks are not in declaration order: {seq}")
    return probs


# ---------------------------------------------------------------------------

def build_failure(ctx, schema, e):
    """Defining the class / compiling its from_dict raised: every deserialization of that class fails with an
    exception outside the documented set."""
    ctx.count(("build-failed", type(e).__name__))
    ctx.fail(f"defining {schema['cls']} / generating its from_dict raised {type(e).__name__}: {O.str_safe(e)[:200]}",
             {"entry": "build", "schema": schema, "prelude": "harness.props.c05_gen.PRELUDE", "input_expr": "{}",
              "observed": f"{type(e).__name__}: {O.str_safe(e)[:200]}", "expected": "a class with a working from_dict"},
             {"kind": "class-build-failed", "exception": type(e).__name__})


def run_corr(ctx, name, cases, ok_fun, case_type, labels):
    if not cases:
        return
    bad, log = vlib.coq_bad_idx(name, "Core Errs", "", "", cases, ok_fun, case_type, shard=400,
                                needs=["theories/Errs.vo"])
    if bad is None:
        ctx.correspondence(name, len(cases), -1, log)
        ctx.not_shown("correspondence " + name, log)
    else:
        detail = "; ".join(labels[i] for i in bad[:8])
        ctx.correspondence(name, len(cases), len(bad), detail)
        if bad:
            ctx.not_shown("correspondence " + name, f"{len(bad)} of {len(cases)} cases differ: {detail}")
    ctx.count(n=len(cases))


def report(ctx, schema, d_desc, fails, entry):
    for what, sig, obs, exp in fails:
        if schema.get("initvar") and sig.get("exception") == "TypeError" and "required positional argument" in what:
            sig = {**sig, "kind": "initvar-required-typeerror"}
        ctx.fail(what, {"entry": entry, "schema": schema, "prelude": "harness.props.c05_gen.PRELUDE",
                        "input_expr": G.pyexpr(d_desc), "observed": obs, "expected": exp}, sig)


def run(ctx: vlib.Ctx):
    ctx.coverage["rule"] = (
        "random dataclass schemas (0-6 fields from a pool of 41 field types incl. nested/discriminated dataclasses, "
        "Optional/Union/List/Dict/Tuple/NamedTuple/TypedDict/enums/date/UUID leaves; required/default/default-None; "
        "aliases, allow_deserialization_not_by_alias, forbid_extra_keys; mixin and plain) x (valid input, then a "
        "corruption stream: 1-3 junk fields, all fields junk, missing keys, nulls, extra keys, non-str keys, str for "
        "list, long tuple, name-vs-alias, non-mapping whole inputs, dict subclass / OrderedDict / MappingProxyType); "
        "both entry points from_dict and BasicDecoder.decode; distinct = (schema shape, corruption kind, outcome class); "
        "plus fresh discriminated hierarchies (1-4 variants, nested / untagged subclasses, attr or Literal-field tags, "
        "forbid_extra_keys) x call histories of 2-4 inputs whose FIRST call often makes the chosen variant's own decoding "
        "fail (missing required field, junk value, extra key), through Config discriminator (mixin, codec), Annotated "
        "discriminator at a codec root and in a holder field")
    ctx.trusted += [
        "Errs.v: model of the generated from_dict body / union chain / discriminator dispatch (hand-written, compared "
        "with /repo by vm_compute on every run and by an AST shape check of every captured generated from_dict); since round 6 "
        "the field block, the frame (allowed keys, extra-keys check, d.keys touch, except AttributeError) and the union method "
        "are ALSO derived from /repo: kernels K105a / K105b / K19 translate the emitting code, FieldEmit.v / FrameEmit.v / ErrsEmit.v give "
        "the emitted statements their meaning with exception classes, and C05_program_emitted / C05_union_emitted prove the emitted "
        "program equal to Errs.from_dict / Errs.union_run",
        "FieldEmit.v / FrameEmit.v / ErrsEmit.lines_c: Python meaning of the emitted statement vocabulary (d.get / d.keys on a "
        "non-mapping raise AttributeError, `is MISSING` / `is not None` tests, bare `except:` catches everything, `except Exception: "
        "pass` exactly the Exception subclasses, `else:` belongs to the `if` right before it) - hand-written, small; the tie between "
        "vocabulary and real text is the per-run comparison of every captured block / frame / union method, normalised, with the "
        "rendering of the translated function (c05_field_block_text, c05_frame_text, c05_k19_emit, c05_union_method_shape)",
        "tools/kernels/k105a_field_block.py, k105b_frame.py: fail-closed AST translators (statements recognised by exact unparsed text); "
        "K19 is property C11's translator (tools/kernels/k19_union_emit.py)",
        "Python semantics modelled not verified: dict.get / dict.keys on non-dicts raise AttributeError, isinstance(d, dict), "
        "bare except catches every BaseException, `except Exception` does not catch BaseException-only classes, "
        "value[str] on non-mappings raises TypeError, registry[tag] on an unhashable tag raises TypeError",
        "harness/props/c05_gen.py, c05_oracle.py: schema materialiser, independent computation of nullable/ident/keys/"
        "defaults per field (DESIGN A.2), value and outcome encoders, reference acceptance predicate",
        "ErrsTy.tcfg: per-class Config at the type level (forbid_extra_keys, allow_deserialization_not_by_alias, metadata "
        "aliases) as emitted by the harness from the generated class specs",
        "ErrsTy.v: error-faithful typed unpackers (ue) over TyModel's grammar/IR (cu, pdec, nt_items, td_go are TyModel's and "
        "shared with C03); stdlib primitives (int/float/str, fromisoformat, UUID, Decimal, ip_*, Enum(), decodebytes ...) are "
        "oracles returning a value or the exception class CPython raises - finite tables from the real leaf decoders in case "
        "files, uninterpreted in theorems; compared with /repo on exception class + attributes + __context__ + value",
        "ExcHier.builtin_bases: CPython's builtin exception hierarchy (fixed table); tools/kernels/k16_handlers.py: extraction of "
        "the emitted `except` texts and of exceptions.py's class bases (fail-closed AST reader)",
        "discriminator registry: modelled as the lazily filled tag->variant map threaded through call histories "
        "(Errs.discr_call / discr_history); variant tags are strings; registration order = iter_all_subclasses walk "
        "(depth first, definition order) as computed by the harness; compared with /repo on fresh hierarchies per history",
        "per-field decoder behaviour is an uninterpreted function in every theorem; in correspondence cases it is the "
        "finite table obtained from the real BasicDecoder(field_type).decode",
    ]
    ctx.assumptions += [
        "input immutability is NOT a theorem (the model is a pure function of an immutable value): it is checked by the "
        "oracle's deep comparison before/after and by the AST check that the input is only read through .get/.keys",
        "exceptions raised by user code (__pre_deserialize__, __post_init__, __post_deserialize__) at the root propagate "
        "unchanged (C05_hooks); the property is read as being about the library's own failures",
        "format-level entry points (from_json etc.) are outside the model: their decoder errors (JSONDecodeError, TypeError) "
        "pass through before from_dict starts",
    ]
    ctx.theorems("props/C05_errors.vo", THEOREMS)
    ctx.theorems("props/C05_typed.vo", TYPED_THEOREMS)
    ctx.theorems("props/C05_xtyped.vo", ["C05_x_outcomes", "C05_x_first_bad", "C05_x_union_position",
                                         "C05_x_union_rejects_partial", "C05_lit_ok", "C05_lit_exn",
                                         "C05_x_list_exn", "C05_x_list_ok", "C05_x_list_union_rejects_partial",
                                         "C05_x_dict_not_mapping"])
    # (T) kernel K19 (the emission loop of UnionUnpackerBuilder._add_body, C11's translation): the emitted union method,
    # run with exception classes, is Errs.union_run / the union position of ErrsX
    ctx.theorems("props/C05_emit.vo", ["C05_union_emitted", "C05_union_emitted_exceptions",
                                       "C05_union_emitted_rejects_partial", "C05_x_union_emitted"], kernels=["K19"])
    # (T) kernel K105a (FieldUnpackerCodeBlockBuilder.build): the emitted field block computes Errs.field_step; the program built
    # from the emitted blocks is Errs.from_dict
    ctx.theorems("props/C05_fieldblock.vo", ["C05_field_block_emitted", "C05_field_blocks_emitted", "C05_from_dict_emitted",
                                             "C05_emitted_outcomes", "C05_emitted_first_bad", "C05_frame_emitted",
                                             "C05_allowed_keys_emitted", "C05_program_emitted", "C05_program_extra_exact"],
                 kernels=["K105a", "K105b"])
    # (T) kernel K105c (prologue of the emitted discriminated dispatcher): its exceptions are Errs.discr_run's, it hands on the tag
    ctx.theorems("props/C05_discr_emit.vo", ["C05_discr_prologue_exn", "C05_discr_prologue_ok", "C05_discr_prologue_classes"],
                 kernels=["K105c"])
    # (T) kernel K45 (the code unpack_named_tuple emits, C03's translation): the dict form of a NamedTuple, run with exception
    # classes and arbitrary item unpackers: no silent default, first bad item decides, an inner KeyError is not "key absent"
    ctx.theorems("props/C05_nt_emit.vo", ["C05_namedtuple_dict_no_silent_default", "C05_namedtuple_dict_first_exn",
                                          "C05_namedtuple_dict_inner_keyerror"], kernels=["K45"])
    # (T) kernel K45a (the statements unpack_typed_dict emits, C03's translation): nothing present is dropped, the exception of an
    # optional key's unpacker is not "key absent"
    ctx.theorems("props/C05_td_emit.vo", ["C05_typeddict_no_silent_drop", "C05_typeddict_optional_exn"], kernels=["K45a"])
    # (T) kernel K16: emitted handler classes + exceptions.py hierarchy, re-translated from /repo on every run
    ctx.theorems("props/C05_handlers.vo", ["C05_k16_handlers_as_modelled", "C05_k16_documented_pass_through",
                                           "C05_k16_model_patterns"], kernels=["K16"])
    if not ctx.quick():
        # second opinion: the independent checker re-validates the compiled property files and their cone
        rc, log, secs = vlib.run(["timeout", "1500", "coqchk", "-silent", "-o", "-Q", "theories", "Verif", "-Q", "gen", "VerifGen",
                                  "-Q", "props", "VerifProps", "VerifProps.C05_errors", "VerifProps.C05_typed", "VerifProps.C05_xtyped", "VerifProps.C05_emit", "VerifProps.C05_fieldblock", "VerifProps.C05_discr_emit", "VerifProps.C05_nt_emit", "VerifProps.C05_td_emit", "VerifProps.C05_handlers"],
                                 cwd=vlib.COQ, timeout=1530)
        ok = rc == 0 and "Axioms: <none>" in log
        ctx.obligation("coqchk VerifProps.C05_errors C05_typed C05_xtyped C05_emit C05_fieldblock C05_discr_emit C05_nt_emit C05_td_emit C05_handlers (Axioms: <none>)", ok, log[-400:])
        ctx.trusted.append("coqchk -o on C05_errors + C05_typed + C05_xtyped + C05_emit + C05_fieldblock + C05_discr_emit + C05_nt_emit + C05_td_emit + C05_handlers: " + ("Axioms: <none>" if ok else "FAILED " + log[-200:]))
        if not ok:
            ctx.not_shown("coqchk VerifProps.C05_errors/C05_typed", log[-800:])

    rng = ctx.rng
    n_schemas = ctx.budget(140, 1500)
    n_inputs = ctx.budget(16, 24)
    corr_budget = ctx.budget(500, 12000)

    class_cases, class_labels = [], []
    from harness.props import c05_fblock
    fb = c05_fblock.Collector()
    shape_checked = shape_bad = 0
    shape_detail = []
    try:
        schemas = []
        try:
            G.prelude_module()
        except Exception as e:  # noqa: BLE001 - the fixed classes (field-less bases, hierarchies, nested classes) do not build
            first = "P_first"
            for blk in G.PRELUDE.split("@dataclass\n")[1:]:
                # the first class of the prelude that cannot be defined, alone on top of the imports
                src = "@dataclass\n" + blk
                try:
                    exec(compile(G.PRELUDE.split("@dataclass\n")[0].split("class D2")[0] + src, "<c05 prelude part>", "exec"), {})
                except NameError:
                    continue
                except Exception as e2:  # noqa: BLE001
                    build_failure(ctx, {"cls": src.split("class ")[1].split("(")[0].split(":")[0], "source": src, "fields": [],
                                        "mixin": True, "forbid": False, "allow_nba": False, "discr": None, "discr_keys": [],
                                        "standalone": True}, e2)
                    break
            else:
                build_failure(ctx, {"cls": "prelude", "source": G.PRELUDE, "fields": [], "mixin": True, "forbid": False,
                                    "allow_nba": False, "discr": None, "discr_keys": [], "standalone": True}, e)
            return
        with Recorder() as rec:
            for i in range(n_schemas):
                s = G.gen_schema(rng, i)
                before = len(rec.programs)
                try:
                    mod = G.build_module(s)
                    ents = entries(s, mod)       # forces compilation of both entry points
                except Exception as e:  # noqa: BLE001 - a class whose from_dict cannot even be generated
                    build_failure(ctx, s, e)
                    continue
                progs = rec.programs[before:]
                schemas.append((s, mod, ents))
                # structural tie on every captured from_dict program of this class
                names = [f["name"] for f in s["fields"]]
                idents = {f["name"] for f in s["fields"] if G.POOL_BY_EXPR[f["type"]].ident}
                roots = [p for p in progs if _is_root_program(p, s)]
                if not roots:
                    # every class, field-less ones included, gets the try / except AttributeError frame
                    shape_checked += 1
                    shape_bad += 1
                    shape_detail.append(f"{s['cls']}: no generated from_dict with the non-mapping frame was captured")
                try:
                    fmetas = O.field_meta(s, mod)
                except Exception:  # noqa: BLE001 - judged by the behavioural stream
                    fmetas = None
                for p in roots:
                    if fmetas is not None:
                        fb.add_program(s["cls"], p, fmetas)
                    fb.add_frame(s, p)
                    shape_checked += 1
                    pr = shape_problems(p, names, idents, s["forbid"])
                    if pr:
                        shape_bad += 1
                        shape_detail.append(f"{s['cls']}: {pr[0]}")
        for fs in G.FIXED_SCHEMAS:
            mod = G.build_module(fs)
            schemas.append((fs, mod, entries(fs, mod)))
        ctx.correspondence("generated-from_dict-shape", shape_checked, shape_bad, "; ".join(shape_detail[:6]))
        if shape_bad:
            ctx.not_shown("correspondence generated-from_dict-shape", "; ".join(shape_detail[:10]))
        if shape_checked == 0:
            ctx.not_shown("correspondence generated-from_dict-shape", "no generated program was captured")
        # kernel K105a: every captured field block, as text, vs the translated FieldUnpackerCodeBlockBuilder.build; two fixed classes
        # make every reachable combination of the five facts (20) occur on every run
        c05_fblock.add_coverage(fb, Recorder)
        fb.run(ctx)

        # ---- field-loop level: oracle + correspondence cases
        for s, mod, ents in schemas:
            ref = O.Ref(mod)
            metas = O.field_meta(s, mod)
            shape = (len(metas), s["forbid"], s["allow_nba"], s["mixin"], tuple(sorted(m["type"] for m in metas)))
            ctx.hist("fields_per_class", str(len(metas)))
            for m in metas:
                ctx.hist("field_types", m["type"])
            base = G.valid_input(rng, s)
            inputs = [(copy.deepcopy(base), "valid")]
            for _ in range(n_inputs):
                if rng.random() < 0.2:
                    base = G.valid_input(rng, s)
                inputs.append(G.corrupt(rng, s, base))
            for d_desc, label in inputs:
                ctx.hist("corruption", label)
                for entry, fn in ents:
                    fails = O.check_case(s, mod, ref, metas, entry, fn, d_desc)
                    d = G.realise(mod, d_desc)
                    _, summ, _, _ = real_outcome(fn, d)
                    ctx.count((shape, label, summ))
                    ctx.hist("outcomes", summ)
                    report(ctx, s, d_desc, fails, entry)
                if len(class_cases) < corr_budget:
                    entry, fn = ents[rng.randrange(len(ents))]
                    c = class_case(s, mod, ref, metas, fn, G.realise(mod, d_desc))
                    if c is not None:
                        class_cases.append(c)
                        class_labels.append(f"{s['cls']}.{entry}({G.pyexpr(d_desc)[:100]})")
            if len(ctx.coverage["samples"]) < 4 and metas:
                ctx.sample({"class": s["source"], "input": G.pyexpr(inputs[-1][0]),
                            "observed": real_outcome(ents[0][1], G.realise(mod, inputs[-1][0]))[1]})

        # ---- known-finding probes
        for s, d_desc in PROBES:
            try:
                mod = G.build_module(s)
                entries(s, mod)
            except Exception as e:  # noqa: BLE001
                build_failure(ctx, s, e)
                continue
            ref = O.Ref(mod)
            metas = O.field_meta(s, mod)
            for entry, fn in entries(s, mod):
                report(ctx, s, d_desc, O.check_case(s, mod, ref, metas, entry, fn, d_desc), entry)
                ctx.count(("probe", s["cls"], entry))

        hostile_probe(ctx)
        # dict-form NamedTuples below a dataclass (namedtuple_as_dict / deserialize="as_dict"): items whose own unpackers raise
        # KeyError, with and without defaults, at depth >= 2, against an independent reference of the item rule
        from harness.props import c05_ntdict
        nd_cases, nd_bad = c05_ntdict.run(ctx, ctx.budget(60, 600), ctx.budget(4, 6))
        ctx.correspondence("c05_ntdict_item_rule", nd_cases, nd_bad,
                           "dict-form NamedTuple items vs the independent reference of C05_namedtuple_dict_no_silent_default")

        # ---- discriminated roots
        pm = G.prelude_module()
        dcases, dlabels, ncases, nlabels = [], [], [], []
        tag_inputs = [{"type": "circle", "r": 1}, {"type": "rect", "w": 2, "h": None}, {"type": "rect"}, {"type": "circle", "r": "x"},
                      {"type": "circle", "zz": 1}, {"type": "nope"}, {}, {"r": 1}, {"type": None}, {"type": 1}, {"type": "rect", "w": [1]},
                      {"t": "a", "v": 1}, {"t": "a"}, {"t": "b", "v": 1}, {"t": "a", "v": "q"}, {"type": "circle", "type2": 1}]
        bad_inputs = [[1], "abc", 5, None, 1.5, True, [], {"type": [1]}, {"type": {"a": 1}}, {"t": [1]}, {"t": {}}, [["type", "circle"]]]
        for s in G.DISCR_SCHEMAS + [G.NOTAG_SCHEMA]:
            ents = entries(s, pm)
            ref = O.Ref(pm)
            ins = [copy.deepcopy(x) for x in tag_inputs + bad_inputs + DISCR_PROBES]
            if s is G.NOTAG_SCHEMA:
                ins += [{"x": 1}, {"y": "2020-01-02"}, {"x": 1, "y": "2020-01-02"}, {"x": "q", "y": "2020-01-02", "z": 3}, {"y": 5}]
            for _ in range(ctx.budget(20, 200)):
                b = copy.deepcopy(rng.choice(tag_inputs))
                if rng.random() < 0.7:
                    b[rng.choice(["type", "t", "r", "w", "h", "v", "x", "y", "zz"])] = copy.deepcopy(rng.choice(G.JUNK))
                ins.append(b)
            for d in ins:
                for entry, fn in ents:
                    fails = O.check_case(s, pm, ref, [], entry, fn, d)
                    _, summ, _, _ = real_outcome(fn, copy.deepcopy(d))
                    ctx.count(("discr", s["cls"], entry, summ, repr(d)[:40]))
                    ctx.hist("outcomes", "discr:" + summ)
                    report(ctx, s, d, fails, entry)
                entry, fn = ents[-1]
                if s is G.NOTAG_SCHEMA:
                    ncases.append(discr_case(s, pm, fn, d))
                    nlabels.append(f"NoTag {d!r}"[:100])
                else:
                    dcases.append(discr_case(s, pm, fn, d))
                    dlabels.append(f"{s['cls']} {d!r}"[:100])

        # ---- unions (codec entry point): model of the try / fallback chain
        ucases, ulabels = [], []
        ref = O.Ref(pm)
        for _ in range(ctx.budget(60, 1200)):
            k = rng.choice([2, 2, 3, 3, 4])
            members = rng.sample(UNION_MEMBERS, k)
            if k == 2 and "None" in members:
                continue                  # Optional[T]: not built by the union builder
            ctx.hist("union_arity", str(k))
            for _ in range(4):
                v = copy.deepcopy(rng.choice(G.JUNK + ["2020-01-02", G.UUID_S, [1, 2], {"a": 1}, {"x": 1}, "r", 1.5, [1, "a"]]))
                ucases.append(union_case(pm, ref, members, v))
                ulabels.append(f"Union[{', '.join(members)}] <- {v!r}"[:120])

        # ---- type level: error-faithful typed unpackers (ErrsTy.ue) vs BasicDecoder / from_dict
        from harness.props import c05_typed
        tcases, tbad, tlog = c05_typed.run(ctx, ctx.budget(45, 360), ctx.budget(2, 3))
        if tbad is None:
            ctx.correspondence("c05_typed", len(tcases), -1, tlog)
            ctx.not_shown("correspondence c05_typed", tlog)
        else:
            det = "; ".join(f"{c05_typed.gen.py_ann(tcases[i]['t'])} via {tcases[i]['entry'][0]} <- {tcases[i]['input']!r}: impl {tcases[i]['term']} ctx {tcases[i]['cx']}"[:400]
                            for i in tbad[:6])
            ctx.correspondence("c05_typed", len(tcases), len(tbad), det)
            if tbad:
                ctx.not_shown("correspondence c05_typed", f"{len(tbad)} of {len(tcases)} cases differ: {det}")
        ctx.count(n=len(tcases))
        # ---- Union / Literal field positions and codec roots over the typed grammar (ErrsX.uex / uex_root)
        from harness.props import c05_xtyped
        xcases, xbad, xlog = c05_xtyped.run(ctx, ctx.budget(40, 160), ctx.budget(2, 3))
        if xbad is None:
            ctx.correspondence("c05_xtyped", len(xcases), -1, xlog)
            ctx.not_shown("correspondence c05_xtyped", xlog)
        else:
            det = "; ".join(f"{c05_xtyped.gen.py_ann(xcases[i]['t'])} via {xcases[i]['entry']} <- {xcases[i]['input']!r}: impl {xcases[i]['term']} ctx {xcases[i]['cx']}"[:500]
                            for i in xbad[:6])
            ctx.correspondence("c05_xtyped", len(xcases), len(xbad), det)
            if xbad:
                ctx.not_shown("correspondence c05_xtyped", f"{len(xbad)} of {len(xcases)} cases differ: {det}")
        ctx.count(n=len(xcases))
        # kernel K105c: the prologue of every discriminated dispatcher generated for fixed fresh hierarchies, as text
        from harness.props import c05_emit as _c05_emit
        _c05_emit.run_discr(ctx)
        hic, hil = hier_section(ctx, rng, ctx.budget(120, 1500))
        run_corr(ctx, "c05_discr_history", hic,
                 "fun c => match c with (f, vs, ins, outs) => list_eqb res_eqb (discr_history f vs [] ins) outs end",
                 "string * list variant * list pv * list (res pv)", hil)
        hc, hl = hooks_cases(ctx)
        run_corr(ctx, "c05_hooks", hc, "fun c => match c with (k, d, e) => res_eqb (from_dict k d) e end",
                 "cspec * pv * res pv", hl)
        run_corr(ctx, "c05_fields", class_cases,
                 "fun c => match c with (k, d, e) => res_eqb (from_dict k d) e end", "cspec * pv * res pv", class_labels)
        run_corr(ctx, "c05_union", ucases,
                 "fun c => match c with (ms, v, e) => res_eqb (union_run ms XValueError v) e end",
                 "list umember * pv * res pv", ulabels)
        run_corr(ctx, "c05_discr", dcases,
                 "fun c => match c with (f, reg, v, e) => res_eqb (discr_run f reg v) e end",
                 "string * list (pv * (pv -> res pv)) * pv * res pv", dlabels)
        run_corr(ctx, "c05_notag", ncases,
                 "fun c => match c with (vs, v, e) => res_eqb (discr_nofield vs v) e end",
                 "list (pv -> res pv) * pv * res pv", nlabels)
    finally:
        G.cleanup_modules()


def _is_root_program(p: str, s: dict) -> bool:
    """The captured program that defines the from_dict of class s itself (mixin or codec flavour)."""
    return "def __mashumaro_from_dict__(" in p and f".{s['cls']}.__mashumaro_from_dict__ method should be" in p


def replay(rep: dict) -> int:
    schema = rep["schema"]
    if rep.get("entry", "").startswith("typed:"):
        from harness import gen as HG
        ns = HG.build_module(schema["source"])
        ty = eval(rep["type_expr"], dict(ns))
        d = eval(rep["input_expr"], dict(ns))
        from mashumaro.codecs.basic import BasicDecoder
        try:
            r = ty.from_dict(d) if rep["entry"] == "typed:from_dict" else BasicDecoder(ty).decode(d)
            got = HG.py_src(r)[:400]
        except Exception as e:  # noqa: BLE001
            got = type(e).__name__
        print(f"{rep['type_expr']} <- {rep['input_expr']}: {got}")
        print("recorded:", rep.get("outcome"), "|", rep.get("observed"))
        print("REPRODUCED" if got == rep.get("outcome") else "not reproduced")
        return 1 if got == rep.get("outcome") else 0
    if rep.get("entry", "").startswith("ntdict:"):
        from harness.props import c05_ntdict
        return c05_ntdict.replay(rep)
    if rep.get("entry") == "build":
        try:
            if schema.get("standalone"):
                exec(compile(G.PRELUDE.split("@dataclass\n")[0].split("class D2")[0] + schema["source"], "<c05 replay>", "exec"), {})
            elif "hier" in schema:
                pm = G.prelude_module()
                exec(compile(schema["source"], "<c05 replay build>", "exec"), pm.__dict__)
                hier_entry(schema["hier"], pm, "H")
            else:
                entries(schema, G.build_module(schema, fresh_prelude=True))
            print("class builds fine: not reproduced")
            return 0
        except Exception as e:  # noqa: BLE001
            print(f"building {schema['cls']} raised {type(e).__name__}: {e}")
            print("REPRODUCED")
            return 1
        finally:
            G.cleanup_modules()
    if rep.get("entry", "").startswith("hier:"):
        try:
            h = schema["hier"]
            pm = G.prelude_module()
            exec(compile(G.hier_source(h, "H") + G.hier_source(h, "T"), "<c05 replay hier>", "exec"), pm.__dict__)
            fn, wrapped = hier_entry(h, pm, "H")
            history = eval(rep["input_expr"])
            obs = ""
            for d, wd in history:
                r, exc, problems = unwrap_field(fn, d, wrapped, wd)
                obs = f"{type(exc).__name__}({O._attrs(exc)})" if exc is not None else f"returned {r!r}"[:200]
                print(f"  {h['flavour']} <- {d!r}: {obs}")
            same = obs == rep.get("observed")
            print("expected:", rep.get("expected"))
            print("REPRODUCED" if same else "not reproduced (last outcome differs from the recorded one)")
            return 1 if same else 0
        finally:
            G.cleanup_modules()
    if rep.get("entry", "").startswith("hostile:"):
        try:
            mod = G.build_module(schema, fresh_prelude=True)
            bad = hostile_once(mod, schema["cls"], rep["entry"].split(":", 1)[1], eval(rep["input_expr"]))
            print(f"{schema['cls']} decoder raising on {rep['input_expr']}: {bad or 'InvalidFieldValue as documented'}")
            print("REPRODUCED" if bad else "not reproduced")
            return 1 if bad else 0
        finally:
            G.cleanup_modules()
    if schema["source"] == "" and schema["cls"] not in ("Shape", "Plain2", "NoTag", "Circle", "Rect", "Inner", "InnerP"):
        print("unknown fixed schema")
        return 2
    try:
        mod = G.build_module(schema, fresh_prelude=True)
        d_desc = eval(rep["input_expr"], {**mod.__dict__, "D2": lambda x: ("D2", x),
                                          "OrderedDict": lambda x: ("OrderedDict", x),
                                          "MappingProxyType": lambda x: ("MappingProxyType", x)})
        ref = O.Ref(mod)
        metas = O.field_meta(schema, mod)
        want_kind = rep.get("signature", {}).get("kind")
        for entry, fn in entries(schema, mod):
            if entry != rep["entry"]:
                continue
            fails = O.check_case(schema, mod, ref, metas, entry, fn, d_desc)
            print(f"{schema['cls']}.{entry}({rep['input_expr']}):")
            for what, sig, obs, exp in fails:
                print("  FAILS:", what, "| observed:", obs)
            if fails:
                print("REPRODUCED")
                return 1
        print("not reproduced")
        return 0
    finally:
        G.cleanup_modules()
