"""C05, dict-form NamedTuples (Config option namedtuple_as_dict / field option deserialize="as_dict") below a dataclass:
generated NamedTuple classes with and without defaults whose items include the types whose own unpackers raise
KeyError (TypedDict with required keys, nested dict-form NamedTuples, ZoneInfo) next to plain leaves, held directly,
in List / Optional / Dict positions and inside each other; inputs are valid documents with one or several
corruptions at any depth (a key deleted, a node replaced).  The expected outcome is computed by an INDEPENDENT
reference of the item rule that C05_namedtuple_dict_no_silent_default states (an item is its own decoder's result,
or it has a default and its key is absent; anything else makes the enclosing field invalid), and compared with
from_dict / BasicDecoder.decode: same instance, or MissingField / InvalidFieldValue naming the first bad field, its
input value and the holder; the input is not modified."""
from __future__ import annotations

import copy
import typing

SRC_HEAD = """from dataclasses import dataclass, field
from datetime import date
from typing import NamedTuple, Optional, TypedDict, List, Dict
from zoneinfo import ZoneInfo
from mashumaro import DataClassDictMixin
from mashumaro.config import BaseConfig
from mashumaro.codecs.basic import BasicDecoder

class Size(TypedDict):
    w: int
    h: int

class BoxR(TypedDict):
    n: int

class Box(BoxR, total=False):
    s: Size
    z: ZoneInfo

"""

# TypedDict classes: required items, optional items (an optional item that is present is decoded, never dropped)
TDS = {"Size": ([("w", "int"), ("h", "int")], []),
       "Box": ([("n", "int")], [("s", "Size"), ("z", "ZoneInfo")])}

# (type expression, valid inputs, default expression, reaches a NamedTuple)
LEAVES = [
    ("int", [1, 5], "0", False),
    ("date", ["2020-01-02"], "date(2000, 1, 1)", False),
    ("Size", [{"w": 2, "h": 3}], "{'w': 1, 'h': 1}", False),
    ("ZoneInfo", ["Europe/Berlin", "UTC"], "ZoneInfo('UTC')", False),
    ("Optional[Size]", [None, {"w": 4, "h": 5}], "None", False),
    ("List[Size]", [[], [{"w": 6, "h": 7}]], "()", False),
    ("Box", [{"n": 1}, {"n": 2, "s": {"w": 8, "h": 9}, "z": "UTC"}, {"n": 3, "z": "Europe/Berlin"}], "{'n': 0}", False),
    ("List[Box]", [[{"n": 4, "s": {"w": 1, "h": 2}}]], "()", False),
]
LEAF_JUNK = {"int": ["zz", None], "date": ["2020-13-45", 7], "ZoneInfo": ["Nowhere/Zone", 7]}


class RefBad(Exception):
    pass


def gen_family(rng, idx: int, nt_free: bool):
    """source text of 2-3 NamedTuple classes (later ones may hold earlier ones) + table name -> [(item, type, default)]"""
    # the field option is inherited by the items' unpackers: a date item rejects the engine "as_dict" when the class is built
    pool = [x for x in LEAVES if not (nt_free and x[0] == "date")]
    classes, src = {}, ""
    for ci in range(rng.choice([2, 3])):
        name = f"N{idx}_{ci}"
        n = rng.choice([1, 2, 3, 4])
        items, seen_def = [], False
        for i in range(n):
            expr, valid, dflt, has_nt = rng.choice(pool)
            with_def = seen_def or (rng.random() < (0.25 if i == 0 else 0.65))
            seen_def = seen_def or with_def
            items.append((f"i{i}", expr, dflt if with_def else None))
        classes[name] = items
        src += f"class {name}(NamedTuple):\n" + "".join(
            f"    {n_}: {t}" + (f" = {d}" if d is not None else "") + "\n" for n_, t, d in items) + "\n"
        if not nt_free:
            dflt = f"{name}(" + ", ".join(_dflt(classes, t) for n_, t, d in items if d is None) + ")"
            pool += [(name, None, dflt, True), (f"List[{name}]", None, "()", True)]
    return classes, src


def _dflt(classes, expr):
    for e, valid, d, _ in LEAVES:
        if e == expr:
            return d
    if expr.startswith("List["):
        return "()"
    return f"{expr}(" + ", ".join(_dflt(classes, t) for n_, t, d in classes[expr] if d is None) + ")"


def valid_of(rng, classes, expr, as_dict=True):
    for e, valid, d, _ in LEAVES:
        if e == expr:
            return copy.deepcopy(rng.choice(valid))
    if expr.startswith("List["):
        return [valid_of(rng, classes, expr[5:-1], as_dict) for _ in range(rng.choice([1, 2]))]
    if expr.startswith("Optional["):
        return None if rng.random() < 0.25 else valid_of(rng, classes, expr[9:-1], as_dict)
    if expr.startswith("Dict[str, "):
        return {k: valid_of(rng, classes, expr[10:-1], as_dict) for k in rng.sample(["a", "b"], rng.choice([1, 2]))}
    out = {}
    for n_, t, d in classes[expr]:
        if d is None or rng.random() < 0.8:
            out[n_] = valid_of(rng, classes, t, as_dict)
    return out


def ref_decode(ns, classes, leaf, expr, v):
    """the documented reading, independent of unpack_named_tuple"""
    if expr.startswith("Optional["):
        return None if v is None else ref_decode(ns, classes, leaf, expr[9:-1], v)
    if expr.startswith("List["):
        if not isinstance(v, list):
            raise RefBad(expr)
        return [ref_decode(ns, classes, leaf, expr[5:-1], x) for x in v]
    if expr.startswith("Dict[str, "):
        if not isinstance(v, dict):
            raise RefBad(expr)
        return {k: ref_decode(ns, classes, leaf, expr[10:-1], x) for k, x in v.items()}
    if expr in TDS:
        req, opt = TDS[expr]
        if not isinstance(v, dict) or any(k not in v for k, t in req):
            raise RefBad(expr)
        return {k: ref_decode(ns, classes, leaf, t, v[k]) for k, t in req + opt if k in v}
    if expr in classes:
        if not isinstance(v, dict):
            raise RefBad(expr)
        kw = {}
        for n_, t, d in classes[expr]:
            if n_ in v:
                kw[n_] = ref_decode(ns, classes, leaf, t, v[n_])     # a present item is never replaced by its default
            elif d is None:
                raise RefBad(f"{expr}.{n_} missing")
        return ns[expr](**kw)
    if expr not in leaf:
        leaf[expr] = ns["BasicDecoder"](eval(expr, ns)).decode       # scalar leaves: the library's own leaf decoders
    try:
        return leaf[expr](copy.deepcopy(v))
    except Exception as e:  # noqa: BLE001
        raise RefBad(f"{expr}: {type(e).__name__}") from None


def paths(expr, classes, v, here=()):
    """(path, type expression) of every node of a valid document"""
    out = [(here, expr)]
    if v is None:
        return out
    if expr.startswith("Optional["):
        return paths(expr[9:-1], classes, v, here)
    if expr.startswith("List["):
        for i, x in enumerate(v):
            out += paths(expr[5:-1], classes, x, here + (i,))
    elif expr.startswith("Dict[str, "):
        for k, x in v.items():
            out += paths(expr[10:-1], classes, x, here + (k,))
    elif expr in TDS:
        for k, t in TDS[expr][0] + TDS[expr][1]:
            if k in v:
                out += paths(t, classes, v[k], here + (k,))
    elif expr in classes:
        for n_, t, d in classes[expr]:
            if n_ in v:
                out += paths(t, classes, v[n_], here + (n_,))
    return out


def corrupt(rng, doc, nodes):
    d = copy.deepcopy(doc)
    path, expr = rng.choice(nodes)
    if not path:
        return d, "none"
    cur = d
    for k in path[:-1]:
        cur = cur[k]
    last = path[-1]
    if isinstance(cur, dict) and rng.random() < 0.55:
        del cur[last]
        return d, f"del {path}"
    junk = LEAF_JUNK.get(expr, [5])
    cur[last] = copy.deepcopy(rng.choice(junk))
    return d, f"junk {path}"


def build(rng, idx: int):
    field_opt = rng.random() < 0.3       # the form is chosen per field (deserialize="as_dict"): items stay NamedTuple-free
    mixin = rng.random() < 0.5
    classes, src = gen_family(rng, idx, nt_free=field_opt)
    names = list(classes)
    hname = f"H{idx}"
    fields, lines, seen_def = [], [], False
    for i in range(rng.choice([1, 2, 3])):
        nt = rng.choice(names)
        if field_opt:
            expr = nt
        else:
            expr = rng.choice([nt, nt, f"List[{nt}]", f"Optional[{nt}]", f"Dict[str, {nt}]"])
        with_def = seen_def or rng.random() < 0.4
        seen_def = seen_def or with_def
        dflt = None
        if with_def:
            dflt = "None" if expr.startswith("Optional[") else ("list" if expr.startswith("List[") else (
                "dict" if expr.startswith("Dict[") else f"lambda: {_dflt(classes, expr)}"))
        args = []
        if dflt == "None":
            args.append("default=None")
        elif dflt is not None:
            args.append(f"default_factory={dflt}")
        if field_opt:
            args.append("metadata={'deserialize': 'as_dict'}")
        fields.append((f"f{i}", expr, dflt))
        lines.append(f"    f{i}: {expr}" + (f" = field({', '.join(args)})" if args else ""))
    src_h = f"@dataclass\nclass {hname}{'(DataClassDictMixin)' if mixin else ''}:\n" + "\n".join(lines) + "\n"
    if not field_opt:
        src_h += "    class Config(BaseConfig):\n        namedtuple_as_dict = True\n"
    return {"cls": hname, "source": SRC_HEAD + src + src_h, "classes": {k: [list(x) for x in v] for k, v in classes.items()},
            "fields": [list(f) for f in fields], "mixin": mixin, "field_opt": field_opt}


def expected(ns, schema, leaf, d):
    classes = {k: [tuple(x) for x in v] for k, v in schema["classes"].items()}
    kw = {}
    for name, expr, dflt in schema["fields"]:
        if name not in d:
            if dflt is None:
                return ("MissingField", name)
            continue
        try:
            kw[name] = ref_decode(ns, classes, leaf, expr, d[name])
        except RefBad:
            return ("InvalidFieldValue", name)
    return ("ok", ns[schema["cls"]](**kw))


def check_one(ns, schema, leaf, entry, d):
    """None | description of the disagreement"""
    cls = ns[schema["cls"]]
    if entry != "from_dict" and "__dec" not in ns:
        ns["__dec"] = ns["BasicDecoder"](cls)
    fn = cls.from_dict if entry == "from_dict" else ns["__dec"].decode
    want = expected(ns, schema, leaf, d)
    arg = copy.deepcopy(d)
    try:
        got = ("ok", fn(arg))
    except Exception as e:  # noqa: BLE001
        got = (type(e).__name__, e)
    if arg != d:
        return f"the input was modified: {arg!r}"
    if want[0] == "ok":
        if got[0] != "ok":
            return f"valid input rejected with {got[0]}"
        if got[1] != want[1]:
            return (f"returned {got[1]!r} but the items decode to {want[1]!r}: an invalid / present item was replaced "
                    f"(by a default?)")
        return None
    if got[0] == "ok":
        return f"returned {got[1]!r} although field {want[1]!r} is {'missing' if want[0] == 'MissingField' else 'invalid'}: expected {want[0]}"
    e = got[1]
    if got[0] != want[0] or e.field_name != want[1] or e.holder_class is not cls:
        return f"raised {got[0]}({getattr(e, 'field_name', None)!r}) instead of {want[0]}({want[1]!r}, holder {schema['cls']})"
    if want[0] == "InvalidFieldValue" and e.field_value != d[want[1]]:
        return f"InvalidFieldValue.field_value is {e.field_value!r}, the input holds {d[want[1]]!r}"
    return None


_LOADED: list = []


def load(schema):
    """a registered module of its own: the generated code looks its names up in sys.modules[cls.__module__]"""
    import sys
    import types
    name = f"c05_ntdict_{schema['cls']}_{len(_LOADED)}"
    mod = types.ModuleType(name)
    sys.modules[name] = mod
    _LOADED.append(name)
    exec(compile(schema["source"], f"<c05 ntdict {schema['cls']}>", "exec", dont_inherit=True), mod.__dict__)
    return mod.__dict__


def unload():
    import sys
    while _LOADED:
        sys.modules.pop(_LOADED.pop(), None)


def run(ctx, n_schemas: int, per_schema: int):
    rng = ctx.rng
    n_cases = n_bad = 0
    for idx in range(n_schemas):
        schema = build(rng, idx)
        try:
            ns = load(schema)
            ns["__dec"] = ns["BasicDecoder"](ns[schema["cls"]])
        except Exception as e:  # noqa: BLE001
            ctx.fail(f"defining the dict-form NamedTuple holder {schema['cls']} raised {type(e).__name__}: {str(e)[:200]}",
                     {"entry": "ntdict:build", "schema": schema, "input_expr": "None"}, {"kind": "ntdict-build"})
            continue
        classes = {k: [tuple(x) for x in v] for k, v in schema["classes"].items()}
        leaf: dict = {}
        entries = ["BasicDecoder.decode"] + (["from_dict"] if schema["mixin"] else [])
        for vi in range(per_schema):
            doc = {name: valid_of(rng, classes, expr) for name, expr, dflt in schema["fields"] if dflt is None or rng.random() < 0.85}
            nodes = []
            for name, expr, dflt in schema["fields"]:
                if name in doc:
                    nodes += paths(expr, classes, doc[name], (name,))
            inputs = [(doc, "valid")]
            if nodes:
                # one corruption per node kind that is reachable, and a few multiple ones (the first bad field decides)
                for _ in range(6):
                    inputs.append(corrupt(rng, doc, nodes))
                d2, how = corrupt(rng, doc, nodes)
                try:
                    d3, how2 = corrupt(rng, d2, [n for n in nodes if n[0][0] != eval(how.split(" ", 1)[1])[0]] or nodes) if how != "none" else (d2, "")
                    inputs.append((d3, how + " + " + how2))
                except (KeyError, IndexError, TypeError):
                    pass
                # every nested key of every item, deleted in turn (systematic)
                for path, expr in nodes:
                    if len(path) >= 3 and isinstance(path[-1], str) and rng.random() < 0.6:
                        d4 = copy.deepcopy(doc)
                        cur = d4
                        for k in path[:-1]:
                            cur = cur[k]
                        if isinstance(cur, dict):
                            del cur[path[-1]]
                            inputs.append((d4, f"del {path}"))
            for d, how in inputs:
                for entry in entries:
                    n_cases += 1
                    ctx.count(("ntdict", schema["field_opt"], entry, how.split(" ")[0], how.count(",")))
                    ctx.hist("ntdict_inputs", how.split(" ")[0])
                    bad = check_one(ns, schema, leaf, entry, d)
                    if bad is not None:
                        n_bad += 1
                        ctx.fail(f"{schema['cls']}.{entry} (dict-form NamedTuple, {how}): {bad}"[:600],
                                 {"entry": "ntdict:" + entry, "schema": schema, "input_expr": repr(d), "observed": bad[:300]},
                                 {"kind": "ntdict-item-rule", "entry": entry, "how": how.split(" ")[0]})
    unload()
    return n_cases, n_bad


def replay(rep: dict) -> int:
    schema = rep["schema"]
    try:
        ns = load(schema)
    except Exception as e:  # noqa: BLE001
        print(f"building {schema['cls']} raised {type(e).__name__}: {e}")
        print("REPRODUCED" if rep["entry"] == "ntdict:build" else "not reproduced")
        return 1 if rep["entry"] == "ntdict:build" else 0
    if rep["entry"] == "ntdict:build":
        print("class builds fine: not reproduced")
        return 0
    bad = check_one(ns, schema, {}, rep["entry"].split(":", 1)[1], eval(rep["input_expr"]))
    print(f"{schema['cls']}.{rep['entry']}({rep['input_expr']}): {bad or 'as documented'}")
    print("REPRODUCED" if bad else "not reproduced")
    return 1 if bad else 0
