"""C06 helper: generator of (class table, type, values) over the supported grammar,
materialisation as self-contained Python source, wire-form bookkeeping used for the
known-finding sites.  Pure data in / data out; randomness only through the rng passed in.

Type specs are nested tuples:
  ("any",) ("none",) ("bool",) ("int",) ("float",) ("str",)
  ("leaf", kind)            kind in LEAVES
  ("enum", cname)           cname declared in the table
  ("lit", [pysrc, ...])     Literal of python literal sources
  ("list"|"seq"|"deque"|"set"|"frozenset"|"tuplevar", t)
  ("tuple", [arg, ...])     arg = spec | ("unpack", tuple-spec)
  ("dict"|"mapping"|"ordereddict"|"defaultdict", k, v) ("counter", k) ("chainmap", k, v)
  ("opt", t) ("union", [t, ...]) ("newtype", t)
  ("data", pyname) ("nt", pyname) ("td", pyname) ("gdata", pyname, [args])
Value specs mirror them (see gen_value)."""
from __future__ import annotations

import base64
import json

# --------------------------------------------------------------------------
# leaf kinds: python type expression, value sources (python expressions)
# --------------------------------------------------------------------------
LEAVES = {
    "bytes": "bytes", "bytearray": "bytearray",
    "datetime": "datetime.datetime", "date": "datetime.date", "time": "datetime.time",
    "timedelta": "datetime.timedelta", "timezone": "datetime.timezone", "zoneinfo": "ZoneInfo",
    "uuid": "uuid.UUID", "decimal": "decimal.Decimal", "fraction": "fractions.Fraction",
    "ipv4address": "ipaddress.IPv4Address", "ipv6address": "ipaddress.IPv6Address",
    "ipv4network": "ipaddress.IPv4Network", "ipv6network": "ipaddress.IPv6Network",
    "ipv4interface": "ipaddress.IPv4Interface", "ipv6interface": "ipaddress.IPv6Interface",
    "purepath": "pathlib.PurePosixPath", "path": "pathlib.Path",
}
# format keyword the schema is expected to carry (model side); timedelta is a number
LEAF_FORMAT = {
    "bytes": "base64", "bytearray": "base64", "datetime": "date-time", "date": "date", "time": "time",
    "timedelta": "time-delta", "zoneinfo": "time-zone", "uuid": "uuid", "decimal": "decimal",
    "fraction": "fraction", "ipv4address": "ipv4", "ipv6address": "ipv6", "ipv4network": "ipv4network",
    "ipv6network": "ipv6network", "ipv4interface": "ipv4interface", "ipv6interface": "ipv6interface",
    "purepath": "path", "path": "path",
}
HASHABLE_LEAVES = [k for k in LEAVES if k != "bytearray"]

PRELUDE = '''from __future__ import annotations
import collections, datetime, decimal, enum, fractions, ipaddress, pathlib, uuid
from dataclasses import dataclass, field
from typing import *
from typing_extensions import Unpack, NotRequired, Required, TypedDict
from zoneinfo import ZoneInfo
from mashumaro import DataClassDictMixin, field_options, pass_through
from mashumaro.config import BaseConfig
from mashumaro.types import Alias, SerializationStrategy
from mashumaro.dialect import Dialect
from mashumaro.codecs.basic import BasicEncoder as _BE
def _wire(x):
    return _BE(type(x)).encode(x)
'''
# NB: `from __future__ import annotations` is NOT used in generated sources (local classes
# made by factories could not be resolved from strings); PRELUDE2 is what is emitted.
PRELUDE2 = PRELUDE.replace("from __future__ import annotations\n", "")

STR_POOL = ["", "a", "b", "xyz", "2020-01-01", "UTC", "1", "true", "null", "a b", "é", "中文",
            "it's", 'q"q', "\\", "\n", "A|B", "0", "x" * 40]
INT_POOL = [0, 1, -1, 2, 3, 7, 255, -128, 2 ** 31, -2 ** 63, 2 ** 64 + 1, 10 ** 30]
FLOAT_POOL = ["0.0", "1.5", "-2.25", "1e300", "5e-324", "3.0", "-0.0", "0.1", "123456.789", "2.0"]


def rnd_str(r):
    if r.random() < 0.6:
        return r.choice(STR_POOL)
    n = r.randrange(0, 6)
    return "".join(r.choice("abcXYZ01 _-üЖ") for _ in range(n))


def leaf_value_src(r, kind, probe):
    """python expression of a value of the leaf kind"""
    if kind in ("bytes", "bytearray"):
        b = bytes(r.randrange(256) for _ in range(r.choice([0, 1, 2, 3, 5, 60])))
        return f"{kind}({b!r})" if kind == "bytearray" else repr(b)
    if kind == "datetime":
        tz = r.choice(["", "", ", tzinfo=datetime.timezone.utc", ", tzinfo=datetime.timezone(datetime.timedelta(hours=-5, minutes=-30))"])
        us = r.choice([0, 0, 1, 999999, 250000])
        return f"datetime.datetime({r.randrange(1, 9999)}, {r.randrange(1, 13)}, {r.randrange(1, 29)}, {r.randrange(24)}, {r.randrange(60)}, {r.randrange(60)}, {us}{tz})"
    if kind == "date":
        return r.choice(["datetime.date(2020, 1, 1)", f"datetime.date({r.randrange(1, 9999)}, {r.randrange(1, 13)}, {r.randrange(1, 29)})"])
    if kind == "time":
        return f"datetime.time({r.randrange(24)}, {r.randrange(60)}, {r.randrange(60)}, {r.choice([0, 0, 5, 999999])})"
    if kind == "timedelta":
        return r.choice([f"datetime.timedelta(seconds={r.randrange(-10 ** 6, 10 ** 6)})",
                         f"datetime.timedelta(days={r.randrange(-1000, 1000)}, microseconds={r.randrange(10 ** 6)})",
                         "datetime.timedelta(0)", "datetime.timedelta(milliseconds=1500)"])
    if kind == "timezone":
        if probe and r.random() < 0.5:
            return r.choice(["datetime.timezone(datetime.timedelta(seconds=30))",
                             "datetime.timezone(datetime.timedelta(hours=1), 'CET')",
                             "datetime.timezone(datetime.timedelta(minutes=5, microseconds=7))"])
        return f"datetime.timezone(datetime.timedelta(minutes={r.randrange(-1439, 1440)}))"
    if kind == "zoneinfo":
        return r.choice(["ZoneInfo('UTC')", "ZoneInfo('Europe/Berlin')", "ZoneInfo('America/New_York')"])
    if kind == "uuid":
        return f"uuid.UUID(int={r.getrandbits(128)})"
    if kind == "decimal":
        return r.choice(["decimal.Decimal('1.50')", "decimal.Decimal('-0')", "decimal.Decimal('NaN')", "decimal.Decimal('1E+30')",
                         f"decimal.Decimal('{r.randrange(-10 ** 6, 10 ** 6)}.{r.randrange(100):02d}')", "decimal.Decimal('Infinity')"])
    if kind == "fraction":
        return f"fractions.Fraction({r.randrange(-100, 100)}, {r.randrange(1, 50)})"
    if kind == "ipv4address":
        return f"ipaddress.IPv4Address({r.getrandbits(32)})"
    if kind == "ipv6address":
        return f"ipaddress.IPv6Address({r.getrandbits(128)})"
    if kind == "ipv4network":
        # small networks only: inside a Union the speculative packer of an earlier list-like member *iterates* the
        # network object (Union[List[str], IPv6Network] with ::/0 never returns and exhausts memory - a serializer defect)
        return r.choice(["ipaddress.IPv4Network('10.0.0.0/31')", "ipaddress.IPv4Network('192.168.1.0/30')", "ipaddress.IPv4Network('8.8.8.8/32')"])
    if kind == "ipv6network":
        return r.choice(["ipaddress.IPv6Network('2001:db8::/126')", "ipaddress.IPv6Network('::1/128')"])
    if kind == "ipv4interface":
        return r.choice(["ipaddress.IPv4Interface('10.1.2.3/8')", "ipaddress.IPv4Interface('192.168.1.7/24')"])
    if kind == "ipv6interface":
        return r.choice(["ipaddress.IPv6Interface('2001:db8::1/32')", "ipaddress.IPv6Interface('::1/128')"])
    if kind == "purepath":
        return r.choice(["pathlib.PurePosixPath('/a/b')", "pathlib.PurePosixPath('rel/x.txt')", "pathlib.PurePosixPath('.')"])
    if kind == "path":
        return r.choice(["pathlib.Path('/tmp/x')", "pathlib.Path('a')"])
    raise KeyError(kind)


# --------------------------------------------------------------------------
# class table
# --------------------------------------------------------------------------
class Table:
    def __init__(self):
        self.decls: list[dict] = []
        self.by_name: dict[str, dict] = {}
        self.n = 0

    def add(self, d):
        self.decls.append(d)
        self.by_name[d["name"]] = d

    def fresh(self, prefix):
        self.n += 1
        return f"{prefix}{self.n}"


ENUM_BASES = ["Enum", "Enum", "IntEnum", "StrEnum", "Flag", "IntFlag"]


def gen_enum(r, tbl: Table, allow_flag=True, hashable_values=True):
    base = r.choice(ENUM_BASES if allow_flag else ENUM_BASES[:4])
    name = tbl.fresh("E")
    n = r.randrange(1, 5)
    members = []
    if base in ("Flag", "IntFlag"):
        for i in range(n):
            members.append((f"M{i}", str(1 << i)))
    elif base == "IntEnum":
        vals = r.sample([0, 1, 2, 3, 5, 8, -1, 100], n)
        members = [(f"M{i}", str(v)) for i, v in enumerate(vals)]
    elif base == "StrEnum":
        vals = r.sample(["a", "b", "c", "", "x y", "é", "1"], n)
        members = [(f"M{i}", repr(v)) for i, v in enumerate(vals)]
    else:
        pool = ["1", "2", "'a'", "'b'", "None", "1.5", "(1, 2)", "'2020-01-01'", "3", "''", "-7", "True"]
        vals = []
        seen = []
        for v in r.sample(pool, len(pool)):
            ev = eval(v)
            if any(ev == s for s in seen):      # equal values would be aliases
                continue
            seen.append(ev)
            vals.append(v)
            if len(vals) == n:
                break
        members = [(f"M{i}", v) for i, v in enumerate(vals)]
    d = {"kind": "enum", "name": name, "clsname": name, "base": base, "members": members}
    tbl.add(d)
    return d


def gen_fields_types(r, tbl, depth, n, probe):
    return [gen_type(r, tbl, depth - 1, probe) for _ in range(n)]


# return annotations of overriding serialization functions (values of these types are their own basic form)
SER_RETURN_TYPES = [("str",), ("int",), ("bool",), ("str",), ("int",),
                    ("list", ("int",)), ("list", ("str",)), ("dict", ("str",), ("int",)), ("dict", ("str",), ("list", ("int",))),
                    ("opt", ("int",)), ("list", ("opt", ("str",))), ("tuplevar", ("int",)), ("list", ("list", ("bool",))),
                    ("any",)]     # ("any",): the function has no return annotation


def gen_strategy_class(r, tbl: Table):
    """a class whose Config.serialization_strategy registers functions under an origin class (list / dict / deque), an
    Annotated alias and an exact type; every other field is a scalar, so no unintended position is captured"""
    name = tbl.fresh("D")
    regs = r.sample([("list", ("list", ("int",)), None, "list"),
                     ("dict", ("dict", ("str",), ("bool",)), None, "dict"),
                     ("deque", ("deque", ("str",)), None, "collections.deque"),
                     ("ann", ("dict", ("str",), ("int",)), "m", "Annotated[Dict[str, int], 'm']"),
                     ("annl", ("list", ("str",)), "tag", "Annotated[List[str], 'tag']")], r.randrange(1, 4))
    if any(k == "ann" for k, *_ in regs) and any(k == "dict" for k, *_ in regs):
        regs = [x for x in regs if x[0] != "dict"]         # the origin key would capture the Annotated field too
    if any(k == "annl" for k, *_ in regs) and any(k == "list" for k, *_ in regs):
        regs = [x for x in regs if x[0] != "list"]
    fields = []
    strat = []
    for i, (k, t, tag, keysrc) in enumerate(regs):
        rt = r.choice([("str",), ("int",), ("bool",)])
        fn = f"_cs_{name}_{i}"
        fields.append({"name": f"s{i}", "type": t, "default": None, "init": True, "alias_meta": None, "alias_ann": None,
                       "alias_cfg": None, "alias": None, "ann_tag": tag,
                       "ser": ("fn", rt, gen_value(r, rt, tbl, False, 2), fn), "ser_via": "config"})
        strat.append((keysrc, fn))
    for j in range(r.randrange(0, 3)):
        fields.append({"name": f"p{j}", "type": r.choice([("int",), ("str",), ("bool",), ("leaf", "date")]), "default": None, "init": True,
                       "alias_meta": None, "alias_ann": None, "alias_cfg": None, "alias": None})
    for f in fields:
        f.setdefault("ser", None)
        f["nt_override"] = None
        f["final"] = False
    d = {"kind": "data", "name": name, "clsname": name, "fields": fields, "tvars": [],
         "cfg": {"omit_none": False, "nt_as_dict": False, "via_dialect": False}, "strategies": strat}
    tbl.add(d)
    return d


def gen_data(r, tbl: Table, depth, probe, clsname=None, generic=False):
    if not generic and clsname is None and r.random() < 0.06:
        return gen_strategy_class(r, tbl)
    name = tbl.fresh("D")
    n = r.randrange(0, 5)
    fields = []
    seen_default = False
    used_alias = set()
    tvars = ["T"] if generic else []
    for i in range(n):
        fname = r.choice(["a", "b", "c", "x", "y", "val", "f"]) + str(i)
        if generic and not seen_default and r.random() < 0.6:
            t = r.choice([("tvar", "T"), ("list", ("tvar", "T")), ("opt", ("tvar", "T"))])
        else:
            t = gen_type(r, tbl, depth - 1, probe)
        default = None
        if (seen_default or r.random() < 0.35) and not contains_tvar(t):
            seen_default = True
            default = "gen"         # value generated later (needs the finished table)
        # three independent alias sources with different values on the same field:
        # field metadata, Annotated[..., Alias(...)], Config.aliases
        pool = ["A", "al", "k-1", "x y", "é", "$ref", "type", "camelCase", "snake_case", "id"]
        a_meta = a_ann = a_cfg = None
        if r.random() < 0.3:
            names = r.sample(pool, 3)
            c = r.random()
            a_meta = names[0] + str(i) if c < 0.6 else None
            a_cfg = names[1] + str(i) if r.random() < 0.6 else None
            if r.random() < 0.4:
                a_ann = names[2] + str(i)
            if a_meta is None and a_cfg is None and a_ann is None:
                a_meta = names[0] + str(i)
        init = True
        if probe and default is not None and r.random() < 0.15:
            init = False
        fields.append({"name": fname, "type": t, "default": default, "init": init,
                       "alias_meta": a_meta, "alias_ann": a_ann, "alias_cfg": a_cfg,
                       # key written by the serializer (by alias): metadata, else Annotated Alias, else Config.aliases
                       "alias": a_meta if a_meta is not None else a_ann if a_ann is not None else a_cfg})
    # class-wide serialization options that the schema builder also reads (Config or Config.dialect)
    cfg = {"omit_none": False, "nt_as_dict": False, "via_dialect": False}
    if r.random() < 0.25 and not generic:
        cfg["omit_none"] = r.random() < 0.6
        cfg["nt_as_dict"] = r.random() < 0.5
        cfg["via_dialect"] = r.random() < 0.3
        # an option only matters next to the shapes it governs: add (as first, default-free fields)
        # a NamedTuple-typed field resp. a container of Optionals
        extra = []
        if cfg["nt_as_dict"] or r.random() < 0.3:
            nd = gen_nt(r, tbl, max(depth - 1, 1), probe)
            extra.append({"name": "pt", "type": ("nt", nd["name"])})
            if r.random() < 0.5:
                extra.append({"name": "pts", "type": r.choice([("list", ("nt", nd["name"])), ("dict", ("str",), ("nt", nd["name"])),
                                                                 ("opt", ("nt", nd["name"]))])})
        if cfg["omit_none"]:
            inner = ("opt", gen_type(r, tbl, 0, probe))
            extra.append({"name": "on", "type": r.choice([("list", inner), ("dict", ("str",), inner), ("tuple", [inner, ("int",)]),
                                                           ("tuplevar", inner), inner])})
        for j, e in enumerate(extra):
            e.update({"name": e["name"] + str(j), "default": None, "init": True, "alias_meta": None, "alias_ann": None,
                      "alias_cfg": None, "alias": None})
        fields[0:0] = extra
    for i, f in enumerate(fields):
        f["ser"] = None
        # overridden serialization of a field (default options otherwise): a function with a return annotation
        # (the schema describes the annotated return type) or pass_through (the schema describes the declared type)
        if not generic and not cfg["omit_none"] and f["type"][0] != "nt" and r.random() < 0.1:
            # the function is applied to non-None values only, so the declared type must not be nullable (known
            # finding schema-overridden-nullable).  The override is given as field option `serialize`, or as field-level
            # `serialization_strategy` (a dict or a SerializationStrategy object); the return annotation may be a container
            # (since /repo 42523b8 the override replaces the field type ONCE and is not re-applied to the element types)
            # or missing (the schema then describes Any).  The function returns basic JSON values: the serializer emits
            # its result unchanged.
            if r.random() < 0.6 and (probe or not nullable_spec(f["type"])) and not contains_tvar(f["type"]):
                rt = r.choice(SER_RETURN_TYPES)
                f["ser"] = ("fn", rt, gen_value(r, rt, tbl, False, 2), f"_ser_{name}_{i}")
                f["ser_via"] = r.choice(["field", "field", "field_strategy_dict", "field_strategy_obj"])
                f["ser_annot"] = rt != ("any",)
            elif not contains_tvar(f["type"]):
                f["type"] = r.choice([("int",), ("str",), ("bool",), ("list", ("int",)), ("dict", ("str",), ("int",)), ("opt", ("int",))])
                f["ser"] = ("pass",)
                if f["default"] is not None:
                    f["default"] = "gen"
    for f in fields:
        f["nt_override"] = None
        f["final"] = False
        if f["type"][0] == "nt" and r.random() < 0.5:
            f["nt_override"] = r.choice(["as_list", "as_dict"])     # field override beats the class-wide option
            genuine = (f["nt_override"] == "as_dict") != bool(cfg["nt_as_dict"])
            if genuine and not probe and has_reset_collection(f["type"], tbl):
                # the serializer forgets the override inside list/set/mapping elements, the schema does not
                # (known finding schema-nt-override-in-containers): probe mode only
                f["nt_override"] = None
        elif f["alias_ann"] is None and not contains_tvar(f["type"]) and r.random() < 0.08:
            f["final"] = True
    d = {"kind": "data", "name": name, "clsname": clsname or name, "fields": fields, "tvars": tvars, "cfg": cfg}
    tbl.add(d)
    return d


def gen_nt(r, tbl, depth, probe):
    name = tbl.fresh("N")
    n = r.randrange(0, 4)
    fields = []
    seen_default = False
    for i in range(n):
        t = gen_type(r, tbl, depth - 1, probe)
        default = None
        if seen_default or r.random() < 0.3:
            seen_default = True
            default = "gen"
        fields.append({"name": f"n{i}", "type": t, "default": default})
    d = {"kind": "nt", "name": name, "clsname": name, "fields": fields}
    tbl.add(d)
    return d


def gen_td(r, tbl, depth, probe):
    name = tbl.fresh("TD")
    total = r.random() < 0.6
    fields = []
    for i in range(r.randrange(0, 4)):
        t = gen_type(r, tbl, depth - 1, probe)
        marker = r.choice([None, None, "Required", "NotRequired"])
        fields.append({"name": r.choice(["k", "z", "a", "m"]) + str(i), "type": t, "marker": marker})
    d = {"kind": "td", "name": name, "clsname": name, "total": total, "fields": fields}
    tbl.add(d)
    return d


def nullable_spec(t) -> bool:
    """the serializer's notion of a nullable field type (CodeBuilder.is_field_nullable without the default clause):
    Any, None, or a union with a direct None member (Optional[X], Union[int, None, str]; since /repo 906a805);
    Literal[None] is not"""
    while t[0] == "newtype":
        t = t[1]
    if t[0] in ("any", "none"):
        return True
    if t[0] not in ("opt", "union"):
        return False

    def flat(u):
        if u[0] == "opt":
            return flat(u[1]) + [("none",)]
        if u[0] == "union":
            return [x for m in u[1] for x in flat(m)]
        return [u]
    ms = flat(t)
    if all(m == ms[0] for m in ms):        # typing collapses Union[X, X] to X
        return ms[0][0] in ("none", "any")
    return ("none",) in ms


def has_reset_collection(t, tbl, seen=None) -> bool:
    """does the type tree (through named tuples / typed dicts, not through dataclasses) contain a
    list / set / mapping constructor"""
    seen = set() if seen is None else seen
    if t[0] in ("list", "seq", "deque", "set", "frozenset", "dict", "mapping", "ordereddict", "defaultdict", "counter", "chainmap"):
        return True
    if t[0] in ("nt", "td"):
        if t[1] in seen:
            return False
        seen.add(t[1])
        return any(has_reset_collection(f["type"], tbl, seen) for f in tbl.by_name[t[1]]["fields"])
    if t[0] in ("data", "gdata"):
        return False
    for x in t[1:]:
        if isinstance(x, tuple) and has_reset_collection(x, tbl, seen):
            return True
        if isinstance(x, list) and any(isinstance(y, tuple) and has_reset_collection(y, tbl, seen) for y in x):
            return True
    return False


def contains_tvar(t):
    if t[0] == "tvar":
        return True
    for x in t[1:]:
        if isinstance(x, tuple) and contains_tvar(x):
            return True
        if isinstance(x, list) and any(isinstance(y, tuple) and contains_tvar(y) for y in x):
            return True
    return False


SCALARS = [("int",), ("str",), ("bool",), ("float",), ("none",), ("any",)]


def gen_key_type(r, tbl, probe):
    """mapping key types: hashable wire form.  str-like keys mostly; non-str keys (known
    finding schema-nonstr-keys) only when probing."""
    x = r.random()
    if probe and x < 0.45:
        c = r.random()
        if c < 0.35:
            return ("int",)
        if c < 0.45:
            return ("bool",)
        if c < 0.55:
            return ("float",)
        if c < 0.75:
            e = gen_enum(r, tbl, allow_flag=False)
            return ("enum", e["name"])
        if c < 0.85:
            return ("lit", ["1", "2"])
        return ("union", [("int",), ("str",)])
    if x < 0.6:
        return ("str",)
    if x < 0.75:
        return ("leaf", r.choice(["date", "uuid", "decimal", "ipv4address", "time", "purepath"]))
    if x < 0.85:
        return ("lit", r.choice([["'a'", "'b'"], ["'k'"]]))
    if x < 0.92:
        # StrEnum keys are fine
        name = tbl.fresh("E")
        tbl.add({"kind": "enum", "name": name, "clsname": name, "base": "StrEnum",
                 "members": [("M0", "'ka'"), ("M1", "'kb'")]})
        return ("enum", name)
    return ("opt", ("str",))


def gen_tuple_args(r, tbl, depth, probe, allow_unpack=True):
    n = r.randrange(0, 4)
    args = [gen_type(r, tbl, depth - 1, probe) for _ in range(n)]
    if allow_unpack and r.random() < 0.5:
        c = r.random()
        if c < 0.4:
            inner = ("tuplevar", gen_type(r, tbl, depth - 1, probe))
        elif c < 0.8:
            inner = ("tuple", gen_tuple_args(r, tbl, depth - 1, probe, allow_unpack=depth > 1))
        else:
            inner = ("tuple", [])
        args.insert(r.randrange(0, len(args) + 1), ("unpack", inner))
    return args


def gen_type(r, tbl: Table, depth, probe):
    if depth <= 0 or r.random() < 0.25:
        c = r.random()
        if c < 0.55:
            return r.choice(SCALARS)
        if c < 0.8:
            return ("leaf", r.choice(list(LEAVES)))
        if c < 0.87:
            e = gen_enum(r, tbl, allow_flag=True)
            return ("enum", e["name"])
        return gen_literal(r, tbl)
    c = r.random()
    if c < 0.10:
        return ("list", gen_type(r, tbl, depth - 1, probe))
    if c < 0.14:
        return (r.choice(["seq", "deque"]), gen_type(r, tbl, depth - 1, probe))
    if c < 0.22:
        return (r.choice(["set", "frozenset"]), gen_hashable_type(r, tbl, depth - 1, probe))
    if c < 0.27:
        return ("tuplevar", gen_type(r, tbl, depth - 1, probe))
    if c < 0.37:
        return ("tuple", gen_tuple_args(r, tbl, depth, probe))
    if c < 0.47:
        return (r.choice(["dict", "dict", "mapping", "ordereddict", "defaultdict"]), gen_key_type(r, tbl, probe),
                gen_type(r, tbl, depth - 1, probe))
    if c < 0.50:
        return ("counter", gen_key_type(r, tbl, probe))
    if c < 0.53:
        return ("chainmap", gen_key_type(r, tbl, probe), gen_type(r, tbl, depth - 1, probe))
    if c < 0.62:
        return ("opt", gen_type(r, tbl, depth - 1, probe))
    if c < 0.70:
        n = r.randrange(2, 4)
        return ("union", [gen_type(r, tbl, depth - 1, probe) for _ in range(n)])
    if c < 0.86:
        if probe and r.random() < 0.2:
            datas = [d for d in tbl.decls if d["kind"] == "data" and not d["tvars"]]
            if datas:      # a second, different class with the same __name__
                d0 = r.choice(datas)
                d = gen_data(r, tbl, depth, probe, clsname=d0["clsname"])
                return ("data", d["name"])
        if probe and r.random() < 0.2:
            d = gen_data(r, tbl, depth, probe, generic=True)
            arg = r.choice([("int",), ("str",), ("leaf", "date")])
            return ("gdata", d["name"], [arg])
        datas = [d for d in tbl.decls if d["kind"] == "data" and not d["tvars"]]
        if datas and r.random() < 0.3:      # reuse (shared definitions)
            return ("data", r.choice(datas)["name"])
        d = gen_data(r, tbl, depth, probe)
        return ("data", d["name"])
    if c < 0.92:
        d = gen_nt(r, tbl, depth, probe)
        return ("nt", d["name"])
    if c < 0.98:
        d = gen_td(r, tbl, depth, probe)
        return ("td", d["name"])
    return ("newtype", gen_type(r, tbl, depth - 1, probe))


def gen_literal(r, tbl):
    """Literal[...] lists: typing keeps members that differ in (value, type), so ==-equal but
    distinct members (0/False, 1/True, IntEnum member/int/bool, str-enum member/str) coexist"""
    pool = ["0", "1", "2", "-5", "True", "False", "'a'", "'b'", "''", "'1'", "None", "b'x'"]
    if r.random() < 0.4:
        kind = r.choice(["IntEnum", "IntEnum", "StrEnum", "Enum"])
        name = tbl.fresh("E")
        if kind == "IntEnum":
            vals = r.sample(["0", "1", "2"], r.randrange(1, 4))
        elif kind == "StrEnum":
            vals = r.sample(["'a'", "'b'", "''"], r.randrange(1, 3))
        else:
            vals = r.sample(["1", "'a'", "None", "0"], r.randrange(1, 3))
        members = [(f"M{i}", v) for i, v in enumerate(vals)]
        tbl.add({"kind": "enum", "name": name, "clsname": name, "base": kind, "members": members})
        pool += [f"{name}.{m}" for m, _ in members] * 2
    n = r.choice([1, 1, 2, 2, 3, 4, 5])
    out = []
    if r.random() < 0.5:
        # seed the list with two members of one ==-class (they differ in type, so typing keeps both)
        classes = {}
        for s in dict.fromkeys(pool):
            try:
                v = eval(s, {name: _LitEnumProxy(tbl.by_name[name]) for name in tbl.by_name if tbl.by_name[name]["kind"] == "enum"})
            except Exception:
                continue
            if isinstance(v, bytes) or v is None:
                continue
            classes.setdefault(v if not isinstance(v, _LitMember) else v.value, []).append(s)
        groups = [g for g in classes.values() if len(g) > 1]
        if groups:
            out = r.sample(r.choice(groups), 2)
    for s in r.sample(pool, min(n, len(pool))):
        if s not in out:
            out.append(s)
    return ("lit", out)


class _LitMember:
    def __init__(self, value):
        self.value = value


class _LitEnumProxy:
    """member values of a declared enum, for grouping literal sources by Python equality"""
    def __init__(self, d):
        for m, v in d["members"]:
            setattr(self, m, _LitMember(eval(v)))


def gen_hashable_type(r, tbl, depth, probe):
    """element types of sets: values must be hashable"""
    c = r.random()
    if c < 0.45:
        return r.choice([("int",), ("str",), ("float",), ("bool",)])
    if c < 0.65:
        return ("leaf", r.choice(HASHABLE_LEAVES))
    if c < 0.75:
        e = gen_enum(r, tbl, allow_flag=True)
        return ("enum", e["name"])
    if c < 0.85 and depth > 0:
        return ("tuplevar", gen_hashable_type(r, tbl, depth - 1, probe))
    if c < 0.93:
        return ("opt", gen_hashable_type(r, tbl, depth - 1, probe))
    if probe:
        return ("union", [("str",), ("leaf", r.choice(["date", "uuid", "time", "decimal"]))])
    return ("union", [("int",), ("str",)])


# --------------------------------------------------------------------------
# python source
# --------------------------------------------------------------------------
def ty_src(t, tbl: Table, newtypes: list) -> str:
    k = t[0]
    if k == "any":
        return "Any"
    if k == "none":
        return "None"
    if k in ("bool", "int", "float", "str"):
        return k
    if k == "tvar":
        return t[1]
    if k == "leaf":
        return LEAVES[t[1]]
    if k in ("enum", "data", "nt", "td"):
        return t[1]
    if k == "gdata":
        return f"{t[1]}[{', '.join(ty_src(a, tbl, newtypes) for a in t[2])}]"
    if k == "lit":
        return "Literal[" + ", ".join(t[1]) + "]"
    one = {"list": "List", "seq": "Sequence", "deque": "Deque", "set": "Set", "frozenset": "FrozenSet"}
    if k in one:
        return f"{one[k]}[{ty_src(t[1], tbl, newtypes)}]"
    if k == "tuplevar":
        return f"Tuple[{ty_src(t[1], tbl, newtypes)}, ...]"
    if k == "tuple":
        if not t[1]:
            return "Tuple[()]"
        return "Tuple[" + ", ".join(ty_src(a, tbl, newtypes) for a in t[1]) + "]"
    if k == "unpack":
        return f"Unpack[{ty_src(t[1], tbl, newtypes)}]"
    two = {"dict": "Dict", "mapping": "Mapping", "ordereddict": "collections.OrderedDict", "defaultdict": "DefaultDict",
           "chainmap": "collections.ChainMap"}
    if k in two:
        return f"{two[k]}[{ty_src(t[1], tbl, newtypes)}, {ty_src(t[2], tbl, newtypes)}]"
    if k == "counter":
        return f"collections.Counter[{ty_src(t[1], tbl, newtypes)}]"
    if k == "opt":
        return f"Optional[{ty_src(t[1], tbl, newtypes)}]"
    if k == "union":
        return "Union[" + ", ".join(ty_src(a, tbl, newtypes) for a in t[1]) + "]"
    if k == "newtype":
        inner = ty_src(t[1], tbl, newtypes)
        import hashlib
        nm = "NT_" + hashlib.md5(inner.encode()).hexdigest()[:10]     # deterministic: every rendering agrees
        if (nm, inner) not in newtypes:
            newtypes.append((nm, inner))
        return nm
    raise KeyError(k)


def decl_src(d, tbl: Table) -> str:
    """source of one declaration; classes whose __name__ differs from their binding are
    made by a factory function"""
    lines: list[str] = []
    nts: list = []
    body: list[str] = []
    if d["kind"] == "enum":
        base = {"Enum": "enum.Enum", "IntEnum": "enum.IntEnum", "StrEnum": "str, enum.Enum", "Flag": "enum.Flag",
                "IntFlag": "enum.IntFlag"}[d["base"]]
        body.append(f"class {d['clsname']}({base}):")
        for m, v in d["members"]:
            body.append(f"    {m} = {v}")
    elif d["kind"] == "data":
        aliases_cfg = {}
        any_alias = any(f["alias"] is not None for f in d["fields"])
        bases = "DataClassDictMixin" + (", Generic[T]" if d["tvars"] else "")
        body.append("@dataclass")
        body.append(f"class {d['clsname']}({bases}):")
        for f in d["fields"]:
            ts = ty_src(f["type"], tbl, nts)
            if f.get("alias_ann") is not None:
                ts = f"Annotated[{ts}, Alias({f['alias_ann']!r})]"
            if f.get("ann_tag") is not None:
                ts = f"Annotated[{ts}, {f['ann_tag']!r}]"
            if f.get("final"):
                ts = f"Final[{ts}]"
            opts = []
            if f["default"] is not None:
                kind, vsrc = f["default"]
                if kind == "val":
                    opts.append(f"default={vsrc}")
                else:
                    opts.append(f"default_factory=lambda: {vsrc}")
            if not f["init"]:
                opts.append("init=False")
            fo = []
            if f.get("alias_meta") is not None:
                fo.append(f"alias={f['alias_meta']!r}")
            if f.get("nt_override") is not None:
                fo.append(f"serialize={f['nt_override']!r}")
            if f.get("ser") is not None:
                if f["ser"][0] == "fn":
                    ret = f" -> {ty_src(f['ser'][1], tbl, nts)}" if f.get("ser_annot", True) else ""
                    via = f.get("ser_via") or "field"
                    if via == "field_strategy_obj":
                        lines.append(f"class {f['ser'][3]}(SerializationStrategy):\n    def serialize(self, v){ret}:\n        return {val_src(f['ser'][2])}\n"
                                     f"    def deserialize(self, v):\n        return v")
                        fo.append(f"serialization_strategy={f['ser'][3]}()")
                    else:
                        lines.append(f"def {f['ser'][3]}(v){ret}:\n    return {val_src(f['ser'][2])}")
                        if via == "field":
                            fo.append(f"serialize={f['ser'][3]}")
                        elif via == "field_strategy_dict":
                            fo.append(f"serialization_strategy={{'serialize': {f['ser'][3]}}}")
                else:
                    fo.append("serialize=pass_through")
            if fo:
                opts.append(f"metadata=field_options({', '.join(fo)})")
            if f.get("alias_cfg") is not None:
                aliases_cfg[f["name"]] = f["alias_cfg"]
            if opts:
                body.append(f"    {f['name']}: {ts} = field({', '.join(opts)})")
            else:
                body.append(f"    {f['name']}: {ts}")
        cfg = d.get("cfg") or {}
        optlines = []
        if cfg.get("omit_none"):
            optlines.append("omit_none = True")
        if cfg.get("nt_as_dict"):
            optlines.append("namedtuple_as_dict = True")
        if d.get("strategies"):
            optlines.append("serialization_strategy = {" + ", ".join(f"{k}: {{'serialize': {fn}}}" for k, fn in d["strategies"]) + "}")
        if any_alias or optlines:
            body.append("    class Config(BaseConfig):")
            if any_alias:
                body.append("        serialize_by_alias = True")
                if aliases_cfg:
                    body.append(f"        aliases = {aliases_cfg!r}")
            if optlines and cfg.get("via_dialect"):
                body.append("        class dialect(Dialect):")
                body += ["            " + o for o in optlines]
            else:
                body += ["        " + o for o in optlines]
        elif not d["fields"]:
            body.append("    pass")
    elif d["kind"] == "nt":
        body.append(f"class {d['clsname']}(NamedTuple):")
        for f in d["fields"]:
            ts = ty_src(f["type"], tbl, nts)
            if f["default"] is not None:
                body.append(f"    {f['name']}: {ts} = {f['default'][1]}")
            else:
                body.append(f"    {f['name']}: {ts}")
        if not d["fields"]:
            body.append("    pass")
    elif d["kind"] == "td":
        body.append(f"class {d['clsname']}(TypedDict{'' if d['total'] else ', total=False'}):")
        for f in d["fields"]:
            ts = ty_src(f["type"], tbl, nts)
            if f["marker"]:
                ts = f"{f['marker']}[{ts}]"
            body.append(f"    {f['name']}: {ts}")
        if not d["fields"]:
            body.append("    pass")
    for nm, inner in nts:
        lines.append(f"{nm} = NewType({nm!r}, {inner})")
    if d["clsname"] != d["name"]:
        # a second class with the same bare __name__ (e.g. the same name in two modules)
        lines += [b.replace(f"class {d['clsname']}(", f"class {d['name']}(", 1) if b.startswith("class ") else b for b in body]
        lines.append(f"{d['name']}.__name__ = {d['clsname']!r}")
        lines.append(f"{d['name']}.__qualname__ = {d['clsname']!r}")
    else:
        lines += body
    return "\n".join(lines)


def module_src(tbl: Table, root) -> str:
    nts: list = []
    root_src = ty_src(root, tbl, nts)
    out = [PRELUDE2, "T = TypeVar('T')"]
    for d in tbl.decls:
        out.append(decl_src(d, tbl))
    for nm, inner in nts:
        out.append(f"{nm} = NewType({nm!r}, {inner})")
    out.append(f"ROOT = {root_src}")
    return "\n".join(out) + "\n"


# --------------------------------------------------------------------------
# values.  A value spec is a tuple; ("py", src) is an opaque python expression.
#   ("none",) ("bool", b) ("int", n) ("float", src) ("str", s) ("leaf", kind, src)
#   ("enum", cname, expr_src, canonical: bool) ("lit", src)
#   ("seq", ctor, [v...])  ctor in list/tuple/set/frozenset/deque/str
#   ("map", ctor, [(k, v)...])   ("counter", [(k, n)])  ("chainmap", [[(k, v)...], ...])
#   ("obj", pyname, [(fname, v)...]) ("nt", pyname, [v...]) ("td", [(name, v)...])
# --------------------------------------------------------------------------
def subst(t, env):
    if not env:
        return t
    if t[0] == "tvar":
        return env[t[1]]
    out = []
    for x in t:
        if isinstance(x, tuple):
            out.append(subst(x, env))
        elif isinstance(x, list):
            out.append([subst(y, env) if isinstance(y, tuple) else y for y in x])
        else:
            out.append(x)
    return tuple(out)


def gen_value(r, t, tbl: Table, probe, depth=0):
    k = t[0]
    if k == "any":
        return r.choice([("none",), ("int", 3), ("str", "any"), ("seq", "list", [("int", 1), ("str", "x")]),
                         ("map", "dict", [(("str", "k"), ("bool", True))]), ("float", "2.5")])
    if k == "none":
        return ("none",)
    if k == "bool":
        return ("bool", r.random() < 0.5)
    if k == "int":
        return ("int", r.choice(INT_POOL) if r.random() < 0.7 else r.randrange(-10 ** 9, 10 ** 9))
    if k == "float":
        if r.random() < 0.25:
            return ("int", r.choice(INT_POOL[:8]))       # ints conform to float (PEP 484 numeric tower)
        return ("float", r.choice(FLOAT_POOL) if r.random() < 0.7 else repr(r.uniform(-1e6, 1e6)))
    if k == "str":
        return ("str", rnd_str(r))
    if k == "leaf":
        return ("leaf", t[1], leaf_value_src(r, t[1], probe))
    if k == "enum":
        d = tbl.by_name[t[1]]
        names = [m for m, _ in d["members"]]
        if d["base"] in ("Flag", "IntFlag") and probe and r.random() < 0.5:
            sub = r.sample(names, r.randrange(0, len(names) + 1))
            if len(sub) == 1:
                return ("enum", t[1], f"{t[1]}.{sub[0]}", True)
            if not sub:
                return ("enum", t[1], f"{t[1]}(0)", False)
            return ("enum", t[1], " | ".join(f"{t[1]}.{m}" for m in sub), False)
        return ("enum", t[1], f"{t[1]}.{r.choice(names)}", True)
    if k == "lit":
        return ("lit", r.choice(t[1]))
    if k in ("list", "seq", "deque", "tuplevar"):
        n = r.choice([0, 1, 2, 3]) if depth < 3 else r.choice([0, 1])
        if k == "seq" and t[1] == ("str",) and r.random() < 0.3:
            return ("seq", "str", [("str", c) for c in "abc"[:n]])      # a str is a Sequence[str]
        ctor = {"list": "list", "seq": r.choice(["list", "tuple"]), "deque": "deque", "tuplevar": "tuple"}[k]
        return ("seq", ctor, [gen_value(r, t[1], tbl, probe, depth + 1) for _ in range(n)])
    if k in ("set", "frozenset"):
        n = r.choice([0, 1, 2, 3])
        vs = [gen_value(r, t[1], tbl, probe, depth + 1) for _ in range(n)]
        if probe and t[1][0] == "union" and ("str",) in t[1][1] and vs:
            # adversarial: a str equal to the wire form of a leaf element (filled by the caller
            # through wire_of, see add_collisions)
            vs.append(("wire-of", r.choice(vs)))
        return ("seq", k, vs)
    if k == "tuple":
        out = []
        for a in t[1]:
            if a[0] == "unpack":
                inner = gen_value(r, a[1], tbl, probe, depth + 1)
                out.extend(inner[2])
            else:
                out.append(gen_value(r, a, tbl, probe, depth + 1))
        return ("seq", "tuple", out)
    if k in ("dict", "mapping", "ordereddict", "defaultdict"):
        n = r.choice([0, 1, 2])
        ctor = {"dict": "dict", "mapping": "dict", "ordereddict": "ordereddict", "defaultdict": "defaultdict"}[k]
        return ("map", ctor, [(gen_value(r, t[1], tbl, probe, depth + 1), gen_value(r, t[2], tbl, probe, depth + 1)) for _ in range(n)])
    if k == "counter":
        n = r.choice([0, 1, 2])
        return ("counter", [(gen_value(r, t[1], tbl, probe, depth + 1), r.choice([0, 1, 2, -3, 10 ** 20])) for _ in range(n)])
    if k == "chainmap":
        return ("chainmap", [[(gen_value(r, t[1], tbl, probe, depth + 1), gen_value(r, t[2], tbl, probe, depth + 1))
                              for _ in range(r.choice([0, 1, 2]))] for _ in range(r.choice([1, 2]))])
    if k == "opt":
        if r.random() < 0.3:
            return ("none",)
        return gen_value(r, t[1], tbl, probe, depth)
    if k == "union":
        return gen_value(r, r.choice(t[1]), tbl, probe, depth)
    if k == "newtype":
        return gen_value(r, t[1], tbl, probe, depth)
    if k in ("data", "gdata"):
        d = tbl.by_name[t[1]]
        env = {"T": t[2][0]} if k == "gdata" else {}
        fs = []
        for f in d["fields"]:
            if not f["init"]:
                continue
            if f["default"] is not None and r.random() < 0.4:
                continue        # take the default
            fv = gen_value(r, subst(f["type"], env), tbl, probe, depth + 1)
            fs.append((f["name"], fv))
        return ("obj", t[1], fs)
    if k == "nt":
        d = tbl.by_name[t[1]]
        vs = []
        for f in d["fields"]:
            if f["default"] is not None and r.random() < 0.4:
                break           # the remaining fields take their defaults
            vs.append(gen_value(r, f["type"], tbl, probe, depth + 1))
        return ("nt", t[1], vs)
    if k == "td":
        d = tbl.by_name[t[1]]
        out = []
        for f in d["fields"]:
            required = (d["total"] and f["marker"] != "NotRequired") or f["marker"] == "Required"
            if required or r.random() < 0.5:
                out.append((f["name"], gen_value(r, f["type"], tbl, probe, depth + 1)))
        return ("td", out)
    raise KeyError(k)


def val_src(v) -> str:
    k = v[0]
    if k == "none":
        return "None"
    if k == "bool":
        return "True" if v[1] else "False"
    if k == "int":
        return repr(v[1])
    if k == "float":
        return f"float({v[1]!r})"
    if k == "str":
        return repr(v[1])
    if k == "leaf":
        return v[2]
    if k == "enum":
        return f"({v[2]})"
    if k == "lit":
        return v[1]
    if k == "wire-of":
        return f"_wire({val_src(v[1])})"
    if k == "seq":
        items = ", ".join(val_src(x) for x in v[2])
        if v[1] == "list":
            return f"[{items}]"
        if v[1] == "tuple":
            return f"({items}{',' if len(v[2]) == 1 else ''})"
        if v[1] == "set":
            return f"set([{items}])"
        if v[1] == "frozenset":
            return f"frozenset([{items}])"
        if v[1] == "deque":
            return f"collections.deque([{items}])"
        if v[1] == "str":
            return repr("".join(x[1] for x in v[2]))
    if k == "map":
        items = ", ".join(f"({val_src(a)}, {val_src(b)})" for a, b in v[2])
        if v[1] == "dict":
            return f"dict([{items}])"
        if v[1] == "ordereddict":
            return f"collections.OrderedDict([{items}])"
        if v[1] == "defaultdict":
            return f"collections.defaultdict(lambda: None, [{items}])"
    if k == "counter":
        items = ", ".join(f"({val_src(a)}, {b})" for a, b in v[1])
        return f"collections.Counter(dict([{items}]))"
    if k == "chainmap":
        return "collections.ChainMap(" + ", ".join("dict([" + ", ".join(f"({val_src(a)}, {val_src(b)})" for a, b in m) + "])" for m in v[1]) + ")"
    if k == "obj":
        return f"{v[1]}(" + ", ".join(f"{n}={val_src(x)}" for n, x in v[2]) + ")"
    if k == "nt":
        return f"{v[1]}(" + ", ".join(val_src(x) for x in v[2]) + ")"
    if k == "td":
        return "{" + ", ".join(f"{n!r}: {val_src(x)}" for n, x in v[1]) + "}"
    raise KeyError(k)


def fill_defaults(r, tbl: Table):
    """generate the default values of fields (python sources) once the table is complete"""
    for d in tbl.decls:
        if d["kind"] in ("data", "nt"):
            for i, f in enumerate(d["fields"]):
                if f["default"] == "gen":
                    v = gen_value(r, f["type"], tbl, False, 2)
                    src = val_src(v)
                    immutable = v[0] in ("none", "bool", "int", "float", "str", "lit", "enum") or \
                        (v[0] == "leaf" and v[1] != "bytearray")
                    if d["kind"] == "nt":
                        if immutable:
                            f["default"] = ("val", src)
                        else:
                            # build_json_schema renders NamedTuple defaults through a dataclass default,
                            # which raises ValueError for unhashable values (C20's business): keep the
                            # generator inside what schema building supports
                            for g in d["fields"][:i + 1]:
                                g["default"] = None
                            continue
                    else:
                        f["default"] = ("val", src) if immutable else ("factory", src)
                    f["default_v"] = v


def gen_case(r, depth, probe):
    tbl = Table()
    root = gen_type(r, tbl, depth, probe)
    fill_defaults(r, tbl)
    return tbl, root


# --------------------------------------------------------------------------
# reachable dataclass types (for the `definitions are not shared` clause)
# --------------------------------------------------------------------------
def reachable_data(t, tbl: Table, acc=None, env=None):
    """set of (pyname, args-tuple) of dataclass types reachable from t"""
    acc = set() if acc is None else acc
    t = subst(t, env or {})
    k = t[0]
    if k in ("data", "gdata"):
        key = (t[1], tuple(t[2]) if k == "gdata" else ())
        if key in acc:
            return acc
        acc.add(key)
        d = tbl.by_name[t[1]]
        e2 = {"T": t[2][0]} if k == "gdata" else {}
        for f in d["fields"]:
            if f["init"]:
                reachable_data(f["type"], tbl, acc, e2)
        return acc
    if k in ("nt", "td"):
        for f in tbl.by_name[t[1]]["fields"]:
            reachable_data(f["type"], tbl, acc)
        return acc
    for x in t[1:]:
        if isinstance(x, tuple):
            reachable_data(x, tbl, acc)
        elif isinstance(x, list):
            for y in x:
                if isinstance(y, tuple):
                    reachable_data(y, tbl, acc)
    return acc
