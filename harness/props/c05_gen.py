"""C05 helpers: schema generator, module materialiser, corruption stream, value/outcome encoders.
Everything here is independent of mashumaro's generator (it only *uses* the public API)."""
from __future__ import annotations

import collections
import collections.abc
import copy
import dataclasses
import hashlib
import math
import sys
import types
import typing

from harness.vlib import coq_str, coq_z, coq_list, coq_bool

PRELUDE = '''
import dataclasses
from dataclasses import dataclass, field, InitVar
from typing import Any, Optional, List, Dict, Tuple, Set, FrozenSet, Union, NamedTuple, TypedDict, Literal, Annotated
from datetime import date, datetime
from decimal import Decimal
from uuid import UUID
from enum import Enum, IntEnum
from collections import OrderedDict
from types import MappingProxyType
from mashumaro import DataClassDictMixin, pass_through
from mashumaro.config import BaseConfig, ADD_DIALECT_SUPPORT
from mashumaro.dialect import Dialect
from mashumaro.types import Discriminator
from mashumaro.codecs.basic import BasicDecoder
from mashumaro.mixins.msgpack import DataClassMessagePackMixin
from mashumaro.mixins.orjson import DataClassORJSONMixin

class NoopDialect(Dialect):
    pass
type OptI = int | None
def c05_tagger(cls):
    # variant_tagger_fn: every subclass is registered under two tags derived from its name
    sfx = cls.__name__.rsplit("V", 1)[1]
    return ["v" + sfx, "alt-v" + sfx]
class D2(dict):
    pass
class Color(Enum):
    R = "r"
    G = "g"
class Num(IntEnum):
    ONE = 1
    TWO = 2
class NT(NamedTuple):
    a: int
    b: str = "b"
class TD(TypedDict):
    a: int
    b: str
@dataclass
class Inner(DataClassDictMixin):
    x: int
    y: Optional[date] = None
@dataclass
class InnerF(DataClassDictMixin):
    a: str
    class Config(BaseConfig):
        forbid_extra_keys = True
@dataclass
class InnerP:
    p: int = 0
    q: List[int] = field(default_factory=list)
@dataclass
class Var(DataClassDictMixin):
    pass
@dataclass
class Var1(Var):
    kind = "v1"
    x: int = 0
@dataclass
class Var2(Var):
    kind = "v2"
    s: str
@dataclass
class Shape(DataClassDictMixin):
    class Config(BaseConfig):
        discriminator = Discriminator(field="type", include_subtypes=True)
@dataclass
class Circle(Shape):
    type = "circle"
    r: int = 0
    class Config(BaseConfig):
        forbid_extra_keys = True
@dataclass
class Rect(Shape):
    type = "rect"
    w: int
    h: Optional[int] = None
@dataclass
class Plain2:
    class Config(BaseConfig):
        discriminator = Discriminator(field="t", include_subtypes=True)
@dataclass
class PlainA(Plain2):
    t = "a"
    v: int
@dataclass
class NoTag(DataClassDictMixin):
    class Config(BaseConfig):
        discriminator = Discriminator(include_subtypes=True)
@dataclass
class NoTagA(NoTag):
    x: int
@dataclass
class NoTagB(NoTag):
    y: date
    z: int = 0
'''


class TypeInfo:
    def __init__(self, expr, valid, default, ident=False, nullable=False, factory=False):
        self.expr = expr          # python type expression
        self.valid = valid        # list of valid JSON-like inputs
        self.default = default    # python expression of a default value of that type
        self.ident = ident        # unpacker expression is "value"
        self.nullable = nullable  # Any / None / two-member Optional
        self.factory = factory    # default must go through default_factory


def T(*a, **k):
    return TypeInfo(*a, **k)


UUID_S = "12345678-1234-5678-1234-567812345678"
POOL = [
    T("int", [0, 1, -7, 42, 10 ** 20], "0"),
    T("float", [0.5, -2.25, 3, 1e10], "0.0"),
    T("bool", [True, False], "False"),
    T("str", ["", "a", "hé", "2020-01-01"], "''"),
    T("date", ["2020-01-02", "1999-12-31"], "date(2000, 1, 1)"),
    T("datetime", ["2020-01-02T03:04:05"], "datetime(2000, 1, 1)"),
    T("UUID", [UUID_S], "UUID(int=0)"),
    T("Decimal", ["1.5", "0"], "Decimal(0)"),
    T("Color", ["r", "g"], "Color.R"),
    T("Num", [1, 2], "Num.ONE"),
    T("bytes", ["YWJj\n"], "b''"),
    T("Optional[int]", [None, 3], "5", nullable=True),
    T("Optional[date]", [None, "2020-01-02"], "None", nullable=True),
    T("Optional[Inner]", [None, {"x": 1}], "None", nullable=True),
    T("List[int]", [[], [1, 2, 3]], "list", factory=True),
    T("List[date]", [["2020-01-02"]], "list", factory=True),
    T("List[Optional[int]]", [[1, None]], "list", factory=True),
    T("List[Inner]", [[{"x": 1}, {"x": 2, "y": None}]], "list", factory=True),
    T("Dict[str, int]", [{}, {"a": 1}], "dict", factory=True),
    T("Dict[str, date]", [{"k": "2020-01-02"}], "dict", factory=True),
    T("Dict[str, Inner]", [{"k": {"x": 1}}], "dict", factory=True),
    T("Tuple[int, str]", [[1, "a"]], "(0, '')"),
    T("Tuple[int, ...]", [[], [1, 2]], "()"),
    T("Set[int]", [[1, 2]], "set", factory=True),
    T("FrozenSet[str]", [["a"]], "frozenset()"),
    T("Union[int, str]", [1, "a"], "0"),
    T("Union[date, UUID]", ["2020-01-02", UUID_S], "date(2000, 1, 1)"),
    T("Union[List[int], Dict[str, int]]", [[1], {"a": 1}], "list", factory=True),
    T("Union[int, None, date]", [1, None, "2020-01-02"], "0"),
    T("Optional[Union[int, date]]", [1, None, "2020-01-02"], "0"),
    T("List[Union[int, None, date]]", [[1, None, "2020-01-02"]], "list", factory=True),
    T("Any", [None, 1, "a", [1], {"a": 1}], "7", ident=True, nullable=True),
    T("Inner", [{"x": 1}, {"x": 2, "y": "2020-01-02"}], "lambda: Inner(0)", factory=True),
    T("InnerF", [{"a": "s"}], "lambda: InnerF('')", factory=True),
    T("InnerP", [{}, {"p": 3, "q": [1]}], "InnerP", factory=True),
    T("NT", [[1, "x"], [2]], "NT(0)"),
    T("TD", [{"a": 1, "b": "s"}], "dict", factory=True),
    T("Literal[1, 'a']", [1, "a"], "1"),
    T("Annotated[Var, Discriminator(field='kind', include_subtypes=True)]",
      [{"kind": "v1"}, {"kind": "v2", "s": "t"}], "Var1", factory=True),
    T("Shape", [{"type": "circle", "r": 2}, {"type": "rect", "w": 1}], "Circle", factory=True),
    T("None", [None], "None", nullable=True),
    # PEP 695 alias: probe only (weight 0; its rendered name must be bound in the generated error paths, fix 3dfbd5e)
    T("OptI", [None, 3], "5", nullable=True),
]
POOL_BY_EXPR = {t.expr: t for t in POOL}
WEIGHTS = [6, 2, 2, 3, 4, 1, 2, 1, 2, 1, 1, 4, 3, 2, 4, 2, 1, 2, 3, 1, 1, 3, 1, 1, 1, 3, 2, 2, 3, 2, 1, 3,
           4, 1, 1, 2, 2, 1, 2, 1, 1, 0]
assert len(WEIGHTS) == len(POOL)

JUNK = ["zz", "", 5, -1.5, True, None, [1], ["a"], {"a": 1}, {}, [], "2020-13-45", [1, "a", 3], [[1]],
        {"x": "z"}, {"x": 1, "extra": 2}, [None], "12", 0, {"kind": "nope"}, {"type": ["circle"]}, [1, 2, 3, 4], "r", 1]


# ---------------------------------------------------------------------------
# schema = JSON-able description + source text
# ---------------------------------------------------------------------------

def gen_schema(rng, idx: int) -> dict:
    nf = rng.choice([1, 1, 2, 2, 3, 3, 4, 5, 6])
    if idx % 23 == 0 or rng.random() < 0.03:
        nf = 0
    mixin = rng.random() < 0.75
    forbid = rng.random() < 0.35
    use_alias = rng.random() < 0.3
    allow_nba = use_alias and rng.random() < 0.5
    name = f"K{idx}"
    fields = []
    seen_default = False
    for i in range(nf):
        ti = rng.choices(POOL, WEIGHTS)[0]
        mode = rng.choice(["req", "req", "def", "none"])   # required / typed default / default None
        if mode == "none" and ti.expr == "None":
            mode = "def"
        alias = f"A{i}" if use_alias and rng.random() < 0.6 else None
        fields.append({"name": f"f{i}", "type": ti.expr, "mode": mode, "alias": alias})
    lines = ["@dataclass", f"class {name}({'DataClassDictMixin' if mixin else ''}):".replace("()", "")]
    if not fields:
        lines.append("    pass")
    for f in fields:
        ti = POOL_BY_EXPR[f["type"]]
        args = []
        if f["mode"] == "def":
            args.append(("default_factory=" if ti.factory else "default=") + ti.default)
            seen_default = True
        elif f["mode"] == "none":
            args.append("default=None")
            seen_default = True
        elif seen_default:
            args.append("kw_only=True")
        if f["alias"]:
            args.append("metadata={'alias': %r}" % f["alias"])
        rhs = f" = field({', '.join(args)})" if args else ""
        lines.append(f"    {f['name']}: {f['type']}{rhs}")
    if forbid or allow_nba:
        lines.append("    class Config(BaseConfig):")
        if forbid:
            lines.append("        forbid_extra_keys = True")
        if allow_nba:
            lines.append("        allow_deserialization_not_by_alias = True")
    return {"cls": name, "source": "\n".join(lines) + "\n", "fields": fields, "mixin": mixin,
            "forbid": forbid, "allow_nba": allow_nba, "discr": None, "discr_keys": []}


# fixed schemas of the prelude that are used as roots as well
FIXED_SCHEMAS = [
    {"cls": "Circle", "source": "", "fields": [{"name": "r", "type": "int", "mode": "def", "alias": None}],
     "mixin": True, "forbid": True, "allow_nba": False, "discr": None, "discr_keys": ["type"]},
    {"cls": "Rect", "source": "", "fields": [{"name": "w", "type": "int", "mode": "req", "alias": None},
                                             {"name": "h", "type": "Optional[int]", "mode": "none", "alias": None}],
     "mixin": True, "forbid": False, "allow_nba": False, "discr": None, "discr_keys": []},
    {"cls": "Inner", "source": "", "fields": [{"name": "x", "type": "int", "mode": "req", "alias": None},
                                              {"name": "y", "type": "Optional[date]", "mode": "none", "alias": None}],
     "mixin": True, "forbid": False, "allow_nba": False, "discr": None, "discr_keys": []},
    {"cls": "InnerP", "source": "", "fields": [{"name": "p", "type": "int", "mode": "def", "alias": None},
                                               {"name": "q", "type": "List[int]", "mode": "def", "alias": None}],
     "mixin": False, "forbid": False, "allow_nba": False, "discr": None, "discr_keys": []},
]
DISCR_SCHEMAS = [
    {"cls": "Shape", "source": "", "fields": [], "mixin": True, "forbid": False, "allow_nba": False,
     "discr": "type", "discr_keys": [], "variants": [("circle", "Circle"), ("rect", "Rect")]},
    {"cls": "Plain2", "source": "", "fields": [], "mixin": False, "forbid": False, "allow_nba": False,
     "discr": "t", "discr_keys": [], "variants": [("a", "PlainA")]},
]
NOTAG_SCHEMA = {"cls": "NoTag", "source": "", "fields": [], "mixin": True, "forbid": False, "allow_nba": False,
                "discr": "", "discr_keys": [], "variants": [(None, "NoTagA"), (None, "NoTagB")]}

_PRELUDE_MOD = None
_MODS: list[str] = []


def prelude_module():
    global _PRELUDE_MOD
    if _PRELUDE_MOD is None:
        name = "c05_prelude"
        m = types.ModuleType(name)
        sys.modules[name] = m
        _MODS.append(name)
        exec(compile(PRELUDE, "<c05 prelude>", "exec"), m.__dict__)
        _PRELUDE_MOD = m
    return _PRELUDE_MOD


def build_module(schema: dict, fresh_prelude: bool = False):
    """Materialise the schema: returns the module holding the class (prelude names included)."""
    if fresh_prelude and not schema.get("own_module"):
        name = f"c05_replay_{schema['cls']}"
        m = types.ModuleType(name)
        sys.modules[name] = m
        _MODS.append(name)
        exec(compile(PRELUDE + "\n" + schema["source"], f"<{name}>", "exec"), m.__dict__)
        return m
    p = prelude_module()
    if not schema["source"]:
        return p
    if not schema.get("own_module"):
        # same module as the prelude classes (a holder in a module of its own trips over the known finding
        # annotated-discriminator-unbound-holder-module, which has a dedicated probe)
        exec(compile(schema["source"], f"<c05 {schema['cls']}>", "exec"), p.__dict__)
        return p
    name = f"c05_{schema['cls']}"
    m = types.ModuleType(name)
    m.__dict__.update({k: v for k, v in p.__dict__.items() if not k.startswith("__")})
    sys.modules[name] = m
    _MODS.append(name)
    exec(compile(schema["source"], f"<{name}>", "exec"), m.__dict__)
    return m


def cleanup_modules():
    global _PRELUDE_MOD
    for n in _MODS:
        sys.modules.pop(n, None)
    _MODS.clear()
    _PRELUDE_MOD = None


# ---------------------------------------------------------------------------
# inputs
# ---------------------------------------------------------------------------

def key_of(f: dict) -> str:
    return f["alias"] or f["name"]


def valid_input(rng, schema: dict) -> dict:
    d = {}
    for f in schema["fields"]:
        ti = POOL_BY_EXPR[f["type"]]
        if f["mode"] == "req" or rng.random() < 0.75:
            k = key_of(f)
            if f["alias"] and schema["allow_nba"] and rng.random() < 0.4:
                k = f["name"]
            d[k] = copy.deepcopy(rng.choice(ti.valid))
    return d


def corrupt(rng, schema: dict, d: dict) -> tuple[object, str]:
    """One corrupted variant of a valid input; returns (input, label)."""
    fields = schema["fields"]
    d = copy.deepcopy(d)
    kind = rng.choice(["junk", "junk", "junk2", "junk3", "missing", "null", "extra", "extra2", "str4list",
                       "longtuple", "whole", "whole", "none", "wrapper", "nonstrkey", "bykey", "allbad"])
    if not fields and kind not in ("whole", "extra", "wrapper", "nonstrkey"):
        kind = rng.choice(["whole", "extra"])
    if kind in ("junk", "junk2", "junk3", "allbad"):
        n = {"junk": 1, "junk2": 2, "junk3": 3, "allbad": len(fields)}[kind]
        for f in rng.sample(fields, min(n, len(fields))):
            d[key_of(f)] = copy.deepcopy(rng.choice(JUNK))
        if kind != "junk" and rng.random() < 0.3 and fields:
            d.pop(key_of(rng.choice(fields)), None)
    elif kind == "missing":
        for f in rng.sample(fields, min(rng.choice([1, 1, 2]), len(fields))):
            d.pop(key_of(f), None)
            d.pop(f["name"], None)
    elif kind == "null":
        for f in rng.sample(fields, min(rng.choice([1, 2]), len(fields))):
            d[key_of(f)] = None
    elif kind in ("extra", "extra2"):
        d[rng.choice(["zzz", "f0 ", "F0", "type", "kind", "extra"])] = rng.choice(JUNK)
        if kind == "extra2":
            d[rng.choice(["y1", "f99", ""])] = 1
            if fields and rng.random() < 0.5:
                d[key_of(rng.choice(fields))] = copy.deepcopy(rng.choice(JUNK))
    elif kind == "str4list":
        f = rng.choice(fields)
        d[key_of(f)] = rng.choice(["abc", "12", ""])
    elif kind == "longtuple":
        f = rng.choice(fields)
        d[key_of(f)] = rng.choice([[1, "a", 3], [1] * 5, [[1, 2], [3]]])
    elif kind == "whole":
        return copy.deepcopy(rng.choice([[1, 2], "abc", 5, None, 1.5, True, [], "", [["f0", 1]], [d], 0])), kind
    elif kind == "none":
        pass
    elif kind == "wrapper":
        return (rng.choice(["D2", "OrderedDict", "MappingProxyType"]), d), kind
    elif kind == "nonstrkey":
        d[rng.choice([7, 1.5, None, True])] = 1
    elif kind == "bykey":
        # name given where the alias is expected / the other way round
        for f in fields:
            if f["alias"] and key_of(f) in d and rng.random() < 0.7:
                d[f["name"]] = d.pop(key_of(f))
    return d, kind


def realise(mod, x):
    """Turn an input description into the Python object handed to the library."""
    if isinstance(x, tuple) and len(x) == 2 and x[0] in ("D2", "OrderedDict", "MappingProxyType"):
        return getattr(mod, x[0])(copy.deepcopy(x[1]))
    return copy.deepcopy(x)


def pyexpr(x) -> str:
    if isinstance(x, tuple) and len(x) == 2 and x[0] in ("D2", "OrderedDict", "MappingProxyType"):
        return f"{x[0]}({x[1]!r})"
    return repr(x)


# ---------------------------------------------------------------------------
# encoders: Python values / outcomes -> Coq terms of Core.pv / Core.exn
# ---------------------------------------------------------------------------

def token(x) -> str:
    r = f"{type(x).__module__}.{type(x).__qualname__}:{x!r}"
    return f"{type(x).__name__}:" + hashlib.sha1(r.encode("utf-8", "surrogatepass")).hexdigest()[:12]


def enc_float(f: float) -> str:
    if math.isnan(f):
        return "(VFloat FNan)"
    if math.isinf(f):
        return f"(VFloat (FInf {coq_bool(f < 0)}))"
    if f == 0 and math.copysign(1, f) < 0:
        return "(VFloat FNegZero)"
    n, d = f.as_integer_ratio()
    e = -(d.bit_length() - 1)
    return f"(VFloat (FNum {coq_z(n)} {coq_z(e)}))"


def enc(x, depth=0) -> str:
    """Structural for JSON-like values (exact types only), opaque token for everything else."""
    t = type(x)
    if x is None:
        return "VNone"
    if t is bool:
        return f"(VBool {coq_bool(x)})"
    if t is int:
        return f"(VInt {coq_z(x)})"
    if t is float:
        return enc_float(x)
    if t is str:
        return f"(VStr {coq_str(x)})"
    if t is list and depth < 6:
        return "(VList " + coq_list([enc(i, depth + 1) for i in x]) + ")"
    if t is tuple and depth < 6:
        return "(VTuple " + coq_list([enc(i, depth + 1) for i in x]) + ")"
    if (t is dict or t.__name__ in ("D2", "OrderedDict")) and depth < 6:
        return "(VDict " + coq_list([f"({enc(k, depth + 1)}, {enc(v, depth + 1)})" for k, v in x.items()]) + ")"
    return f"(VOther {coq_str(token(x))})"


def enc_instance(cls_name: str, inst, field_names) -> str:
    return (f"(VObj {coq_str(cls_name)} " +
            coq_list([f"({coq_str(n)}, {enc(getattr(inst, n))})" for n in field_names]) + ")")


SIMPLE_EXN = {"ValueError": "XValueError", "TypeError": "XTypeError", "AttributeError": "XAttributeError",
              "KeyError": "XKeyError", "IndexError": "XIndexError"}


def enc_exn(e: BaseException, key_order=None) -> str:
    n = type(e).__name__
    mod = type(e).__module__
    if mod == "builtins" and n in SIMPLE_EXN:
        return SIMPLE_EXN[n]
    if mod == "mashumaro.exceptions":
        if n == "InvalidFieldValue":
            return f"(XInvalidFieldValue {coq_str(str(e.field_name))} {enc(e.field_value)} {coq_str(e.holder_class.__name__)})"
        if n == "MissingField":
            return f"(XMissingField {coq_str(str(e.field_name))} {coq_str(e.holder_class.__name__)})"
        if n == "ExtraKeysError":
            ks = list(e.extra_keys)
            order = list(key_order or [])
            # canonical order = order of the keys in the input (sets are unordered); unknown keys last
            ks.sort(key=lambda k: next((i for i, o in enumerate(order) if type(o) is type(k) and o == k), len(order)))
            return f"(XExtraKeys {coq_list([enc(k) for k in ks])} {coq_str(e.target_type.__name__)})"
        if n == "MissingDiscriminatorError":
            return f"(XMissingDiscriminator {coq_str(str(e.field_name))})"
        if n == "SuitableVariantNotFoundError":
            return "XNoVariant"
    base_only = not isinstance(e, Exception)
    return f"(XOther {coq_str(('Base:' if base_only else '') + n)})"


def outcome(fn, arg, key_order=None, inst_enc=None):
    """Run fn(arg); returns (coq term of type res pv, python summary, exception or None, result)."""
    try:
        r = fn(arg)
    except BaseException as e:  # noqa: BLE001 - every class is an observation here
        if isinstance(e, (KeyboardInterrupt, SystemExit, MemoryError)):
            raise
        return f"(Exn {enc_exn(e, key_order)})", f"{type(e).__name__}", e, None
    term = inst_enc(r) if inst_enc else enc(r)
    return f"(Ok {term})", "ok", None, r


# ---------------------------------------------------------------------------
# discriminated hierarchies (fresh classes per call history: the tag registry is filled lazily,
# so the FIRST call for a tag takes a different path from later ones)
# ---------------------------------------------------------------------------

HPOOL = ["int", "str", "date", "Optional[int]", "List[int]", "Inner", "Tuple[int, str]", "Color", "bool", "Dict[str, int]"]
FLAVOURS = ["config-mixin", "config-codec", "annotated-codec", "annotated-field", "config-msgpack", "config-orjson"]
MIXIN_OF = {"config-msgpack": "DataClassMessagePackMixin", "config-orjson": "DataClassORJSONMixin"}


def gen_hierarchy(rng, idx: int) -> dict:
    flavour = rng.choice(FLAVOURS)
    field = rng.choice(["type", "kind", "t", "tag_"])
    nvar = rng.choice([1, 2, 2, 3, 3, 4])
    classes = []
    for j in range(nvar):
        parent = None
        if classes and rng.random() < 0.25:
            parent = rng.randrange(len(classes))
        tag_style = rng.choice(["attr", "attr", "literal"])
        if parent is not None and rng.random() < 0.3:
            tag_style = "none"            # inherits the parent's tag: not registered under a tag of its own
        fields = []
        for i in range(rng.choice([0, 1, 1, 2, 2, 3])):
            t = rng.choice(HPOOL)
            mode = rng.choice(["req", "req", "def"])
            fields.append({"name": f"v{j}f{i}", "type": t, "mode": mode})
        classes.append({"suffix": f"V{j}", "parent": parent, "tag": f"tag{j}" if tag_style != "none" else None,
                        "tag_style": tag_style, "fields": fields, "forbid": rng.random() < 0.2,
                        # the variant's OWN from_dict may raise any class (user hook), KeyError / AttributeError included
                        "hook": rng.random() < 0.35})
    # ADD_DIALECT_SUPPORT: calls may pass dialect= (an empty Dialect: same outcome demanded)
    dialect_support = flavour in ("config-mixin", "config-msgpack", "config-orjson") and rng.random() < 0.6
    return {"idx": idx, "flavour": flavour, "field": field, "classes": classes, "dialect_support": dialect_support,
            "tagger": rng.random() < 0.25}


def tags_of(h: dict, i: int) -> list[str]:
    """the tags class i is registered under (own tag attribute, or the list the variant_tagger_fn returns)"""
    c = h["classes"][i]
    if h.get("tagger"):
        j = c["suffix"][1:]
        return ["v" + j, "alt-v" + j]
    return [c["tag"]] if c["tag"] is not None else []


def discr_expr(h: dict) -> str:
    return (f"Discriminator(field={h['field']!r}, include_subtypes=True"
            + (", variant_tagger_fn=c05_tagger" if h.get("tagger") else "") + ")")


def hier_source(h: dict, prefix: str) -> str:
    base = f"{prefix}{h['idx']}"
    mixin = h["flavour"] != "config-codec" or True
    lines = ["@dataclass", f"class {base}({MIXIN_OF.get(h['flavour'], 'DataClassDictMixin')}):"]
    if h["flavour"].startswith("config"):
        lines += ["    class Config(BaseConfig):",
                  f"        discriminator = {discr_expr(h)}"]
        if h.get("dialect_support"):
            lines += ["        code_generation_options = [ADD_DIALECT_SUPPORT]"]
    else:
        lines += ["    pass"]
    for c in h["classes"]:
        par = base if c["parent"] is None else base + h["classes"][c["parent"]]["suffix"]
        lines += ["@dataclass", f"class {base}{c['suffix']}({par}):"]
        body = []
        if c["tag_style"] == "attr" and not h.get("tagger"):
            body.append(f"    {h['field']} = {c['tag']!r}")
        for f in c["fields"]:
            ti = POOL_BY_EXPR[f["type"]]
            args = ["kw_only=True"]
            if f["mode"] == "def":
                args.append(("default_factory=" if ti.factory else "default=") + ti.default)
            body.append(f"    {f['name']}: {f['type']} = field({', '.join(args)})")
        if c["tag_style"] == "literal" and not h.get("tagger"):
            body.append(f"    {h['field']}: Literal[{c['tag']!r}] = field(default={c['tag']!r}, kw_only=True)")
        if c["forbid"]:
            body += ["    class Config(BaseConfig):", "        forbid_extra_keys = True"]
        if c.get("hook"):
            body += ["    @classmethod", "    def __pre_deserialize__(cls, d):",
                     "        if isinstance(d, dict) and 'boom' in d:",
                     "            raise {'key': KeyError, 'attr': AttributeError, 'type': TypeError, 'lookup': LookupError,"
                     " 'index': IndexError}[d['boom']]('boom')",
                     "        return d"]
        lines += body or ["    pass"]
    if h["flavour"] == "annotated-field":
        lines += ["@dataclass", f"class {base}Holder(DataClassDictMixin):",
                  f"    v: Annotated[{base}, {discr_expr(h)}]"]
    return "\n".join(lines) + "\n"


def hier_walk(h: dict) -> list[int]:
    """iter_all_subclasses order: depth first, definition order."""
    out = []

    def rec(parent):
        for i, c in enumerate(h["classes"]):
            if c["parent"] == parent:
                out.append(i)
                rec(i)
    rec(None)
    return out


def hier_all_fields(h: dict, i: int) -> list[dict]:
    c = h["classes"][i]
    inherited = hier_all_fields(h, c["parent"]) if c["parent"] is not None else []
    return inherited + c["fields"]


def hier_inputs(rng, h: dict) -> list:
    """A call history: 2-5 inputs, most of them making the chosen variant's OWN decoding fail,
    often repeated (first call for a tag vs later calls)."""
    tagged = [i for i, c in enumerate(h["classes"]) if tags_of(h, i)]
    out = []
    for _ in range(rng.choice([2, 3, 3, 4])):
        if out and rng.random() < 0.3:
            out.append(copy.deepcopy(rng.choice(out)))
            continue
        i = rng.choice(tagged) if tagged else 0
        c = h["classes"][i]
        d = {h["field"]: rng.choice(tags_of(h, i) or ["tag0"])}
        fields = hier_all_fields(h, i)
        for f in fields:
            if f["mode"] == "req" or rng.random() < 0.6:
                d[f["name"]] = copy.deepcopy(rng.choice(POOL_BY_EXPR[f["type"]].valid))
        req = [f for f in fields if f["mode"] == "req"]
        kind = rng.choice(["ok", "missing", "missing", "missing", "junk", "junk", "extra", "unknown-tag", "no-tag",
                           "nonmapping", "unhashable-tag", "odd-tag"])
        if kind == "missing" and req:
            d.pop(rng.choice(req)["name"])
        elif kind == "junk" and fields:
            d[rng.choice(fields)["name"]] = copy.deepcopy(rng.choice(JUNK))
        elif kind == "extra":
            d[rng.choice(["zzz", "extra", "v9f9"])] = 1
        elif kind == "unknown-tag":
            d[h["field"]] = rng.choice(["nope", "", "tag99", "TAG0"])
        elif kind == "no-tag":
            d.pop(h["field"])
        elif kind == "nonmapping":
            d = rng.choice([[1], "abc", 5, None, [[h["field"], "tag0"]]])
        elif kind == "unhashable-tag":
            d[h["field"]] = rng.choice([["tag0"], {"a": 1}])
        elif kind == "odd-tag":
            d[h["field"]] = rng.choice([None, 0, 1.5, True])
        if isinstance(d, dict) and any(c.get("hook") for c in h["classes"]) and rng.random() < 0.4:
            d["boom"] = rng.choice(["key", "key", "attr", "type", "lookup", "index", "nope"])
        out.append(d)
    return out
