"""C07 - absent keys take defaults, present keys always win.

theorems (coq/props/C07_bind.v)  ->  correspondence of the Coq model (coq/theories/Bind.v) with the real
generated from_dict on generated class hierarchies x all key subsets  ->  direct oracle of the property.
"""
from __future__ import annotations

import dataclasses
import inspect
import itertools
import sys
import time
import types
import typing

from harness import vlib
from harness.vlib import coq_bool, coq_list, coq_str, coq_z

# ---------------------------------------------------------------------------
# program text
# ---------------------------------------------------------------------------

PRELUDE = '''\
import dataclasses
from dataclasses import field, InitVar, KW_ONLY
from datetime import timedelta
from decimal import Decimal
from enum import IntEnum
from typing import Annotated, Any, ClassVar, Final, List, NewType, Optional, Tuple, TypeVar, Union
from mashumaro import DataClassDictMixin, field_options, pass_through
from mashumaro.config import BaseConfig
from mashumaro.types import Alias

class Color(IntEnum):
    ZERO = 0
    ONE = 1
    TWO = 2
type OptInt = int | None
type OptFloat = float | None
type OptStr = None | str
type OptBool = bool | None
type OptInts = List[int] | None
type OptDecimal = Decimal | None
type OptTimedelta = None | timedelta
type OptTuple = Tuple[int, ...] | None
type OptColor = Color | None
NtOptInt = NewType("NtOptInt", Optional[int])
NtOptFloat = NewType("NtOptFloat", Optional[float])
NtOptDecimal = NewType("NtOptDecimal", Optional[Decimal])
NtOptColor = NewType("NtOptColor", Optional[Color])
TvOptInt = TypeVar("TvOptInt", bound=Optional[int])
TvOptStr = TypeVar("TvOptStr", bound=Optional[str])
TvOptTimedelta = TypeVar("TvOptTimedelta", bound=Optional[timedelta])
TvOptTuple = TypeVar("TvOptTuple", bound=Optional[Tuple[int, ...]])

_PRE = {}
_ALLOC = [0]
class Box:
    """object made by the default factory mk"""
    def __init__(self):
        self.n = _ALLOC[0]
        _ALLOC[0] += 1
    def __repr__(self):
        return "Box#%d" % self.n
def mk():
    return Box()
def _snap(v):
    if isinstance(v, dataclasses.Field):
        return ("field", v.default, v.default_factory, v.init, v.kw_only)
    return ("value", v)
def dataclass(cls=None, /, **kw):
    # the stdlib decorator; records the class namespace as it is before dataclass processing
    def wrap(c):
        _PRE[c.__name__] = {k: _snap(v) for k, v in c.__dict__.items()}
        return dataclasses.dataclass(c, **kw)
    return wrap if cls is None else wrap(cls)
'''

# type name -> (conversion kind in Coq, python conversion, nullable by type, identity unpacker)
def _ints(v):
    return [int(x) for x in v]


def _td(v):
    import datetime
    return datetime.timedelta(seconds=v)


def _tup(v):
    return tuple([int(x) for x in v])


def _dec(v):
    import decimal
    return decimal.Decimal(v)


def _color(v):
    return ("Color", v)          # resolved against the program's own Color class in pyconv


_CONV = {"int": ("CInt", int), "float": ("CFloat", float), "str": ("CStr", str), "bool": ("CBool", bool),
         "List[int]": ("CList", _ints), "Decimal": ("CDec", _dec), "timedelta": ("CTd", _td),
         "Tuple[int, ...]": ("CTup", _tup), "Color": ("CEnum", _color)}
_PEP695 = {"int": "OptInt", "float": "OptFloat", "str": "OptStr", "bool": "OptBool", "List[int]": "OptInts",
           "Decimal": "OptDecimal", "timedelta": "OptTimedelta", "Tuple[int, ...]": "OptTuple", "Color": "OptColor"}
_NEWTYPE = {"int": "NtOptInt", "float": "NtOptFloat", "Decimal": "NtOptDecimal", "Color": "NtOptColor"}
_TYPEVAR = {"int": "TvOptInt", "str": "TvOptStr", "timedelta": "TvOptTimedelta", "Tuple[int, ...]": "TvOptTuple"}
# spelling -> (conversion kind in Coq, python conversion, nullable AS THE FIELD BLOCK SEES IT, identity unpacker,
#              nullable behind a wrapper: the unpacker expression itself maps None to None)
TYPES = {"Any": ("CId", None, True, True, False)}
BASE = {"Any": "Any"}
SPELLING_CLASS = {"Any": "any"}
for _b, (_k, _f) in _CONV.items():
    _sps = [(_b, "plain"),
            ("Optional[%s]" % _b, "optional"), ("%s | None" % _b, "optional"),
            ("None | %s" % _b, "none-first"), ("Union[None, %s]" % _b, "none-first"),
            ('Annotated[Optional[%s], "meta"]' % _b, "wrapped"), ('Annotated[None | %s, "meta"]' % _b, "wrapped"),
            ("Final[Optional[%s]]" % _b, "wrapped"), (_PEP695[_b], "wrapped")]
    if _b in _NEWTYPE:
        _sps.append((_NEWTYPE[_b], "wrapped"))
    if _b in _TYPEVAR:
        _sps.append((_TYPEVAR[_b], "wrapped"))
    for _sp, _cls in _sps:
        TYPES[_sp] = (_k, _f, _cls in ("optional", "none-first"), False, _cls == "wrapped")
        BASE[_sp] = _b
        SPELLING_CLASS[_sp] = _cls
PASSABLE = ("int", "Optional[int]", "Optional[float]", "None | int")     # also generated with deserialize=pass_through
LISTS = tuple(t for t in TYPES if BASE[t] == "List[int]")      # defaults only through a factory (or None)


class Src(str):
    """a default value given by its python source text (objects of classes the program text defines or imports)"""


def py_src(v):
    return str(v) if isinstance(v, Src) else repr(v)


def base_of(tname):
    return BASE[tname]


def type_nullable(tname):
    return TYPES[tname][2] or TYPES[tname][4]


NAMES = ["a", "b", "c", "e", "f", "g", "h", "k", "value", "kwargs", "d", "cls", "_p", "m", "n"]
MISSING = dataclasses.MISSING
UNSET = object()


def typed_value(rng, base, cat):
    """a value of the base type from one region of the truthiness spectrum: 'falsy' (non-None), 'truthy',
    'big' (equal objects are not identical: no small-int / interned-string caching)"""
    if base == "Any":
        base = rng.choice(["int", "float", "str", "bool"])
    if base == "int":
        return {"falsy": 0, "truthy": rng.choice([1, -2, rng.randrange(2, 50)]), "big": rng.choice([257, 1000, 10 ** 6])}[cat]
    if base == "float":
        return {"falsy": 0.0, "truthy": float(rng.randrange(1, 50)), "big": float(rng.choice([1000, 10 ** 6]))}[cat]
    if base == "str":
        return {"falsy": "", "truthy": "s%d" % rng.randrange(0, 30), "big": "long string %d" % rng.randrange(1000, 9999)}[cat]
    if base == "bool":
        return cat != "falsy"
    if base == "List[int]":
        return [] if cat == "falsy" else [rng.randrange(0, 9) for _ in range(rng.randrange(1, 3))]
    if base == "Decimal":
        return Src({"falsy": rng.choice(["Decimal(0)", "Decimal('0.0')"]),
                    "truthy": rng.choice(["Decimal('1.5')", "Decimal(3)", "Decimal('-2')"]),
                    "big": "Decimal('1000000.25')"}[cat])
    if base == "timedelta":
        return Src({"falsy": "timedelta(0)", "truthy": "timedelta(seconds=%d)" % rng.randrange(1, 90),
                    "big": "timedelta(days=12)"}[cat])
    if base == "Tuple[int, ...]":
        return Src({"falsy": "()", "truthy": rng.choice(["(1, 2)", "(0,)"]), "big": "(1000, 257, 3)"}[cat])
    if base == "Color":
        return Src({"falsy": "Color.ZERO", "truthy": rng.choice(["Color.ONE", "Color.TWO"]), "big": "Color.TWO"}[cat])
    raise KeyError(base)


def sample_default(rng, tname, cat=None):
    """a default for a field of that type: falsy non-None / truthy / big / None"""
    if cat is None:
        r = rng.random()
        none_p = 0.22 if type_nullable(tname) else 0.1        # None under a non-Optional type makes it nullable too
        cat = "none" if r < none_p else rng.choice(["falsy", "falsy", "truthy", "truthy", "big"])
    if cat == "none":
        return None
    return typed_value(rng, base_of(tname), cat)


def sample_value(rng, tname, for_default=False):
    return sample_default(rng, tname) if for_default else typed_value(
        rng, base_of(tname), rng.choice(["falsy", "truthy", "truthy", "big"]))


def sample_input_value(rng, m):
    """a wire value for a present key: explicit null for nullable fields, falsy / truthy / big values, values equal to
    the default (same type, or equal under == with another type), values that need conversion"""
    tname = m["type"]
    base = base_of(tname)
    # null is sent to a field that is nullable by type or by a None default; not when that default is only the
    # inherited class attribute the eager mixin build cannot see (known finding override-inherits-class-default:
    # there the null would be converted and fail with InvalidFieldValue, which this model does not cover)
    nullable = m["sem_null"] or (m["def"] == ("val", None) and not m["inherits_class_default"])
    if nullable and rng.random() < 0.35:
        return None
    dv = m["def"][1] if m["def"][0] == "val" else None
    fits = {"int": (int, float, bool), "float": (int, float, bool), "str": (str,), "bool": (bool,)}
    if dv is not None and type(dv) in (fits.get(base, ()) if not m["ident"] else (int, float, str, bool)) \
            and rng.random() < 0.25:
        # equal to the default: the very value, or an equal one of another type where the field accepts it
        alts = [dv]
        if (m["ident"] or base in ("int", "float")) and type(dv) in (int, float, bool) and dv == int(dv):
            alts += [int(dv), float(dv)] + ([bool(dv)] if dv in (0, 1) else [])
        if base == "bool":
            alts += [int(dv)]
        return rng.choice(alts)
    if not m["ident"] and rng.random() < ILL_TYPED_P:
        return ill_typed(rng, base, nullable or m["def"] == ("val", None))
    cat = rng.choice(["falsy", "truthy", "truthy", "big"])
    if m["ident"]:
        return typed_value(rng, "Any", cat)
    if base in ("int", "float"):
        v = typed_value(rng, rng.choice(["int", "float"]), cat)
        return bool(v) if v in (0, 1) and rng.random() < 0.2 else v
    if base == "bool":
        return rng.choice([cat != "falsy", int(cat != "falsy")])
    if base == "str":
        if rng.random() < 0.15:      # str(value) accepts anything
            return rng.choice([rng.randrange(-3, 50), float(rng.randrange(0, 9)), True, False, [1, 2], []])
        return typed_value(rng, "str", cat)
    if base == "Decimal":
        return rng.choice([{"falsy": "0", "truthy": "1.5", "big": "1000000.25"}[cat], "-2", "0.0",
                           typed_value(rng, "int", cat), typed_value(rng, "float", cat)])
    if base == "timedelta":
        v = typed_value(rng, rng.choice(["int", "float"]), cat)
        return abs(v) if rng.random() < 0.8 else v
    if base == "Tuple[int, ...]":
        return typed_value(rng, "List[int]", cat)
    if base == "Color":
        return rng.choice([0, 1, 2, 1.0, 2.0, True, False] if cat != "falsy" else [0, 0.0, False])
    return typed_value(rng, base, cat)


ILL_TYPED_P = 0.05


def ill_typed(rng, base, nullable):
    """a value the field's conversion rejects (or, for str/bool, coerces): the generated code must answer with
    InvalidFieldValue for that field - never with a default or a silently wrong value.  Strings never parse as
    numbers (they contain a letter or are empty)."""
    pool = ["abc", "", "x9", [1]] + ([] if nullable else [None, None])
    if base in ("List[int]", "Tuple[int, ...]"):
        pool += [5, True, "s1"]
    if base == "Color":
        pool += [7, -1, "ONE", 3.0]
    if base == "Decimal":
        pool += ["1,5", "1.5x"]
    return rng.choice(pool)


def pick_type(rng):
    """type spelling of a random field: the spelling classes are weighted, the base type is uniform"""
    r = rng.random()
    cls = "plain" if r < 0.35 else "any" if r < 0.45 else "optional" if r < 0.65 else "none-first" if r < 0.77 else "wrapped"
    return rng.choice([t for t in TYPES if SPELLING_CLASS[t] == cls])


ALIAS_MECHS = ["field_options", "annotated", "config"]       # documented precedence, strongest first


def add_aliases(rng, prog, force=False):
    """alias dimension: up to two normal members get an alias through field_options, Annotated[.., Alias] or
    Config.aliases - sometimes through two or all three at once with different keys, so that the precedence
    matters; Config.allow_deserialization_not_by_alias on or off"""
    prog["nba"] = rng.random() < 0.5
    prog["aliases"] = {}
    normal = []
    allnames = []
    for cls in prog["classes"]:
        for m in cls["members"]:
            if m["name"] not in allnames:
                allnames.append(m["name"])
            if m["kind"] == "normal" and m["name"] not in normal:
                normal.append(m["name"])
    if not normal or not (force or rng.random() < 0.4):
        return
    used = []
    for name in rng.sample(normal, min(len(normal), rng.choice([1, 2]))):
        mechs = rng.sample(ALIAS_MECHS, rng.choice([1, 1, 2, 3]))
        srcs = []
        for mech in mechs:
            key = "%s_%s" % ({"field_options": "fo", "annotated": "an", "config": "cf"}[mech], name)
            others = [n for n in allnames if n != name and n != "_" and n not in normal]   # ClassVar / InitVar names
            if others and rng.random() < 0.1:
                key = rng.choice(others)            # the alias is the name of another (non-init) member
            if key in used:
                continue
            used.append(key)
            srcs.append((mech, key))
        if srcs:
            prog["aliases"][name] = srcs


def expected_alias(srcs):
    """the alias that counts when several sources name one: field_options, then Annotated Alias, then Config.aliases"""
    for mech in ALIAS_MECHS:
        for mm, key in srcs or []:
            if mm == mech:
                return key
    return None


def gen_program(rng, nmax):
    """abstract program: a chain of 1..3 dataclasses (optionally over a plain annotated base)"""
    nclasses = rng.choice([1, 1, 2, 2, 3])
    total = rng.randrange(max(2, nclasses), nmax + 1)
    mixin = rng.random() < 0.7
    prog = {"mixin": mixin, "lazy": mixin and rng.random() < 0.15,
            "plain_base": None, "classes": []}
    if rng.random() < 0.06:
        prog["plain_base"] = {"name": "_pb", "value": rng.choice([None, 7])}
        total = max(total - 1, nclasses)
    # split the member budget over the classes
    counts = [1] * nclasses
    for _ in range(total - nclasses):
        counts[rng.randrange(nclasses)] += 1
    pool = list(NAMES)
    rng.shuffle(pool)
    inherited: list[dict] = []
    for ci, cnt in enumerate(counts):
        cls = {"name": "C%d" % ci, "kw_only": rng.random() < 0.15, "slots": rng.random() < 0.08, "members": []}
        sentinel_at = rng.randrange(cnt + 1) if rng.random() < 0.2 else None
        # the later a member, the likelier a default (most random layouts would be rejected by Python otherwise)
        cut = rng.randrange(0, cnt + 1)
        for mi in range(cnt):
            if sentinel_at == mi:
                cls["members"].append({"name": "_", "kind": "sentinel"})
            override = inherited and rng.random() < 0.3
            if override:
                base = rng.choice(inherited)
                name = base["name"]
                if any(x["name"] == name for x in cls["members"]):
                    override = False
            if not override:
                if not pool:
                    break
                name = pool.pop()
            r = rng.random()
            if r < 0.08:
                m = {"name": name, "kind": "initvar", "value": rng.randrange(0, 9),
                     "via_field": rng.random() < 0.3, "kw_only": rng.choice([None, None, True])}
            elif r < 0.16:
                m = {"name": name, "kind": "classvar", "value": rng.choice([None, rng.randrange(50, 59)]),
                     "has_value": rng.random() < 0.8}
            else:
                tname = pick_type(rng)
                m = {"name": name, "kind": "normal", "type": tname, "rhs": None}
                want_default = mi >= cut or rng.random() < 0.15
                if override and base.get("kind") == "normal" and base.get("rhs") and base["rhs"][0] == "plain" \
                        and rng.random() < 0.25:
                    # re-annotation without a value of a member whose base has a class-level default
                    cls["members"].append(m)
                    continue
                use_field = rng.random() < 0.45
                if tname in LISTS and want_default:
                    use_field = not type_nullable(tname) or rng.random() < 0.6
                if use_field:
                    fd = {"default": MISSING, "factory": None, "init": rng.random() >= 0.15,
                          "kw_only": rng.choice([None, None, True, False]),
                          "pass": tname in PASSABLE and rng.random() < 0.35}
                    if want_default:
                        if tname in LISTS:
                            fd["factory"] = "list"
                        elif tname == "Any" and rng.random() < 0.6:
                            fd["factory"] = "mk"
                        elif rng.random() < 0.12:
                            fd["default"] = None          # None default under a non-Optional type
                        else:
                            fd["default"] = sample_value(rng, tname, True)
                    m["rhs"] = ("field", fd)
                elif want_default:
                    m["rhs"] = ("plain", None if tname in LISTS else sample_value(rng, tname, True))
            cls["members"].append(m)
        if sentinel_at == cnt:
            cls["members"].append({"name": "_", "kind": "sentinel"})
        for m in cls["members"]:
            if m["kind"] != "sentinel" and not any(x["name"] == m["name"] for x in inherited):
                inherited.append(m)
        prog["classes"].append(cls)
    add_aliases(rng, prog)
    return prog


def spectrum_programs(rng):
    """systematic part of the generator, present in every run: every type spelling (plain, Optional[X], X | None,
    None | X, Union[None, X], Annotated / Final / PEP 695 wrappers of an Optional, Any) occurs with two different
    default regions (falsy non-None / truthy / big / None / factory), the pass_through variants too; classes of <= 8
    defaulted fields, rotating over eager mixin / plain dataclass + codec / lazy mixin / two classes; every program
    has one or two aliased fields (field_options, Annotated Alias, Config.aliases), half of them with
    allow_deserialization_not_by_alias.  Inputs are all subsets of the key universe like everywhere else, so each
    field meets absent / explicit null / present under alias key / under name / both, many times"""
    fields = []
    for tname in TYPES:
        if tname in LISTS:
            cats = ["factory"] + (["none"] if type_nullable(tname) else [])
        else:
            cats = rng.sample(["falsy", "truthy", "big", "none"], 2)
            if "falsy" not in cats and type_nullable(tname) and rng.random() < 0.5:
                cats[0] = "falsy"
        for cat in cats:
            fields.append((tname, cat, False))
        if tname in PASSABLE:
            fields.append((tname, rng.choice(["falsy", "truthy", "none"]), True))
    rng.shuffle(fields)
    progs = []
    for pi, k in enumerate(range(0, len(fields), 7)):
        variant = pi % 4           # eager mixin / plain dataclass + codec / lazy mixin / eager mixin, two classes
        prog = {"mixin": variant != 1, "lazy": variant == 2, "plain_base": None, "classes": []}
        names = list(NAMES)
        rng.shuffle(names)
        members = []
        for tname, cat, passthrough in fields[k:k + 7]:
            m = {"name": names.pop(), "kind": "normal", "type": tname, "rhs": None}
            form = "field" if (passthrough or cat == "factory") else rng.choice(["plain", "plain", "field"])
            if form == "plain":
                m["rhs"] = ("plain", sample_default(rng, tname, cat))
            else:
                m["rhs"] = ("field", {"default": MISSING if cat == "factory" else sample_default(rng, tname, cat),
                                      "factory": "list" if cat == "factory" else None, "init": True,
                                      "kw_only": rng.choice([None, None, True, False]), "pass": passthrough})
            members.append(m)
        if variant == 3 and len(members) > 3:
            cutp = len(members) // 2
            prog["classes"] = [{"name": "C0", "kw_only": False, "slots": False, "members": members[:cutp]},
                               {"name": "C1", "kw_only": rng.random() < 0.5, "slots": False, "members": members[cutp:]}]
        else:
            prog["classes"] = [{"name": "C0", "kw_only": False, "slots": False, "members": members}]
        add_aliases(rng, prog, force=True)
        prog["sweep"] = True
        prog["nba"] = pi % 2 == 0
        # aliases go to semantically nullable fields first: that is where a null under the alias key matters
        nullable_names = [m["name"] for m in members if type_nullable(m["type"])]
        if nullable_names and not any(n in nullable_names for n in prog["aliases"]):
            prog["aliases"][rng.choice(nullable_names)] = [(rng.choice(ALIAS_MECHS), "al_x")]
        progs.append(prog)
    return progs


def render_member(m, aliases=None):
    if m["kind"] == "sentinel":
        return "    _: KW_ONLY"
    if m["kind"] == "initvar":
        if m["via_field"]:
            kw = "" if m["kw_only"] is None else ", kw_only=%r" % m["kw_only"]
            return "    %s: InitVar[int] = field(default=%r%s)" % (m["name"], m["value"], kw)
        return "    %s: InitVar[int] = %r" % (m["name"], m["value"])
    if m["kind"] == "classvar":
        if m["has_value"]:
            return "    %s: ClassVar[Any] = %r" % (m["name"], m["value"])
        return "    %s: ClassVar[Any]" % m["name"]
    rhs = m["rhs"]
    tname = m["type"]
    srcs = dict((aliases or {}).get(m["name"]) or [])
    if "annotated" in srcs:
        tname = "Annotated[%s, Alias(%r)]" % (tname, srcs["annotated"])
    opts = {}
    if "field_options" in srcs:
        opts["alias"] = srcs["field_options"]
        if rhs is None:
            rhs = ("field", {"default": MISSING, "factory": None, "init": True, "kw_only": None, "pass": False})
        elif rhs[0] == "plain":
            rhs = ("field", {"default": rhs[1], "factory": None, "init": True, "kw_only": None, "pass": False})
    if rhs is None:
        return "    %s: %s" % (m["name"], tname)
    if rhs[0] == "plain":
        return "    %s: %s = %s" % (m["name"], tname, py_src(rhs[1]))
    fd = rhs[1]
    args = []
    if fd["default"] is not MISSING:
        args.append("default=%s" % py_src(fd["default"]))
    if fd["factory"]:
        args.append("default_factory=%s" % fd["factory"])
    if not fd["init"]:
        args.append("init=False")
    if fd["kw_only"] is not None:
        args.append("kw_only=%r" % fd["kw_only"])
    if fd["pass"]:
        opts["deserialize"] = "pass_through"
    if opts:
        args.append("metadata=field_options(%s)" % ", ".join(
            "%s=%s" % (k, v if k == "deserialize" else repr(v)) for k, v in opts.items()))
    return "    %s: %s = field(%s)" % (m["name"], tname, ", ".join(args))


def render(prog, with_mashumaro=True):
    """python source of the program; with_mashumaro=False gives the same classes without the mixin
    (used only to see whether Python itself accepts the layout)"""
    out = [PRELUDE if with_mashumaro else PRELUDE.replace(
        "from mashumaro import DataClassDictMixin, field_options, pass_through\nfrom mashumaro.config import BaseConfig\n"
        "from mashumaro.types import Alias\n",
        "class DataClassDictMixin: pass\nclass BaseConfig: pass\npass_through = object()\n"
        "def field_options(**kw): return kw\ndef Alias(x): return x\n")]
    bases0 = []
    if prog["plain_base"]:
        pb = prog["plain_base"]
        out.append("class P0:")
        out.append("    %s: int%s" % (pb["name"], "" if pb["value"] is None else " = %r" % pb["value"]))
        bases0.append("P0")
    if prog["mixin"]:
        bases0.append("DataClassDictMixin")
    prev = None
    for cls in prog["classes"]:
        opts = []
        if cls["kw_only"]:
            opts.append("kw_only=True")
        if cls["slots"]:
            opts.append("slots=True")
        out.append("@dataclass(%s)" % ", ".join(opts) if opts else "@dataclass")
        bases = [prev] if prev else bases0
        out.append("class %s%s:" % (cls["name"], "(%s)" % ", ".join(bases) if bases else ""))
        for m in cls["members"]:
            out.append(render_member(m, prog.get("aliases")))
        cfg = []
        if prog["lazy"]:
            cfg.append("        lazy_compilation = True")
        if prog.get("nba"):
            cfg.append("        allow_deserialization_not_by_alias = True")
        cal = {n: k for n, srcs in prog.get("aliases", {}).items() for mech, k in srcs if mech == "config"}
        if cal:
            cfg.append("        aliases = %r" % cal)
        if prev is None and cfg:
            out.append("    class Config(BaseConfig):")
            out += cfg
        prev = cls["name"]
    out.append("TARGET = %s" % prev)
    return "\n".join(out) + "\n"


_modcount = [0]


def load(src):
    _modcount[0] += 1
    name = "c07_prog_%d" % _modcount[0]
    mod = types.ModuleType(name)
    sys.modules[name] = mod
    try:
        exec(compile(src, name, "exec"), mod.__dict__)
    except BaseException:
        sys.modules.pop(name, None)
        raise
    return mod


def unload(mod):
    sys.modules.pop(mod.__name__, None)


# ---------------------------------------------------------------------------
# introspection: the truth about the class (CPython), and the facts the builder reads
# ---------------------------------------------------------------------------

def kind_of_hint(t):
    if t is dataclasses.KW_ONLY:
        return "sentinel"
    if isinstance(t, dataclasses.InitVar):
        return "initvar"
    if t is typing.ClassVar or typing.get_origin(t) is typing.ClassVar:
        return "classvar"
    return "normal"


def shape_of(t):
    """the type hint as CodeBuilder.is_field_nullable looks at it, in the grammar of kernel K17 (OptProj.fty):
    Annotated / Final wrappers, Any / NoneType / None, two-member Optional, wider union with None, unbound TypeVar,
    anything else (incl. PEP 695 aliases, NewTypes and bound TypeVars) plain"""
    if typing.get_origin(t) is typing.Annotated:
        return "(OptProj.TyAnnotated %s)" % shape_of(t.__origin__)
    if typing.get_origin(t) is typing.Final:
        a = typing.get_args(t)
        return "(OptProj.TyFinal %s)" % shape_of(a[0]) if a else "OptProj.TyFinalBare"
    if t is typing.Final:
        return "OptProj.TyFinalBare"
    if t is typing.Any:
        return "OptProj.TyAny"
    if t is type(None):
        return "OptProj.TyNoneType"
    if t is None:
        return "OptProj.TyNoneLit"
    if typing.get_origin(t) in (typing.Union, types.UnionType):
        a = typing.get_args(t)
        if type(None) in a:
            return "OptProj.TyOptional" if len(a) == 2 else "OptProj.TyUnionNone"
        return "OptProj.TyPlain"
    if isinstance(t, typing.TypeVar) and t.__bound__ is None and not t.__constraints__:
        return "OptProj.TyTypeVarAny"
    return "OptProj.TyPlain"


def dflt_of(default, factory):
    if default is not MISSING:
        return ("val", default)
    if factory is not MISSING:
        return ("fac",)
    return ("none",)


def bfield_of(f):
    kw = f.kw_only
    return (dflt_of(f.default, f.default_factory), bool(f.init), None if kw is MISSING else bool(kw))


def analyse(mod, spec_types, timing, aliases=None, nba=False):
    """members of TARGET in typing.get_type_hints order: truth and builder facts for `timing`
    ('pre' = builder runs in __init_subclass__ before @dataclass, 'post' = after)"""
    import typing_extensions
    cls = mod.TARGET
    hints = typing_extensions.get_type_hints(cls, include_extras=True)
    sig = inspect.signature(cls.__init__)
    dcf = cls.__dataclass_fields__
    own_ann = cls.__dict__.get("__annotations__", {})
    pre = mod._PRE[cls.__name__]
    base = cls(**{n: 0 for n, p in sig.parameters.items() if n != "self" and p.default is inspect.Parameter.empty})
    members = []
    for name, t in hints.items():
        kind = kind_of_hint(t)
        f = dcf.get(name)
        is_field = f is not None and f._field_type is dataclasses._FIELD
        p = sig.parameters.get(name)
        m = {"name": name, "kind": kind, "field": is_field, "param": p is not None,
             "kw": p is not None and p.kind is inspect.Parameter.KEYWORD_ONLY}
        if p is not None:
            if p.default is inspect.Parameter.empty:
                m["def"] = ("none",)
            elif isinstance(p.default, dataclasses._HAS_DEFAULT_FACTORY_CLASS):
                m["def"] = ("fac",)
            else:
                m["def"] = ("val", p.default)
        else:
            # not a constructor parameter: what a directly constructed instance shows (covers CPython corner
            # cases such as a non-slots subclass of a slots dataclass losing the class-level default)
            v = getattr(base, name, UNSET)
            if v is UNSET:
                m["def"] = ("none",)
            elif type(v).__name__ == "Box" or (is_field and f.default_factory is not MISSING):
                m["def"] = ("fac",)
            else:
                m["def"] = ("val", v)
        # facts read by the builder
        # (the ancestor Field of that name is chosen in Coq from the ancestors' field tables: BindCases.anc_of)
        m["own"] = name in own_ann
        if timing == "pre":
            s = pre.get(name)
            if s is None:
                m["ns"] = ("none",)
            elif s[0] == "field":
                kw = s[4]
                m["ns"] = ("field", (dflt_of(s[1], s[2]), bool(s[3]), None if kw is MISSING else bool(kw)))
            else:
                m["ns"] = ("value", s[1])
            m["df"] = None
        else:
            if name in cls.__dict__:
                v = cls.__dict__[name]
                m["ns"] = ("field", bfield_of(v)) if isinstance(v, dataclasses.Field) else ("value", v)
            else:
                m["ns"] = ("none",)
            odf = cls.__dict__.get("__dataclass_fields__", {}).get(name)
            m["df"] = bfield_of(odf) if odf is not None else None
        st = spec_types.get(name)
        srcs = (aliases or {}).get(name) if kind == "normal" else None
        m["alias"] = expected_alias(srcs)
        m["nba"] = bool(nba)
        # the three places the builder looks an alias up in, as they are on the real class (resolved in Coq by K4)
        ann = [a.name for a in getattr(t, "__metadata__", ()) if type(a).__name__ == "Alias"]
        cfg = getattr(getattr(cls, "Config", None), "aliases", None) or {}
        m["asrc"] = (f.metadata.get("alias") if (f is not None and kind == "normal") else None,
                     ann if kind == "normal" else [], typing.get_origin(t) is typing.Annotated,
                     cfg.get(name) if kind == "normal" else None)
        if kind == "normal" and st is not None:
            tname, passthrough = st
            m["type"] = tname
            m["conv"] = TYPES[tname][0]
            m["shape"] = shape_of(t)          # m_nullty is computed from it in Coq by the translated is_field_nullable
            m["sem_null"] = type_nullable(tname)
            m["ident"] = TYPES[tname][3] or passthrough
            m["pass"] = passthrough
        else:
            m["type"] = "int" if kind == "normal" else None     # the plain base member is `int`
            m["conv"] = "CInt" if kind == "normal" else "CId"
            m["shape"] = shape_of(t) if kind == "normal" else "OptProj.TyPlain"
            m["sem_null"] = False
            m["ident"] = False
            m["pass"] = False
        # feature used for known-finding signatures
        m["inherits_class_default"] = (
            kind == "normal" and m["own"] and name not in pre and m["def"][0] == "val")
        m["from_plain_base"] = kind == "normal" and not is_field
        members.append(m)
    anc_tables = [[(n, bfield_of(af)) for n, af in getattr(a, "__dataclass_fields__").items() if n in hints]
                  for a in cls.__mro__[-1:0:-1] if dataclasses.is_dataclass(a)]
    for m in members:
        m["anc_tables"] = anc_tables
    sigpos = [n for n, p in sig.parameters.items()
              if n != "self" and p.kind is inspect.Parameter.POSITIONAL_OR_KEYWORD]
    sigkw = [n for n, p in sig.parameters.items() if p.kind is inspect.Parameter.KEYWORD_ONLY]
    return members, sigpos, sigkw


def spec_types_of(prog):
    """declared type and pass_through flag of every normal member, most derived declaration wins"""
    st = {}
    for cls in prog["classes"]:
        for m in cls["members"]:
            if m["kind"] == "normal":
                st[m["name"]] = (m["type"], bool(m["rhs"] and m["rhs"][0] == "field" and m["rhs"][1]["pass"]))
            else:
                st.pop(m["name"], None)
    return st


# ---------------------------------------------------------------------------
# running the real implementation
# ---------------------------------------------------------------------------

def entries_of(prog, mod):
    """[(entry name, callable, timing)]"""
    from mashumaro.codecs.basic import BasicDecoder
    cls = mod.TARGET
    out = []
    if prog["mixin"]:
        eager = not prog["lazy"] and not prog["classes"][-1]["slots"]
        out.append(("from_dict", cls.from_dict, "pre" if eager else "post"))
    out.append(("BasicDecoder", BasicDecoder(cls).decode, "post"))
    return out


ABSENT = object()


def py_rd(m, d):
    """the documented key rule: alias key; with allow_deserialization_not_by_alias the field name as fall-back when
    the alias key is absent (a key holding null is present)"""
    a = m.get("alias")
    if a:
        if a in d:
            return d[a]
        if m.get("nba") and m["name"] in d:
            return d[m["name"]]
        return ABSENT
    return d[m["name"]] if m["name"] in d else ABSENT


def key_of(m):
    return m.get("alias") or m["name"]


def is_factory_made(m, v, d):
    if type(v).__name__ == "Box":
        return True
    if m["def"] == ("fac",) and isinstance(v, list) and v == []:
        return (not m["param"]) or py_rd(m, d) is ABSENT
    return False


def run_real(fn, d, members):
    """('missing', f) | ('typeerror', msg) | ('other', msg) | ('ok', r1, r2)"""
    from mashumaro.exceptions import InvalidFieldValue, MissingField
    try:
        r1 = fn(dict(d))
        r2 = fn(dict(d))
    except MissingField as e:
        return ("missing", e.field_name)
    except InvalidFieldValue as e:
        return ("invalid", e.field_name)
    except TypeError as e:
        return ("typeerror", str(e))
    except Exception as e:  # noqa: BLE001 - every other class is reported as such
        return ("other", "%s: %s" % (type(e).__name__, e))
    return ("ok", r1, r2)


class OutOfDomain(Exception):
    pass


def to_pv(v):
    if v is None:
        return "PNone"
    if isinstance(v, bool):
        return "PBool %s" % coq_bool(v)
    if type(v).__name__ == "Color" and isinstance(v, int):
        return "PEnum %s" % coq_z(int(v))
    if type(v).__name__ == "Decimal":
        return "PDec %s" % coq_str(str(v))
    if type(v).__name__ == "timedelta":
        if v.microseconds or v.total_seconds() != int(v.total_seconds()):
            raise OutOfDomain(repr(v))
        return "PTd %s" % coq_z(int(v.total_seconds()))
    if isinstance(v, tuple) and all(isinstance(x, int) and not isinstance(x, bool) for x in v):
        return "PTup [%s]" % "; ".join(coq_z(x) for x in v)
    if isinstance(v, int):
        return "PInt %s" % coq_z(v)
    if isinstance(v, float):
        if v != int(v):
            raise OutOfDomain(repr(v))
        return "PFloat %s" % coq_z(int(v))
    if isinstance(v, str):
        return "PStr %s" % coq_str(v)
    if isinstance(v, list) and all(isinstance(x, int) and not isinstance(x, bool) for x in v):
        return "PList [%s]" % "; ".join(coq_z(x) for x in v)
    raise OutOfDomain(repr(v))


def canon_pair(r1, r2, d, members):
    """attributes of both results with identity labels for factory-made objects:
    ([(name, term|None)], [(name, term|None)], labels of r2)"""
    seen: list = []

    def one(r):
        out = []
        labs = []
        for m in members:
            v = getattr(r, m["name"], UNSET)
            if v is UNSET:
                out.append((m["name"], None))
            elif is_factory_made(m, v, d):
                for i, o in enumerate(seen):
                    if o is v:
                        lab = i
                        break
                else:
                    seen.append(v)
                    lab = len(seen) - 1
                labs.append(lab)
                out.append((m["name"], "PFresh %d%%nat" % lab))
            else:
                try:
                    out.append((m["name"], to_pv(v)))
                except OutOfDomain:
                    out.append((m["name"], "PStr %s" % coq_str("<object %s>" % type(v).__name__)))
        return out, labs

    a1, _ = one(r1)
    a2, l2 = one(r2)
    return a1, a2, l2


def strip_labels(a):
    return [(n, "PFresh" if (t or "").startswith("PFresh") else t) for n, t in a]


# ---------------------------------------------------------------------------
# Coq terms
# ---------------------------------------------------------------------------

def coq_dflt(d):
    if d[0] == "none":
        return "DNone"
    if d[0] == "fac":
        return "DFac"
    try:
        return "(DVal (%s))" % to_pv(d[1])
    except OutOfDomain:
        return "(DVal (PStr %s))" % coq_str("<object>")


def coq_optb(b):
    return "None" if b is None else "(Some %s)" % coq_bool(b)


def coq_bfield(b):
    return "(bf %s %s %s)" % (coq_dflt(b[0]), coq_bool(b[1]), coq_optb(b[2]))


def coq_ns(ns):
    if ns[0] == "none":
        return "NsNone"
    if ns[0] == "field":
        return "(NsField %s)" % coq_bfield(ns[1])
    try:
        return "(NsValue (%s))" % to_pv(ns[1])
    except OutOfDomain:
        return "(NsValue (PStr %s))" % coq_str("<object>")


KIND = {"normal": "KNormal", "initvar": "KInitVar", "classvar": "KClassVar", "sentinel": "KSentinel"}


def coq_member(m):
    return "mkm %s %s %s %s %s %s %s %s %s %s %s" % (
        coq_str(m["name"]), KIND[m["kind"]], coq_bool(m["field"]), coq_bool(m["param"]), coq_bool(m["kw"]),
        coq_dflt(m["def"]), coq_bool(m["own"]), coq_ns(m["ns"]), "None" if m["df"] is None else "(Some %s)" % coq_bfield(m["df"]),
        coq_bool(m["ident"]), coq_bool(m.get("sem_null", False)))


def coq_lay(members, sigpos, sigkw):
    nba = any(m.get("nba") for m in members)
    def osrc(x):
        return "None" if x is None else "(Some %s)" % coq_str(x)
    asrc = "; ".join("(%s, asr %s [%s] %s %s)" % (coq_str(m["name"]), osrc(m["asrc"][0]),
                                                  "; ".join(coq_str(a) for a in m["asrc"][1]), coq_bool(m["asrc"][2]),
                                                  osrc(m["asrc"][3]))
                     for m in members if m.get("asrc") and (m["asrc"][0] is not None or m["asrc"][1] or m["asrc"][3] is not None
                                                            or m["asrc"][2]))
    tables = members[0]["anc_tables"] if members else []
    anc = "; ".join("[%s]" % "; ".join("(%s, %s)" % (coq_str(n), coq_bfield(b)) for n, b in t) for t in tables)
    tys = "; ".join("(%s, %s)" % (coq_str(m["name"]), m["shape"]) for m in members if m["kind"] == "normal")
    return ("{| ly_L := [%s];\n     ly_asrc := [%s];\n     ly_anc := [%s];\n     ly_ty := [%s];\n     ly_kinds := [%s]; ly_nba := %s; ly_sigpos := [%s]; ly_sigkw := [%s] |}" % (
        ";\n       ".join(coq_member(m) for m in members), asrc, anc, tys,
        "; ".join("(%s, %s)" % (coq_str(m["name"]), m["conv"]) for m in members if m["kind"] == "normal"),
        coq_bool(nba), "; ".join(coq_str(n) for n in sigpos), "; ".join(coq_str(n) for n in sigkw)))


def coq_attrs(a):
    return "[%s]" % "; ".join("(%s, %s)" % (coq_str(n), "None" if t is None else "Some (%s)" % t) for n, t in a)


def coq_inp(d):
    return "[%s]" % "; ".join("(%s, %s)" % (coq_str(k), to_pv(v)) for k, v in d.items())


# ---------------------------------------------------------------------------
# the oracle: the property itself, computed from the truth about the class (not from the model)
# ---------------------------------------------------------------------------

class Rejected(Exception):
    """the documented conversion of the field type does not accept the value"""


def pyconv(m, v, cls=None):
    if m["ident"]:
        return v
    if v is None and (m["sem_null"] or m["def"] == ("val", None)):
        return None
    try:
        r = TYPES[m["type"]][1](v)
        if isinstance(r, tuple) and len(r) == 2 and r[0] == "Color":
            r = sys.modules[cls.__module__].Color(r[1])
        return r
    except Exception as e:  # noqa: BLE001 - whatever the conversion raises, the library must say InvalidFieldValue
        raise Rejected("%s: %s" % (type(e).__name__, e)) from None


def same_value(a, b):
    return type(a) is type(b) and a == b


def oracle(cls, members, d, outcome):
    """None if the property holds on this input, else (what, culprit member name or None)"""
    required = [m for m in members if m["kind"] == "normal" and m["field"] and m["param"] and m["def"] == ("none",)]
    # the first field in declaration order that must make from_dict fail: required key absent, or present value
    # rejected by the conversion
    for m in members:
        if not (m["kind"] == "normal" and m["field"] and m["param"]):
            continue
        v = py_rd(m, d)
        if v is ABSENT:
            if m["def"] == ("none",):
                if outcome[0] == "missing" and outcome[1] == m["name"]:
                    return None
                return ("required key %r absent: expected MissingField(%r), observed %s"
                        % (m["name"], m["name"], show(outcome)), culprit_of(outcome))
            continue
        try:
            pyconv(m, v, cls)
        except Rejected as e:
            if outcome[0] == "invalid" and outcome[1] == m["name"]:
                return None
            return ("field %s: value %r is rejected by its conversion (%s): expected InvalidFieldValue(%r), observed %s"
                    % (m["name"], v, e, m["name"], show(outcome)), culprit_of(outcome) or m["name"])
    if outcome[0] != "ok":
        return ("all required keys present: expected an instance, observed %s" % show(outcome), culprit_of(outcome))
    _, r1, r2 = outcome
    # a reference instance made by calling the constructor directly with the required arguments only
    base = cls(**{m["name"]: pyconv(m, py_rd(m, d), cls) for m in required})
    made = []
    for r in (r1, r2):
        for m in members:
            v = getattr(r, m["name"], UNSET)
            bv = getattr(base, m["name"], UNSET)
            if m["kind"] == "normal" and m["field"] and m["param"]:
                if py_rd(m, d) is not ABSENT:
                    exp = pyconv(m, py_rd(m, d), cls)
                    if not same_value(v, exp):
                        return ("field %s: key present with %r, expected %r, observed %r" % (m["name"], py_rd(m, d), exp, v),
                                m["name"])
                elif m["def"][0] == "val":
                    if not same_value(v, m["def"][1]):
                        return ("field %s: key absent, expected default %r, observed %r" % (m["name"], m["def"][1], v), m["name"])
                else:
                    if not (type(v) is type(bv) and (type(v).__name__ == "Box" or v == bv)):
                        return ("field %s: key absent, expected a fresh factory result, observed %r" % (m["name"], v), m["name"])
                    made.append((m["name"], v))
            else:
                # not a constructor parameter fed by from_dict: must not depend on the input
                if type(bv).__name__ == "Box" or (m["def"] == ("fac",) and bv is not UNSET):
                    if type(v) is not type(bv) or (type(v).__name__ != "Box" and v != bv):
                        return ("member %s is not an init field but differs from a directly constructed instance: %r vs %r"
                                % (m["name"], v, bv), m["name"])
                    made.append((m["name"], v))
                elif not (v is bv or same_value(v, bv)):
                    return ("member %s is not an init field but was taken from the input: %r, directly constructed %r"
                            % (m["name"], v, bv), m["name"])
    for (n1, o1), (n2, o2) in itertools.combinations(made, 2):
        if o1 is o2:
            return ("factory-made object shared between %s and %s (two from_dict calls)" % (n1, n2), n1)
    return None


def region_of(dflt):
    """where a default lies on the truthiness / None spectrum"""
    if dflt[0] == "none":
        return "no-default"
    if dflt[0] == "fac":
        return "factory"
    v = dflt[1]
    if v is None:
        return "None"
    try:
        return "truthy" if v else "falsy-non-None"
    except Exception:  # noqa: BLE001
        return "object"


def culprit_of(outcome):
    if outcome[0] in ("missing", "invalid"):
        return outcome[1]
    if outcome[0] == "typeerror":
        import re
        mm = re.search(r"argument[s]?:? '([^']+)'", outcome[1])
        return mm.group(1) if mm else None
    return None


def show(outcome):
    if outcome[0] == "ok":
        r = outcome[1]
        return "instance %s(%s)" % (type(r).__name__, ", ".join(
            "%s=%r" % (f.name, getattr(r, f.name, "<unset>")) for f in dataclasses.fields(r)))
    return "%s %s" % (outcome[0], outcome[1])


def signature_of(prog, entry, timing, members, culprit, outcome):
    m = next((x for x in members if x["name"] == culprit), None)
    sig = {"kind": "other", "entry": entry, "outcome": outcome[0]}
    if m is not None and m["from_plain_base"]:
        sig["kind"] = "non-dataclass-base-annotation"
    elif m is not None and m["inherits_class_default"] and timing == "pre" and outcome[0] == "missing":
        sig["kind"] = "override-inherits-class-default"
    return sig


# ---------------------------------------------------------------------------
# the check
# ---------------------------------------------------------------------------

def make_program(rng, nmax):
    """a program accepted by Python itself (rejection sampling on the classes without mashumaro)"""
    for _ in range(200):
        prog = gen_program(rng, nmax)
        try:
            shadow = load(render(prog, with_mashumaro=False))
        except (TypeError, ValueError):
            continue
        unload(shadow)
        return prog
    raise RuntimeError("generator: no layout accepted by Python in 200 tries")


def inputs_for(rng, members, spec_types, max_keys):
    """one input per subset of the key universe = alias keys + member names (exhaustive up to max_keys keys;
    alias keys come first so that truncation never drops them)"""
    keys = []
    for m in members:
        if m.get("alias") and m["alias"] not in [k for k, _ in keys]:
            keys.append((m["alias"], m))
    for m in members:
        if m["name"] not in [k for k, _ in keys]:
            keys.append((m["name"], m))
    keys = keys[:max_keys]
    for mask in range(1 << len(keys)):
        d = {}
        for i, (k, m) in enumerate(keys):
            if mask >> i & 1:
                if m["kind"] == "normal" and m["name"] in spec_types:
                    d[k] = sample_input_value(rng, m)
                else:
                    d[k] = 900 + rng.randrange(0, 9)      # a value no default has
        yield mask, d


# ---------------------------------------------------------------------------
# the constructor call the real builder emits (tie of kernel K107a)
# ---------------------------------------------------------------------------

class CallSpy:
    """records the text of every method CodeBuilder compiles, with the class it is compiled for and whether the
    builder ran before ('pre') or after ('post') @dataclass processed that class"""

    def __init__(self):
        from mashumaro.core.meta.code import builder as B
        self.B = B
        self.orig = B.CodeBuilder.compile
        self.rec = []
        spy = self

        def compile_(self_):
            try:
                spy.rec.append((self_.cls, "post" if "__dataclass_fields__" in self_.cls.__dict__ else "pre",
                                self_.lines.as_text()))
            except Exception:  # noqa: BLE001 - a changed builder: no text, the tie reports "no call recorded"
                pass
            return spy.orig(self_)

        B.CodeBuilder.compile = compile_

    def restore(self):
        self.B.CodeBuilder.compile = self.orig

    def calls_of(self, cls, timing):
        out = []
        for c, t, text in self.rec:
            if c is cls and t == timing and "_from_dict" in text.split("(", 1)[0]:
                pc = parse_call(text)
                if pc is not None or "return cls(" in text:      # the stub of a lazily compiled method constructs nothing
                    out.append(pc)
        return out

    def forget(self, classes):
        self.rec = [r for r in self.rec if r[0] not in classes]


def parse_call(text):
    """`return cls(__a, b=__b, **kwargs)` -> (True, ['b'], ['a']); None when there is no such single line"""
    import re
    hits = [m for m in (re.match(r"^\s*return cls\((.*)\)\s*$", ln) for ln in text.splitlines()) if m]
    if len(hits) != 1:
        return None
    inner = hits[0].group(1)
    pos, kw, addkw, stage = [], [], False, 0
    for a in (inner.split(", ") if inner else []):
        if a == "**kwargs":
            addkw, stage = True, 2
        elif "=" in a:
            n, _, v = a.partition("=")
            if v != "__" + n or stage > 1:
                return None
            kw.append(n)
            stage = 1
        elif a.startswith("__") and stage == 0:
            pos.append(a[2:])
        else:
            return None
    return addkw, kw, pos


def coq_calls_idx(lays, calls, shard):
    """Coq pass of the K107a tie: indices of `calls` where BindCasesK107a.call_ok fails; None when Coq failed"""
    br = vlib.coq_make(["theories/Wire.vo", "theories/PyK.vo", "gen/K4.vo", "gen/K17.vo", "gen/K107a.vo",
                        "theories/BindCasesK107a.vo"])
    if not br.ok:
        return None, "tie does not build: " + (br.error or "")
    files = []
    for si in range(0, max(len(calls), 1), shard):
        chunk = calls[si:si + shard]
        used = sorted({c[0] for c in chunk})
        local = {li: n for n, li in enumerate(used)}
        txt = vlib.CASE_HEADER.format(imports="Bind BindCases BindCasesK107a", gen_imports="")
        txt += "Definition lays : list lay :=\n  [" + ";\n   ".join(lays[li] for li in used) + "].\n"
        txt += "Definition calls : list (nat * bool * list string * list string) :=\n  [" + ";\n   ".join(
            "(%d%%nat, %s, %s, %s)" % (local[li], coq_bool(b), coq_list([coq_str(x) for x in kw]),
                                      coq_list([coq_str(x) for x in pos])) for li, b, kw, pos in chunk) + "].\n"
        txt += "Eval vm_compute in (bad_idx (call_ok lays) calls).\n"
        files.append(("c07_calls_%d" % (si // shard), txt))
    res = vlib.coq_eval_many(files, timeout=1500, jobs=6)
    bad = []
    for n, (ok, out) in enumerate(res):
        if not ok:
            return None, out[-3000:]
        idx = vlib.parse_nat_list(out)
        if idx is None:
            return None, "unparsable coq output: " + out[-1500:]
        bad.extend(n * shard + i for i in idx)
    return bad, ""


def run(ctx: vlib.Ctx):
    ctx.coverage["rule"] = (
        "random dataclass hierarchies (1-3 classes, required/default/factory/kw_only (field, KW_ONLY marker, decorator)/"
        "init=False/InitVar/ClassVar/overridden members, mixin eager+lazy+slots and plain dataclasses) accepted by Python; "
        "plus, in every run, a systematic sweep: every field type (int/float/str/bool/Any/List and their Optionals, "
        "with and without pass_through) x default region (falsy non-None, truthy, big = equal-but-not-identical, None, "
        "factory); values for present keys span explicit null, falsy/truthy/big values, values equal to the default "
        "(same or other type); type spellings Optional[X] / X | None / None | X / Union[None, X] / Annotated, Final and "
        "PEP 695 wrappers of an Optional; aliases by field_options, Annotated Alias and Config.aliases with and without "
        "allow_deserialization_not_by_alias, the key universe then holds alias keys and field names; "
        "for each entry point (from_dict, BasicDecoder) every subset of the member names as input keys, one random "
        "well-typed value assignment per subset; distinct = (layout shape, entry timing, key subset)")
    br = ctx.theorems("props/C07_bind.vo", [
        "C07_binding_partial", "C07_binding_post", "C07_binding", "C07_error", "C07_null_wins",
        "C07_keys_are_code", "C07_first_key_wins", "C07_nullable_is_code",
        "C07_default_is_code", "C07_assembly_is_code", "C07_arg_step_is_code", "C07_kw_step_is_code",
        "C07_field_block_is_code",
        "C07_positional_prefix", "C07_noninit_unread", "C07_sticky_irrelevant", "C07_factory_fresh",
        "C07_binding_refuted", "C07_noninit_refuted_plain_base"], kernels=["K4", "K17", "K107a", "K107b"])
    if br.ok and not ctx.quick():
        rc, out, _ = vlib.run(["timeout", "900", "coqchk", "-silent", "-o"] + vlib.COQ_FLAGS[:9] + ["VerifProps.C07_bind"],
                              cwd=vlib.COQ, timeout=930)
        tail = out[out.find("CONTEXT SUMMARY"):] if "CONTEXT SUMMARY" in out else out[-800:]
        axioms = tail[tail.find("* Axioms:"):].split("*")[1].strip() if "* Axioms:" in tail else "?"
        ok = rc == 0 and axioms.replace("Axioms:", "").strip() == "<none>"
        ctx.obligation("coqchk -o VerifProps.C07_bind (no axioms)", ok, tail[-600:])
        ctx.trusted.append("coqchk -o on VerifProps.C07_bind: " + " ".join(axioms.split()))
        if not ok:
            ctx.not_shown("coqchk VerifProps.C07_bind", out[-1200:])
    ctx.trusted += [
        "Bind.bind/step/walk: model of CPython dataclass __init__ binding, default materialisation and factory call "
        "order (compared with the real classes on every run, incl. inspect.signature)",
        "harness/props/c07.py analyse(): extraction of the class facts the builder reads (cls.__dict__, the "
        "__dataclass_fields__ tables of the dataclass ancestors in cls.__mro__[-1:0:-1] order, namespace snapshot "
        "before @dataclass, Field.metadata alias / Annotated Alias annotations / Config.aliases entry) and of the "
        "truth (signature, fields); which ancestor Field counts and which alias source wins is computed in Coq "
        "(BindCases.anc_of, K4.get_field_alias translated from /repo)",
        "conversions int()/float()/str()/bool()/list and tuple comprehension/Decimal()/timedelta(seconds=)/IntEnum() "
        "incl. the inputs they reject, on the generated value domain (BindCases.conv_k; text never parses as a number)",
    ]
    ctx.assumptions += [
        "layout_ok: member names unique, Python accepts the parameter order, InitVar members have a plain default "
        "(mashumaro never supplies InitVars; a required InitVar makes every from_dict raise TypeError)",
        "about 5% of the present values are ill typed for the field (null for a non-nullable field, text for a number, "
        "a scalar for a list, an unknown enum value ...): the model, the reference and the oracle all demand "
        "InvalidFieldValue for the first such field; text never parses as a number; hooks, discriminators, "
        "forbid_extra_keys and dialects are other properties; how an alias is resolved is C09 (taken as a fact here), "
        "which key is then read and that a key holding null is present is modelled (Bind.rd)",
    ]
    nprog = ctx.budget(32, 300)
    nmax = ctx.budget(8, 10)
    lays: list[str] = []
    cases: list[str] = []
    index: list[tuple] = []        # per case: (program idx, entry, mask, d)
    progs: list[dict] = []
    oracle_bad: set[int] = set()
    todo = spectrum_programs(ctx.rng)
    ctx.coverage["spectrum_programs"] = len(todo)
    spy = CallSpy()                  # restored right after the loop
    calls, call_index, call_missing = [], [], []
    for pi in range(nprog + len(todo)):
        prog = todo[pi] if pi < len(todo) else make_program(ctx.rng, nmax)
        src = render(prog)
        try:
            mod = load(src)
        except Exception as e:  # noqa: BLE001
            ctx.fail("class creation fails under mashumaro: %s: %s" % (type(e).__name__, e),
                     {"source": src, "entry": "import", "input": None, "observed": "%s: %s" % (type(e).__name__, e),
                      "expected": "classes are created"}, {"kind": "class-creation", "exc": type(e).__name__})
            continue
        st = spec_types_of(prog)
        spec = {"types": st, "aliases": prog.get("aliases", {}), "nba": bool(prog.get("nba"))}
        info = {"prog": prog, "src": src, "mod": mod, "fails": 0, "spec": spec}
        progs.append(info)
        try:
            entries = entries_of(prog, mod)
        except Exception as e:  # noqa: BLE001 - the codec could not be compiled for classes Python accepts
            ctx.fail("compiling the decoder fails: %s: %s" % (type(e).__name__, e),
                     {"source": src, "spec": spec, "entry": "compile", "input": None,
                      "observed": "%s: %s" % (type(e).__name__, e), "expected": "a decoder"},
                     {"kind": "decoder-compilation", "exc": type(e).__name__})
            continue
        for entry, fn, timing in entries:
            members, sigpos, sigkw = analyse(mod, st, timing, prog.get("aliases"), prog.get("nba"))
            li = len(lays)
            lays.append(coq_lay(members, sigpos, sigkw))
            shape = tuple((m["kind"], m["field"], m["param"], m["kw"], m["def"][0], m["own"], m["ns"][0],
                           m["shape"], m["ident"]) for m in members)
            ctx.hist("entries", "%s/%s" % (entry, timing))
            ctx.hist("members_per_layout", str(len(members)))
            for m in members:
                ctx.hist("member_kinds", m["kind"] if m["kind"] != "normal" else
                         ("init=False" if not m["param"] and m["field"] else
                          "plain-base" if not m["field"] else
                          ("kw_only" if m["kw"] else "positional") + "/" + m["def"][0]))
            for m in members:
                if m["kind"] == "normal" and m["name"] in st:
                    ctx.hist("base_types", base_of(m["type"]))
                    ctx.hist("type_spelling", SPELLING_CLASS[m["type"]] + ("/pass_through" if m["pass"] else ""))
                    if m.get("alias"):
                        ctx.hist("aliased_fields", "%s/%s" % ("+".join(sorted(k for k, _ in prog["aliases"][m["name"]])),
                                                              "not_by_alias" if m["nba"] else "alias-only"))
                if m["kind"] == "normal" and m["field"] and m["param"]:
                    ctx.hist("default_spectrum", "%s/%s/%s" % (
                        region_of(m["def"]), "nullable-type" if m["sem_null"] else "plain-type",
                        "identity" if m["ident"] else "converting"))
            for mask, d in inputs_for(ctx.rng, members, st, ctx.budget(7, 9) if prog.get("sweep") else nmax):
                for m in members:
                    if m["kind"] == "normal" and m["param"] and m.get("alias") and d.get(m["alias"], 0) is None:
                        ctx.hist("null_under_alias_key", "name key %s" % ("present" if m["name"] in d else "absent"))
                    if m["kind"] == "normal" and m["param"] and py_rd(m, d) is None:
                        ctx.hist("explicit_null_against", "%s/%s" % (
                            region_of(m["def"]), "identity" if m["ident"] else "converting"))
                outcome = run_real(fn, d, members)
                ctx.hist("outcomes", outcome[0])
                ctx.count((shape, timing, mask))
                # correspondence case
                if outcome[0] == "ok":
                    a1, a2, l2 = canon_pair(outcome[1], outcome[2], d, members)
                    if strip_labels(a1) != strip_labels(a2):
                        rout = "ROther"
                    else:
                        rout = "ROk %s [%s]" % (coq_attrs(a1), "; ".join("%d%%nat" % x for x in l2))
                elif outcome[0] == "missing":
                    rout = "RMissing %s" % coq_str(outcome[1])
                elif outcome[0] == "invalid":
                    rout = "RInvalid %s" % coq_str(outcome[1])
                elif outcome[0] == "typeerror":
                    rout = "RTypeError"
                else:
                    rout = "ROther"
                if not prog.get("oracle_only"):
                    cases.append((li, "%s, %s" % (coq_inp(d), rout)))
                    index.append((len(progs) - 1, entry, timing, mask, d, members))
                # oracle
                bad = oracle(mod.TARGET, members, d, outcome)
                if bad is not None:
                    if not prog.get("oracle_only"):
                        oracle_bad.add(len(cases) - 1)
                    what, culprit = bad
                    sig = signature_of(prog, entry, timing, members, culprit, outcome)
                    info["fails"] += 1
                    if info["fails"] <= 3 or sig["kind"] == "other":
                        ctx.fail("%s(%r): %s" % (entry, d, what),
                                 {"source": src, "spec": spec, "entry": entry, "input": d, "observed": show(outcome),
                                  "expected": what},
                                 sig)
            # (T) K107a: the constructor call(s) the real builder emitted for this class at this timing
            if not prog.get("oracle_only"):
                got = spy.calls_of(mod.TARGET, timing)
                if not got or None in got:
                    call_missing.append((len(progs) - 1, entry, timing))
                    ctx.hist("emitted_calls", "not recorded")
                for pc in got:
                    if pc is not None:
                        calls.append((li,) + pc)
                        call_index.append((len(progs) - 1, entry, timing))
                        ctx.hist("emitted_calls", "%s/%s/%s" % ("positional" if pc[2] else "no-positional",
                                                                "keyword" if pc[1] else "no-keyword",
                                                                "**kwargs" if pc[0] else "no-kwargs"))
            if len(ctx.coverage["samples"]) < 4:
                ctx.sample({"classes": src[len(PRELUDE):], "entry": entry, "timing": timing,
                            "signature": [sigpos, sigkw]})

    spy.restore()
    # (M) correspondence: model vs implementation on every run above; in the same Coq pass the Coq reference
    # semantics (ref_decode) is compared with the model: model <> reference must hold exactly where the python
    # oracle rejects the real outcome (the modelled known findings)
    t_coq = time.time()
    bad, rbad, log = coq_two_idx("c07_bind", lays, cases, ctx.budget(1500, 2500))
    ctx.coverage["phase_seconds"] = {"python": round(t_coq - ctx.t0, 1), "coq_cases": round(time.time() - t_coq, 1)}
    name = "binding-model-vs-from_dict"
    name2 = "coq-reference-vs-python-oracle"
    if bad is None:
        ctx.correspondence(name, len(cases), -1, log)
        ctx.not_shown("correspondence " + name, log)
    else:
        detail = ""
        if bad:
            pi, entry, timing, mask, d, members = index[bad[0]]
            detail = "first of %d: entry %s timing %s input %r\n%s" % (
                len(bad), entry, timing, d, progs[pi]["src"][len(PRELUDE):])
        ctx.correspondence(name, len(cases), len(bad), detail)
        if bad:
            ctx.not_shown("correspondence " + name, detail)
            search_around(ctx, progs, index, bad)
        else:
            diff = sorted(set(rbad) ^ oracle_bad)
            detail = ""
            if diff:
                pi, entry, timing, mask, d, members = index[diff[0]]
                detail = "first of %d: %s entry %s timing %s input %r\n%s" % (
                    len(diff), "reference only" if diff[0] in set(rbad) else "oracle only", entry, timing, d,
                    progs[pi]["src"][len(PRELUDE):])
            ctx.correspondence(name2, len(cases), len(diff), detail)
            ctx.coverage["model_differs_from_reference"] = len(rbad)
            if diff:
                ctx.not_shown("correspondence " + name2, detail)
    # (T) the translated argument assembly (kernel K107a run over the layout inside Coq) against the emitted calls
    name3 = "K107a-argument-assembly-vs-emitted-call"
    t_k107a = time.time()
    if not ctx.kernel_report.get("K107a", {}).get("ok"):
        why = "kernel K107a not translated: " + str(ctx.kernel_report.get("K107a", {}).get("error"))
        ctx.correspondence(name3, 0, -1, why)
        ctx.not_shown("correspondence " + name3, why)
    else:
        cbad, clog = coq_calls_idx(lays, calls, ctx.budget(400, 800))
        if cbad is None:
            ctx.correspondence(name3, len(calls), -1, clog)
            ctx.not_shown("correspondence " + name3, clog)
        else:
            detail = ""
            if cbad:
                pi, entry, timing = call_index[cbad[0]]
                detail = "first of %d: entry %s timing %s emitted (kwargs, keyword, positional) = %r\n%s" % (
                    len(cbad), entry, timing, calls[cbad[0]][1:], progs[pi]["src"][len(PRELUDE):])
            elif call_missing:
                pi, entry, timing = call_missing[0]
                detail = "first of %d: no single `return cls(...)` recorded for entry %s timing %s\n%s" % (
                    len(call_missing), entry, timing, progs[pi]["src"][len(PRELUDE):])
            ctx.correspondence(name3, len(calls) + len(call_missing), len(cbad) + len(call_missing), detail)
            if cbad or call_missing:
                ctx.not_shown("correspondence " + name3, detail)
    ctx.coverage["phase_seconds"]["coq_calls"] = round(time.time() - t_k107a, 1)
    for info in progs:
        unload(info["mod"])


def coq_two_idx(name, lays, cases, shard):
    """one Coq pass over the cases: (indices where case_ok fails, indices where ref_agrees fails, log);
    (None, None, log) when Coq failed"""
    import re
    br = vlib.coq_make(["theories/Wire.vo", "theories/PyK.vo", "gen/K4.vo", "gen/K17.vo", "theories/BindCases.vo"])
    if not br.ok:
        return None, None, "model does not build: " + (br.error or "")
    files = []
    for si in range(0, max(len(cases), 1), shard):
        chunk = cases[si:si + shard]
        used = sorted({li for li, _ in chunk})          # only the layouts this shard needs, renumbered
        local = {li: n for n, li in enumerate(used)}
        txt = vlib.CASE_HEADER.format(imports="Bind BindCases", gen_imports="")
        txt += "Definition lays : list lay :=\n  [" + ";\n   ".join(lays[li] for li in used) + "].\n"
        txt += "Definition cases : list (nat * inp * rout) :=\n  [" + ";\n   ".join(
            "(%d%%nat, %s)" % (local[li], rest) for li, rest in chunk) + "].\n"
        txt += "Eval vm_compute in (bad_idx (case_ok lays) cases).\n"
        txt += "Eval vm_compute in (bad_idx (ref_agrees lays) cases).\n"
        files.append(("%s_%d" % (name, si // shard), txt))
    res = vlib.coq_eval_many(files, timeout=800, jobs=8)
    bad, rbad = [], []
    for n, (ok, out) in enumerate(res):
        if not ok:
            return None, None, out[-3000:]
        parts = re.findall(r"=\s*(\[[^\]]*\])\s*(?:%nat)?\s*:\s*list nat", out, re.S)
        if len(parts) != 2:
            return None, None, "unparsable coq output: " + out[-1500:]
        for tgt, body in zip((bad, rbad), parts):
            body = body.strip()[1:-1].strip()
            if body:
                tgt.extend(n * shard + int(x.replace("%nat", "").strip()) for x in body.split(";"))
    return bad, rbad, ""


def search_around(ctx, progs, index, bad):
    """model and code disagree: run the oracle on the programs concerned with many more value assignments"""
    seen = set()
    for i in bad[:40]:
        pi, entry, timing, mask, d, members = index[i]
        if (pi, entry) in seen:
            continue
        seen.add((pi, entry))
        info = progs[pi]
        st = spec_types_of(info["prog"])
        fn = dict((e, f) for e, f, _ in entries_of(info["prog"], info["mod"]))[entry]
        for _ in range(8):
            for mask2, d2 in inputs_for(ctx.rng, members, st, 10):
                outcome = run_real(fn, d2, members)
                ctx.count()
                badc = oracle(info["mod"].TARGET, members, d2, outcome)
                if badc is not None:
                    what, culprit = badc
                    sig = signature_of(info["prog"], entry, timing, members, culprit, outcome)
                    if sig["kind"] == "other":
                        ctx.fail("%s(%r): %s" % (entry, d2, what),
                                 {"source": info["src"], "spec": info["spec"], "entry": entry, "input": d2,
                                  "observed": show(outcome),
                                  "expected": what}, sig)
                        return


# ---------------------------------------------------------------------------
# replay
# ---------------------------------------------------------------------------

def replay(rep: dict) -> int:
    src = rep.get("source")
    if not src:
        print("nothing to replay (no failing input was found): ", rep.get("not_shown"))
        return 2
    try:
        mod = load(src)
    except Exception as e:  # noqa: BLE001
        print("class creation:", type(e).__name__, e)
        if rep.get("entry") == "import":
            print("REPRODUCED")
            return 1
        return 2
    if rep.get("entry") == "import":
        print("not reproduced")
        return 0
    from mashumaro.codecs.basic import BasicDecoder
    cls = mod.TARGET
    try:
        fn = cls.from_dict if rep["entry"] == "from_dict" else BasicDecoder(cls).decode
    except Exception as e:  # noqa: BLE001
        print("compiling the decoder:", type(e).__name__, e)
        print("REPRODUCED" if rep.get("entry") == "compile" else "decoder does not compile")
        return 1 if rep.get("entry") == "compile" else 2
    if rep.get("entry") == "compile":
        print("not reproduced")
        return 0
    # truth from introspection; declared types / aliases come with the replay file, else from the annotations
    spec = rep.get("spec")
    aliases, nba = {}, False
    if spec:
        st = {k: tuple(v) for k, v in spec["types"].items()}
        aliases = {k: [tuple(x) for x in v] for k, v in spec["aliases"].items()}
        nba = spec["nba"]
    else:
        st = {}
        import typing_extensions
        by_type = []
        for k in TYPES:
            try:
                by_type.append((eval(k, dict(mod.__dict__)), k))
            except Exception:  # noqa: BLE001
                pass
        for n, t in typing_extensions.get_type_hints(cls, include_extras=True).items():
            if kind_of_hint(t) != "normal":
                continue
            for tt, k in by_type:
                if t is tt or (t == tt and type(t) is type(tt)):
                    f = cls.__dataclass_fields__.get(n)
                    st[n] = (k, bool(f is not None and f.metadata.get("deserialize") is not None))
                    break
    members, _, _ = analyse(mod, st, "post", aliases, nba)
    d = rep["input"]
    outcome = run_real(fn, d, members)
    bad = oracle(cls, members, d, outcome)
    print("entry", rep["entry"], "input", d, "->", show(outcome))
    if bad is not None:
        print("property fails:", bad[0])
        print("REPRODUCED")
        return 1
    print("not reproduced")
    return 0
