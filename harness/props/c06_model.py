"""C06 helper: emit the Coq terms of the hand-written model (Schema.v / JValid.v) for a
generated case: env, ty, value, json, and the *real* schema parsed into the model's
`schema` type.  Raises OutOfModel for what the model grammar does not cover."""
from __future__ import annotations

import base64
import collections
import dataclasses
import datetime
import enum
import math

from harness.vlib import coq_str, coq_z
from harness.props import c06_gen as G


class OutOfModel(Exception):
    pass


def cl(items):
    return "[" + "; ".join(items) + "]"


def cbool(b):
    return "true" if b else "false"


# ---------------------------------------------------------------- json
def json_term(x) -> str:
    if x is None:
        return "JNull"
    if x is True or x is False:
        return f"(JBool {cbool(x)})"
    if isinstance(x, int):
        return f"(JInt {coq_z(x)})"
    if isinstance(x, float):
        if not math.isfinite(x):
            raise OutOfModel("non-finite float")
        if x == int(x):
            return f"(JInt {coq_z(int(x))})"
        return f"(JFlt {coq_str(repr(x))})"
    if isinstance(x, str):
        return f"(JStr {coq_str(x)})"
    if isinstance(x, (list, tuple)):
        return "(JArr " + cl([json_term(y) for y in x]) + ")"
    if isinstance(x, dict):
        return "(JObj " + cl([f"({coq_str(k)}, {json_term(v)})" for k, v in x.items()]) + ")"
    raise OutOfModel(f"json {type(x).__name__}")


# ---------------------------------------------------------------- schema (real -> model term)
KW_RANK = ["type", "title", "format", "pattern", "enum", "const", "anyOf", "$ref", "properties", "required",
           "additionalProperties", "propertyNames", "prefixItems", "items", "minItems", "maxItems", "uniqueItems"]
STRIPPED = {"default", "description"}     # annotations outside C06 (C20 covers default rendering)
JT = {"null": "TyNull", "boolean": "TyBoolean", "object": "TyObject", "array": "TyArray", "number": "TyNumber",
      "string": "TyString", "integer": "TyInteger"}


class UnknownKeyword(Exception):
    pass


def schema_term(s: dict) -> str:
    kws = []
    for k in s:
        if k in STRIPPED or k in ("$defs", "components"):
            continue
        if k not in KW_RANK:
            raise UnknownKeyword(k)
    for k in KW_RANK:
        if k not in s:
            continue
        v = s[k]
        if k == "type":
            if v not in JT:
                raise UnknownKeyword(f"type {v}")
            kws.append(f"KType {JT[v]}")
        elif k == "title":
            kws.append(f"KTitle {coq_str(v)}")
        elif k == "format":
            kws.append(f"KFormat {coq_str(v)}")
        elif k == "pattern":
            kws.append(f"KPattern {coq_str(v)}")
        elif k == "enum":
            kws.append("KEnum " + cl([json_term(x) for x in v]))
        elif k == "const":
            kws.append("KConst " + json_term(v))
        elif k == "anyOf":
            kws.append("KAnyOf " + cl([schema_term(x) for x in v]))
        elif k == "$ref":
            pre, _, name = v.rpartition("/")
            kws.append(f"KRef {coq_str(pre)} {coq_str(name)}")
        elif k == "properties":
            kws.append("KProps " + cl([f"({coq_str(a)}, {schema_term(b)})" for a, b in v.items()]))
        elif k == "required":
            kws.append("KRequired " + cl([coq_str(a) for a in v]))
        elif k == "additionalProperties":
            kws.append(f"KAddl {cbool(v)}" if isinstance(v, bool) else f"KAddlS {schema_term(v)}")
        elif k == "propertyNames":
            kws.append(f"KPropNames {schema_term(v)}")
        elif k == "prefixItems":
            kws.append("KPrefix " + cl([schema_term(x) for x in v]))
        elif k == "items":
            kws.append(f"KItems {schema_term(v)}")
        elif k == "minItems":
            kws.append(f"KMin {coq_z(v)}%Z")
        elif k == "maxItems":
            kws.append(f"KMax {coq_z(v)}%Z")
        elif k == "uniqueItems":
            kws.append(f"KUnique {cbool(v)}")
    return "(S " + cl(kws) + ")"


def defs_term(defs: dict) -> str:
    return cl([f"({coq_str(k)}, {schema_term(v)})" for k, v in defs.items()])


# ---------------------------------------------------------------- types
class Emitter:
    def __init__(self, tbl: G.Table, ns: dict):
        self.tbl, self.ns = tbl, ns
        self.specs: dict = {}       # generic specialisations met while emitting types: id -> ("gdata", name, args)

    def flatten_union(self, members):
        """typing flattens nested unions and removes duplicate members (by type equality)"""
        flat = []
        for m in members:
            if m[0] == "newtype":       # opaque for typing: a NewType over a Union stays a nested anyOf
                flat.append(m)
                continue
            if m[0] == "union":
                flat.extend(self.flatten_union(m[1]))
            elif m[0] == "opt":
                flat.extend(self.flatten_union([m[1], ("none",)]))
            else:
                flat.append(m)
        out, objs = [], []
        for m in flat:
            o = eval(G.ty_src(m, self.tbl, []), self.ns)
            if any(o == p for p in objs):
                continue
            objs.append(o)
            out.append(m)
        return out

    def spec_id(self, t) -> str:
        sid = t[1] + "[" + ", ".join(G.ty_src(a, self.tbl, []) for a in t[2]) + "]"
        self.specs[sid] = t
        return sid

    def strip(self, t):
        while t[0] == "newtype":
            t = t[1]
        return t

    def ty(self, t) -> str:
        t = self.strip(t)
        k = t[0]
        simple = {"any": "TAny", "none": "TNone", "bool": "TBool", "int": "TInt", "float": "TFloat", "str": "TStr"}
        if k in simple:
            return simple[k]
        if k == "leaf":
            if t[1] == "timedelta":
                return "TTimedelta"
            if t[1] == "timezone":
                return "TTimezone"
            return f"(TLeaf {coq_str(G.LEAF_FORMAT[t[1]])})"
        if k == "enum":
            return f"(TEnum {coq_str(t[1])})"
        if k == "lit":
            return "(TLit " + cl([self.lit_json(s) for s in t[1]]) + ")"
        if k in ("list", "seq", "deque"):
            return f"(TList false {self.ty(t[1])})"
        if k == "tuplevar":
            return f"(TList true {self.ty(t[1])})"
        if k in ("set", "frozenset"):
            return f"(TSet {self.ty(t[1])})"
        if k == "tuple":
            args = []
            for a in t[1]:
                if a[0] == "unpack":
                    args.append(f"(true, {self.ty(a[1])})")
                else:
                    args.append(f"(false, {self.ty(a)})")
            return "(TTuple " + cl(args) + ")"
        if k in ("dict", "mapping", "ordereddict", "defaultdict"):
            return f"(TDict {self.ty(t[1])} {self.ty(t[2])})"
        if k == "counter":
            return f"(TDict {self.ty(t[1])} TInt)"
        if k == "chainmap":
            return f"(TList false (TDict {self.ty(t[1])} {self.ty(t[2])}))"
        if k in ("opt", "union"):
            ms = self.flatten_union([t])
            if len(ms) == 1:
                return self.ty(ms[0])
            # member order: typing caches Union objects up to member order, so the order of the
            # real object (what the library sees) is authoritative
            import typing
            real = typing.get_args(eval(G.ty_src(t, self.tbl, []), self.ns))
            objs = [eval(G.ty_src(m, self.tbl, []), self.ns) for m in ms]
            ordered = []
            for a in real:
                a0 = getattr(a, "__supertype__", a) if False else a
                hit = [m for m, o in zip(ms, objs) if o == a0 or (o is None and a0 is type(None))]
                if not hit:
                    ordered = None
                    break
                ordered.append(hit[0])
            if ordered is not None and len(ordered) == len(ms):
                ms = ordered
            return "(TUnion " + cl([self.ty(m) for m in ms]) + ")"
        if k == "data":
            return f"(TData {coq_str(t[1])})"
        if k == "gdata":
            # a specialisation G[int] is a class of its own (type arguments substituted) with the bare name G
            return f"(TData {coq_str(self.spec_id(t))})"
        if k == "tvar":
            return "TAny"           # an unbound TypeVar (class used without arguments)
        if k == "nt":
            return f"(TNamed {coq_str(t[1])})"
        if k == "td":
            return f"(TTyped {coq_str(t[1])})"
        raise OutOfModel(k)

    def lit_json(self, src) -> str:
        v = eval(src, self.ns)
        if isinstance(v, enum.Enum):
            v = v.value
        if isinstance(v, bytes):
            return json_term(base64.encodebytes(v).decode())
        return json_term(v)

    def env(self) -> str:
        classes, typeds, nts, enums = [], [], [], []
        ov = {None: "None", "as_dict": "(Some true)", "as_list": "(Some false)"}
        def data_entry(d, cid, tenv):
            fs = []
            for f in d["fields"]:
                key = f["alias"] if f["alias"] is not None else f["name"]
                # observed rendering: a field declared as the bare TypeVar stays {} (Any) in the schema of a specialisation,
                # a TypeVar nested in the field type (List[T], Optional[T]) is replaced by the type argument
                fty = "TAny" if f["type"][0] == "tvar" else self.ty(G.subst(f["type"], tenv))
                fser = "None"
                if (f.get("ser") or ("",))[0] == "fn":
                    fser = f"(Some {self.ty(f['ser'][1])})"     # the schema describes the return annotation of the function
                fs.append(f"(mkF {coq_str(f['name'])} {coq_str(key)} {fty} "
                          f"{cbool(f['default'] is not None)} {cbool(f['init'])} {ov[f.get('nt_override')]} "
                          f"{cbool(f['default'] is not None and f['default'][1] == 'None')} {fser})")
            cfg = d.get("cfg") or {}
            return f"(mkC {coq_str(cid)} {coq_str(d['clsname'])} {cl(fs)} {cbool(cfg.get('nt_as_dict'))} {cbool(cfg.get('omit_none'))})"
        for d in self.tbl.decls:
            if d["kind"] == "data" and d["tvars"]:
                continue
            if d["kind"] == "data":
                classes.append(data_entry(d, d["name"], {}))
            elif d["kind"] == "nt":
                fs = [f"(mkF {coq_str(f['name'])} {coq_str(f['name'])} {self.ty(f['type'])} {cbool(f['default'] is not None)} true None false None)"
                      for f in d["fields"]]
                nts.append(f"(mkC {coq_str(d['name'])} {coq_str(d['clsname'])} {cl(fs)} false false)")
            elif d["kind"] == "td":
                fs = []
                for f in d["fields"]:
                    required = (d["total"] and f["marker"] != "NotRequired") or f["marker"] == "Required"
                    fs.append(f"(mkF {coq_str(f['name'])} {coq_str(f['name'])} {self.ty(f['type'])} {cbool(not required)} true None false None)")
                typeds.append(f"(mkC {coq_str(d['name'])} {coq_str(d['clsname'])} {cl(fs)} false false)")
            elif d["kind"] == "enum":
                vals = [json_term(m.value) for m in self.ns[d["name"]]]
                enums.append(f"(mkE {coq_str(d['name'])} {cl(vals)} {cbool(d['base'] in ('Flag', 'IntFlag'))})")
        done = set()
        while set(self.specs) - done:           # emitting a specialisation may meet further ones
            for sid in sorted(set(self.specs) - done):
                t = self.specs[sid]
                classes.append(data_entry(self.tbl.by_name[t[1]], sid, {"T": t[2][0]}))
                done.add(sid)
        return f"(mkEnv {cl(classes)} {cl(typeds)} {cl(nts)} {cl(enums)})"

    # ------------------------------------------------------------ values (type directed, on real objects)
    def leaf_wire(self, kind, v) -> str:
        """independent rendering of stdlib leaves (documented basic forms)"""
        if kind in ("bytes", "bytearray"):
            return base64.encodebytes(bytes(v)).decode()
        if kind in ("datetime", "date", "time"):
            return v.isoformat()
        if kind in ("purepath", "path"):
            return str(v)
        return str(v)

    def top_conforms(self, t, v):
        from harness.props.c06 import Sites
        return Sites(self.tbl, types_ns(self.ns), False).top_conforms(t, v)

    def value(self, t, v) -> str:
        t = self.strip(t)
        k = t[0]
        if k == "gdata":
            d = self.tbl.by_name[t[1]]
            env = {"T": t[2][0]}
            out = []
            for f in d["fields"]:
                fv = getattr(v, f["name"])
                if f["type"][0] == "tvar":          # model type TAny: the value by its basic form at the type argument
                    from mashumaro.codecs.basic import BasicEncoder
                    import json as _json
                    enc = BasicEncoder(eval(G.ty_src(env["T"], self.tbl, []), self.ns)).encode(fv)
                    out.append(f"({coq_str(f['name'])}, (VRaw {json_term(_json.loads(_json.dumps(enc)))}))")
                else:
                    out.append(f"({coq_str(f['name'])}, {self.value(G.subst(f['type'], env), fv)})")
            return "(VObj " + cl(out) + ")"
        if k == "any":
            return f"(VRaw {json_term(plain_json(v))})"
        if k == "none":
            return "VNone"
        if k == "bool":
            return f"(VBool {cbool(v)})"
        if k == "int":
            return f"(VInt {coq_z(v)}%Z)"
        if k == "float":
            if isinstance(v, int) or v == int(v):
                return f"(VInt {coq_z(int(v))}%Z)"
            return f"(VFlt {coq_str(repr(v))})"
        if k == "str":
            return f"(VStr {coq_str(v)})"
        if k == "leaf":
            if t[1] == "timedelta":
                return f"(VTd {json_term(v.total_seconds())})"
            if t[1] == "timezone":
                off = v.utcoffset(None)
                if off.microseconds or off.seconds % 60 or v.tzname(None) != datetime.timezone(off).tzname(None):
                    raise OutOfModel("timezone outside whole-minute unnamed offsets")
                return f"(VTz {coq_z(int(off.total_seconds() // 60))}%Z)"
            return f"(VLeaf {coq_str(self.leaf_wire(t[1], v))})"
        if k == "enum":
            members = list(type(v))
            for i, m in enumerate(members):
                if m is v:
                    return f"(VEnum {i})"
            return f"(VFlag {coq_z(int(v.value))}%Z)"
        if k == "lit":
            if isinstance(v, enum.Enum):
                v = v.value
            if isinstance(v, bytes):
                return f"(VRaw {json_term(base64.encodebytes(v).decode())})"
            return f"(VRaw {json_term(v)})"
        if k in ("list", "seq", "deque", "tuplevar", "set", "frozenset"):
            return "(VList " + cl([self.value(t[1], x) for x in list(v)]) + ")"
        if k == "tuple":
            return "(VList " + cl(self.tuple_values(t, tuple(v))) + ")"
        if k in ("dict", "mapping", "ordereddict", "defaultdict", "counter"):
            for a in v:
                if isinstance(a, float) and a == int(a):
                    raise OutOfModel("integral float as mapping key (member name is repr(float))")
                if a != a:
                    raise OutOfModel("NaN-like mapping key (distinct keys, one member name)")
            names = []
            for a in v:
                b = a.value if isinstance(a, enum.Enum) else a
                if b is None or isinstance(b, (bool, int, float, str)):
                    import json as _json
                    names.append(next(iter(_json.loads(_json.dumps({b: 0})))))
            if len(set(names)) < len(names):
                # e.g. {None: 3, 'null': ...}: distinct Python keys, one JSON member name (the JSON round trip merges them)
                raise OutOfModel("mapping keys collide on the wire")
        if k in ("dict", "mapping", "ordereddict", "defaultdict"):
            return "(VDict " + cl([f"({self.value(t[1], a)}, {self.value(t[2], b)})" for a, b in v.items()]) + ")"
        if k == "counter":
            return "(VDict " + cl([f"({self.value(t[1], a)}, (VInt {coq_z(b)}%Z))" for a, b in v.items()]) + ")"
        if k == "chainmap":
            return "(VList " + cl([self.value(("dict", t[1], t[2]), mp) for mp in v.maps]) + ")"
        if k in ("opt", "union"):
            for m in self.flatten_union([t]):
                if self.top_conforms(m, v):
                    return self.value(m, v)
            raise OutOfModel("value matches no union member")
        if k == "data":
            d = self.tbl.by_name[t[1]]
            out = []
            for f in d["fields"]:
                if (f.get("ser") or ("",))[0] == "fn":      # the member is what the user's serialize function returns
                    if getattr(v, f["name"]) is None:
                        out.append(f"({coq_str(f['name'])}, VNone)")        # None is not passed to the function
                    else:
                        out.append(f"({coq_str(f['name'])}, {self.value(f['ser'][1], eval(G.val_src(f['ser'][2]), self.ns))})")
                else:
                    out.append(f"({coq_str(f['name'])}, {self.value(f['type'], getattr(v, f['name']))})")
            return "(VObj " + cl(out) + ")"
        if k == "nt":
            d = self.tbl.by_name[t[1]]
            return "(VList " + cl([self.value(f["type"], x) for f, x in zip(d["fields"], v)]) + ")"
        if k == "td":
            d = self.tbl.by_name[t[1]]
            return "(VObj " + cl([f"({coq_str(f['name'])}, {self.value(f['type'], v[f['name']])})" for f in d["fields"] if f["name"] in v]) + ")"
        raise OutOfModel(k)

    def tuple_values(self, t, v):
        if t[0] == "tuplevar":
            return [self.value(t[1], x) for x in v]
        args = t[1]
        ui = [i for i, a in enumerate(args) if a[0] == "unpack"]
        if not ui:
            if len(v) != len(args):
                raise OutOfModel("tuple length")
            return [self.value(a, x) for a, x in zip(args, v)]
        u = ui[0]
        nafter = len(args) - u - 1
        out = [self.value(args[i], v[i]) for i in range(u)]
        out += self.tuple_values(args[u][1], v[u:len(v) - nafter])
        out += [self.value(args[u + 1 + j], v[len(v) - nafter + j]) for j in range(nafter)]
        return out


class types_ns:
    """adapter: Sites wants an object with __dict__ = namespace"""
    def __init__(self, ns):
        self.__dict__ = ns


def plain_json(v):
    """basic form of the values the generator offers at Any positions"""
    if isinstance(v, (list, tuple)):
        return [plain_json(x) for x in v]
    if isinstance(v, dict):
        return {k: plain_json(x) for k, x in v.items()}
    return v


def has_name_clash(tbl: G.Table) -> bool:
    seen = collections.Counter(d["clsname"] for d in tbl.decls if d["kind"] == "data")
    return any(n > 1 for n in seen.values())


def uses_generic(t, tbl) -> bool:
    if t[0] in ("gdata", "tvar"):
        return True
    if t[0] in ("data", "nt", "td"):
        d = tbl.by_name[t[1]]
        if d.get("tvars"):
            return True
        return any(uses_generic(f["type"], tbl) for f in d["fields"])
    for x in t[1:]:
        if isinstance(x, tuple) and uses_generic(x, tbl):
            return True
        if isinstance(x, list) and any(isinstance(y, tuple) and uses_generic(y, tbl) for y in x):
            return True
    return False


def union_safe(t, tbl, em: "Emitter", seen=None) -> bool:
    """(c) is restricted to unions with at most one member whose packer is not the guarded
    identity: pack_union is speculative (the first member packer that does not raise wins, e.g.
    Union[Tuple[str, ...], Dict[int, str]] renders the dict {1: 'a'} as ['1']) - a matter of
    C02/C11, not of C06 (the schema still accepts such documents)"""
    seen = set() if seen is None else seen

    def raw_newtype_member(u):
        if u[0] == "opt":
            return u[1][0] == "newtype" or raw_newtype_member(u[1])
        if u[0] == "union":
            return any(m[0] == "newtype" or raw_newtype_member(m) for m in u[1])
        return False
    if raw_newtype_member(t):
        # Union[NewType('X', str), Tuple[()]] serializes 'b' as []: the identity packer of a NewType member is
        # guarded by a class check that never holds, the value falls through to the next member (C02/C11)
        return False
    t = em.strip(t)
    if t[0] in ("opt", "union"):
        ms = em.flatten_union([t])
        hard = [m for m in ms if m[0] not in ("int", "float", "bool", "str", "none")]
        if len(hard) > 1 or any(m[0] == "any" for m in ms):
            return False
        if hard and any(m[0] == "float" for m in ms):
            return False        # an int offered at the float member is not class-exact: it falls to the other member's packer
        return all(union_safe(m, tbl, em, seen) for m in ms)
    if t[0] in ("data", "nt", "td", "gdata"):
        if t[1] in seen:
            return True
        seen.add(t[1])
        return all(union_safe(f["type"], tbl, em, seen) for f in tbl.by_name[t[1]]["fields"])
    for x in t[1:]:
        if isinstance(x, tuple) and not union_safe(x, tbl, em, seen):
            return False
        if isinstance(x, list) and any(isinstance(y, tuple) and not union_safe(y, tbl, em, seen) for y in x):
            return False
    return True
